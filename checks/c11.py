"""C11 - store backends honour the key-value contract and isolate keys.

Reference: specs/KvStore.tla (checked exhaustively for small bounds).
Binding: specs/KvStoreGen.tla prints seeded random behaviours of the reference
with the expected result of every read and the complete committed content
after every commit / drop / reopen; harness/src/bin/kv_replay.rs replays each
behaviour on RocksDB, Fjall and MemKv (control) under several concrete,
adversarial key encodings ("families") in a fresh directory with real
close / reopen, and a reader-vs-committer probe looks for partially visible
batches.
First touch after open: specs/KvStoreGen.tla (FTSpec, KvStoreGenFT.cfg) is
enumerated exhaustively by TLC - [committed prefix; close/open;] op1; [op2];
commit; read everything; close/open; read everything, where nothing is read
between the open and op1, so that op1 is the first operation that resolves its
column family in the session (KvStore.tla: cfmap / touched, invariants
ResultsIgnoreTouched and OwnFamilyOnly, mutation switch MisTag).
A serialization buffer is a sequence: specs/KvStoreGen.tla (BOSpec,
KvStoreGenBO.cfg) enumerates every buffer with two or three conflicting
operations on one cell (one buffer with other cells / columns in between, two
buffers consumed in both orders, direct and buffered operations mixed);
replayed with padded buffers (0 / 12 / 30 writes to columns outside the model
before, after and around the model's operations); KvStore.tla: BufOrder
mutation switch, invariant BufferIsSequence.
"""
import json
import os
import re
import shutil
import subprocess
import tempfile
import time
from concurrent.futures import ThreadPoolExecutor

import vp

PID = "C11"

# Findings on the unchanged tree, recognised by a specific signature (the
# entries proposed for /verif/known_findings.json; the file wins when it lists
# the id, e.g. with status "fixed").
LOCAL_KNOWN = {
    "KF_WIDE_CONCAT_ALIAS": "wide-column composite key is enc(key) ++ enc(discriminant) without framing "
                            "(rocksdb.rs / fjall.rs encode_wide_column_key): with a Suffixed column, a key type whose "
                            "encoding is not self-delimiting and discriminants of different encoded length, two "
                            "different (key, value type) cells share one physical key and overwrite / read each other",
    "KF_FJALL_EMPTY_KEY_ALIAS": "fjall.rs encode_value(non_empty = true) replaces an EMPTY key encoding by the byte "
                                "00, which is also the encoding of another key of the same (not self-delimiting) key "
                                "type: both keys share one physical key on Fjall only",
    "KF_FJALL_BATCH_NOT_ATOMIC": "fjall.rs reads with Keyspace::get / Keyspace::prefix (SeqNo::MAX, no snapshot) while "
                                 "fjall's Batch::commit inserts the items one by one: a concurrent reader sees the first "
                                 "op of a batch and afterwards still the old value of its last op",
    "KF_FJALL_CLOSE_HANG": "dropping the last handle of a Fjall database did not return within the watchdog "
                           "(fjall 3.0.1 DatabaseInner::drop keeps sending Close while active_thread_counter > 0)",
    "KF_FJALL_CLOSE_RACE_LOSES_BATCH": "Fjall under CPU contention: after dropping every handle and opening the same directory "
                                       "again the batches committed last are missing. fjall.rs commits with durability(None) "
                                       "(the batch stays in the journal's BufWriter until Journal::drop persists it); fjall 3.0.1 "
                                       "worker threads decrement active_thread_counter BEFORE their closure drops its Supervisor "
                                       "clone (worker_pool.rs), so DatabaseInner::drop returns while a descheduled worker still owns "
                                       "the Arc<Journal>, and the reopen recovers the journal file without the buffered tail. Same "
                                       "shutdown protocol as KF_FJALL_CLOSE_HANG; not reproducible when the run is repeated alone",
}

MAX_VIOLATION_FILES = 12      # further wrong reads of one run are counted, not written
ALL_FAMS = ["int", "bytes", "ff", "varff", "big", "nested", "strbytes", "raw", "rawvar"]
RAW_FAMS = {"raw", "rawvar"}          # key types whose encoding is not self-delimiting
BACKENDS = ["rocksdb", "fjall", "mem"]


def known_status():
    """id -> status; the committed file overrides the local list."""
    st = {k: "known" for k in LOCAL_KNOWN}
    for k in vp.load_known():
        if k.get("property") == PID:
            st[k["id"]] = k.get("status", "known")
    return st


_bd = None


def build():
    """Build only this check's binary (with the real backends)."""
    global _bd
    if _bd is None:
        lock = os.path.join(vp.HARNESS, "Cargo.lock")
        if not os.path.exists(lock):
            shutil.copy(vp.REPO + "/Cargo.lock", lock)
        cmd = ["cargo", "build", "--offline", "--bin", "kv_replay", "--features", "backends"]
        t0 = time.time()
        p = vp.run(cmd, cwd=vp.HARNESS, timeout=3600, check=False)
        if p.returncode != 0 and "yanked" in (p.stdout or ""):
            shutil.copy(vp.REPO + "/Cargo.lock", lock)
            p = vp.run(cmd, cwd=vp.HARNESS, timeout=3600, check=False)
        if p.returncode != 0:
            raise vp.ToolError("harness build failed:\n" + (p.stdout or "")[-6000:])
        vp.log(f"[build] kv_replay (features=backends) {time.time() - t0:.1f}s")
        _bd = vp.bindir()
    return _bd


def kv_replay(bd, *args, timeout=3000):
    p = vp.run_subject([os.path.join(bd, "kv_replay")] + [str(a) for a in args], timeout=timeout)
    return p.stdout or ""


# --------------------------------------------------------------------------
# TLC: exhaustive reference check, as-is switches, behaviour generator
# --------------------------------------------------------------------------

def model_check(coverage=False):
    """Exhaustive runs of the reference with the contract switches."""
    out = {"states": 0, "transitions": 0, "configs": {}, "coverage": {}}
    for cfg in ("KvStoreMC.cfg", "KvStoreMCWide.cfg", "KvStoreMCSets.cfg", "KvStoreMCTouch.cfg"):
        cov = coverage and cfg in ("KvStoreMC.cfg", "KvStoreMCTouch.cfg")
        r = vp.tlc("KvStore", cfg=cfg, workers=4, timeout=600, coverage=cov)
        if not r["ok"]:
            # a counterexample in the model alone is a defect of the model,
            # never a verdict about the code
            raise vp.ToolError(f"reference spec KvStore/{cfg} does not satisfy its invariants:\n{r['out'][-3000:]}")
        out["states"] += r["distinct"]
        out["transitions"] += r["generated"]
        out["configs"][cfg] = {"distinct": r["distinct"], "generated": r["generated"], "depth": r["depth"],
                               "wall_s": round(r["wall_s"], 1)}
        if cov:
            # KvStoreMC runs without the family cache (ReadGet / ReadScan disabled), KvStoreMCTouch with it
            out["coverage"][cfg] = {k: list(v) for k, v in vp.tlc_coverage(r["out"]).items()}
    return out


def asis_switches():
    """The as-is switches must reproduce the defect classes in the model."""
    res = {}
    for cfg, expect in (("KvStoreAsIsNonAtomic.cfg", True), ("KvStoreAsIsAlias.cfg", True),
                        ("KvStoreAsIsLazyScan.cfg", False)):
        r = vp.tlc("KvStore", cfg=cfg, workers=4, timeout=600, check_ok=False)
        violated = "ReadsLastCommitted" in r["invariant_violated"]
        if violated != expect:
            raise vp.ToolError(f"as-is configuration {cfg}: expected violated={expect}, TLC says {r['invariant_violated']}\n"
                               f"{r['out'][-2000:]}")
        res[cfg] = {"ReadsLastCommitted_violated": violated, "distinct": r["distinct"]}
    return res


def first_touch_mutation():
    """The family cache of the reference is not vacuous: with the mutation
    switch (a buffered member delete names the other family on a cache miss)
    TLC finds a wrong scan, through a Reopen, and the dependence on `touched`."""
    res = {}
    r = vp.tlc("KvStore", cfg="KvStoreMutFirstTouch.cfg", workers=4, timeout=600, check_ok=False)
    wrong_scan = "ScansExactMembers" in r["invariant_violated"]
    through_reopen = bool(re.search(r"State \d+: <Reopen ", r["out"])) and bool(re.search(r"State \d+: <Consume", r["out"]))
    if not (wrong_scan and through_reopen):
        raise vp.ToolError(f"KvStoreMutFirstTouch.cfg: expected a wrong scan through Consume and Reopen, TLC says "
                           f"{r['invariant_violated']}\n{r['out'][-2000:]}")
    res["KvStoreMutFirstTouch.cfg"] = {"ScansExactMembers_violated": True, "trace_has_Reopen_and_Consume": True,
                                       "trace_len": len(re.findall(r"^State \d+: <", r["out"], re.M)) + 1,
                                       "distinct": r["distinct"]}
    r = vp.tlc("KvStore", cfg="KvStoreMutFirstTouchDep.cfg", workers=4, timeout=600, check_ok=False)
    if "ResultsIgnoreTouched" not in r["invariant_violated"]:
        raise vp.ToolError(f"KvStoreMutFirstTouchDep.cfg: expected ResultsIgnoreTouched violated, TLC says "
                           f"{r['invariant_violated']}\n{r['out'][-2000:]}")
    res["KvStoreMutFirstTouchDep.cfg"] = {"ResultsIgnoreTouched_violated": True, "distinct": r["distinct"]}
    return res


def buffer_order_mutation():
    """'A serialization buffer is a sequence' is not vacuous in the reference: when consume appends
    the operations of a buffer in an arbitrary order, or grouped by column with an arbitrary order
    inside a column, TLC finds a wrong read (and the mechanism invariant fails at the consume)."""
    res = {}
    for cfg, inv in (("KvStoreMutBufOrder_any.cfg", "ReadsLastCommitted"), ("KvStoreMutBufOrder_bycol.cfg", "ReadsLastCommitted"),
                     ("KvStoreMutBufOrderMech.cfg", "BufferIsSequence")):
        r = vp.tlc("KvStore", cfg=cfg, workers=2, timeout=600, check_ok=False)
        if inv not in r["invariant_violated"] or not re.search(r"State \d+: <Consume", r["out"]):
            raise vp.ToolError(f"{cfg}: expected {inv} violated through a Consume, TLC says {r['invariant_violated']}\n"
                               f"{r['out'][-2000:]}")
        res[cfg] = {inv + "_violated": True, "trace_len": len(re.findall(r"^State \d+: <", r["out"], re.M)) + 1,
                    "distinct": r["distinct"]}
    return res


# padding of the buffers of the buffer-order family: (writes per buffered model operation, where)
BO_PADS_ALL = [(0, "before"), (12, "before"), (12, "after"), (12, "both"), (30, "before"), (30, "after"), (30, "both")]
BO_POS = ["before", "after", "both"]


def generate_bo(wd, tier):
    """Exhaustive enumeration of the buffer-order behaviours, multiplied by the padding variants.
    Returns (cases path, behaviours, case lines, TLC result, shape statistics)."""
    r = vp.tlc("KvStoreGen", cfg="KvStoreGenBO.cfg", env={"NK": "2", "NV": "1", "NE": "1", "STEPS": "0", "BO_MAXOPS": "3"},
               workers=1, timeout=900, check_ok=False)
    if not r["ok"]:
        raise vp.ToolError("KvStoreGen/BOSpec: TLC did not complete without error:\n" + r["out"][-3000:])
    raw = os.path.join(wd, "cases_buforder_model.ndjson")
    n = _cases_from_tlc(r["out"], raw)
    if n == 0:
        raise vp.ToolError("KvStoreGen/BOSpec produced no behaviours:\n" + r["out"][-3000:])
    st = {"behaviours": n, "shape": {}, "target": {}, "prefix": {}, "conflicting_ops_on_target_cell": {},
          "with_other_cell_or_column_between": 0, "padding": {}}
    path = os.path.join(wd, "cases_buforder.ndjson")
    lines = 0
    with open(path, "w") as f:
        for i, line in enumerate(open(raw)):
            c = json.loads(line)
            h = c["events"][0]
            for k, v in (("shape", h["shape"] + (str(h["arr"]) if h["arr"] else "")), ("target", h["tgt"]), ("prefix", h["prefix"])):
                st[k][v] = st[k].get(v, 0) + 1
            nt = sum(1 for e in c["events"] if e.get("role") == "t")
            st["conflicting_ops_on_target_cell"][str(nt)] = st["conflicting_ops_on_target_cell"].get(str(nt), 0) + 1
            st["with_other_cell_or_column_between"] += any(e.get("role") in ("fs", "fo") for e in c["events"])
            if tier == "thorough":
                pads = BO_PADS_ALL
            else:
                # every behaviour with 12 and with 30 (the position rotates), every third one also without padding
                pads = [(12, BO_POS[i % 3]), (30, BO_POS[(i + 1) % 3])] + ([(0, "before")] if i % 3 == 0 else [])
            for pad, pos in pads:
                c["pad"], c["padpos"] = pad, pos
                f.write(json.dumps(c) + "\n")
                lines += 1
                st["padding"][f"{pad}/{pos}"] = st["padding"].get(f"{pad}/{pos}", 0) + 1
    return path, n, lines, r, st


def _cases_from_tlc(out, path):
    n = 0
    with open(path, "w") as f:
        for line in out.splitlines():
            if line.startswith('"{'):
                f.write(json.loads(line) + "\n")
                n += 1
    return n


# bounds of the first-touch family: elements op1/op2 range over, get/scan as
# op2, late consume, keys of op2, op2 after the empty prefix
FT_BOUNDS = {"quick": {"FT_NE_OP": 1, "FT_OP2READS": 0, "FT_LATE": 0, "FT_NK_OP2": 1, "FT_FRESH_OP2": 1},
             "thorough": {"FT_NE_OP": 2, "FT_OP2READS": 1, "FT_LATE": 1, "FT_NK_OP2": 2, "FT_FRESH_OP2": 1}}


def generate_ft(wd, tier):
    """Exhaustive (breadth-first) enumeration of the first-touch behaviours.
    Returns (cases path, n, TLC result, shape statistics)."""
    env = {"NK": "2", "NV": "2", "NE": "3", "STEPS": "0"}
    env.update({k: str(v) for k, v in FT_BOUNDS["thorough" if tier == "thorough" else "quick"].items()})
    r = vp.tlc("KvStoreGen", cfg="KvStoreGenFT.cfg", env=env, workers=1, timeout=1500, check_ok=False)
    if not r["ok"]:
        raise vp.ToolError("KvStoreGen/FTSpec: TLC did not complete without error:\n" + r["out"][-3000:])
    path = os.path.join(wd, "cases_firsttouch.ndjson")
    n = _cases_from_tlc(r["out"], path)
    if n == 0:
        raise vp.ToolError("KvStoreGen/FTSpec produced no behaviours:\n" + r["out"][-3000:])
    # shape statistics, from the `t` (columns touched so far) the model printed
    st = {"behaviours": n, "prefix": {}, "op1": {}, "op1_is_first_touch_of_its_column": 0, "with_op2": 0,
          "op2_first_touch_of_another_column": 0, "first_touch_is_a_read_then_write": 0,
          "read_between_open_and_op1": 0, "late_consume": 0}
    for line in open(path):
        c = json.loads(line)
        ev = c["events"]
        pre = ev[0]["prefix"]
        st["prefix"][pre] = st["prefix"].get(pre, 0) + 1
        start = max(i for i, e in enumerate(ev) if e["a"] == "batch")
        body = [e for e in ev[start + 1:] if e["a"] in ("op", "get", "scan", "consume")]
        # an op staged in a buffer touches its column when the buffer is consumed
        touches, staged = [], []
        for e in body:
            if e["a"] == "op" and e["via"] == "sb":
                staged.append(e)
            elif e["a"] == "consume":
                touches += [(s, e["t"]) for s in staged]
                staged = []
            else:
                touches.append((e, e["t"]))
        issued = [e for e in body if e["a"] != "consume"]
        o1 = issued[0]
        col1 = o1["op"]["c"] if o1["a"] == "op" else o1["c"]
        key = (o1["via"] + "_" + o1["op"]["k"] if o1["a"] == "op" else o1["a"]) + ":" + col1
        st["op1"][key] = st["op1"].get(key, 0) + 1
        if ev[start]["t"] or o1["t"]:
            st["read_between_open_and_op1"] += 1      # must stay 0 (FTFirstTouch)
        first = touches[0]
        fcol = first[0]["op"]["c"] if first[0]["a"] == "op" else first[0]["c"]
        if first[0] is o1 and fcol not in first[1]:
            st["op1_is_first_touch_of_its_column"] += 1
        elif first[0] is not o1:
            st["late_consume"] += 1
        if len(issued) > 1:
            st["with_op2"] += 1
            o2 = issued[1]
            col2 = o2["op"]["c"] if o2["a"] == "op" else o2["c"]
            if col2 != col1:
                st["op2_first_touch_of_another_column"] += 1
            if o1["a"] in ("get", "scan") and o2["a"] == "op":
                st["first_touch_is_a_read_then_write"] += 1
    return path, n, r, st


def generate(wd, name, seed, nk, nv, ne, steps, num):
    """Seeded random walks of KvStoreGen; returns (cases path, n, states)."""
    r = vp.tlc("KvStoreGen", cfg="KvStoreGen.cfg",
               env={"NK": str(nk), "NV": str(nv), "NE": str(ne), "STEPS": str(steps)},
               workers=1, timeout=1500, check_ok=False,
               extra=["-simulate", f"num={num}", "-depth", str(2 * steps + 4), "-seed", str(seed)])
    path = os.path.join(wd, f"cases_{name}.ndjson")
    n = _cases_from_tlc(r["out"], path)
    if n == 0:
        raise vp.ToolError("KvStoreGen produced no behaviours:\n" + r["out"][-3000:])
    m = re.search(r"The number of states generated: (\d+)", r["out"])
    return path, n, int(m.group(1)) if m else 0


# --------------------------------------------------------------------------
# classification
# --------------------------------------------------------------------------

def alias_signature(res, f):
    """KF id for an `alias` finding, or None if the signature does not hold."""
    if f.get("kind") != "alias" or res["fam"] not in RAW_FAMS or not f.get("aliases"):
        return None
    ids = set()
    for a in f["aliases"]:
        ka, kb = a["cell"]["key_bytes"], a["other"]["key_bytes"]
        da, db = a["cell"]["disc_bytes"], a["other"]["disc_bytes"]
        if a["shape"] == "suffix_concat" and a["column"].endswith("Suffixed") and ka != kb and \
                (ka.startswith(kb) or kb.startswith(ka)) and len(da) != len(db) and ka + da == kb + db:
            ids.add("KF_WIDE_CONCAT_ALIAS")
        elif a["shape"] == "fjall_empty_key" and res["backend"] == "fjall" and {ka, kb} == {"", "00"} and da == db:
            ids.add("KF_FJALL_EMPTY_KEY_ALIAS")
        else:
            return None
    return ids.pop() if len(ids) == 1 else None


def _after_reopen(f, case):
    """The wrong read belongs to the comparison that follows a close / reopen."""
    at = f.get("at", "")
    if at in ("after close and reopen", "after final close and reopen"):
        return True
    ev = case["events"]
    st = f.get("step", 0)
    return at == "read everything" and 2 <= st <= len(ev) and ev[st - 2]["a"] == "reopen"


def _passes_alone(case, fam, backend, stats, attempts=2):
    """Repeat one run on its own (one thread, nothing beside it)."""
    if not stats.get("recheck"):
        return False
    bd, wd, tmp = stats["recheck"]
    p = os.path.join(wd, "recheck.ndjson")
    with open(p, "w") as fh:
        fh.write(json.dumps(case) + "\n")
    for i in range(attempts):
        out = os.path.join(wd, "recheck.result")
        kv_replay(bd, "--cases", p, "--out", out, "--fams", fam, "--backends", backend, "--tmp", tmp, "--threads", 1)
        res = [json.loads(l) for l in open(out) if l.strip()]
        if any(x["kind"] == "violation" for r in res if not r.get("summary") for x in r["findings"]):
            return False
    return True


def classify(results, cases_path, verdict, status, stats):
    cases = None
    for res in results:
        close_race = None      # verdict of the repetition, once per run
        if res.get("summary"):
            stats["runs"] += res["runs"]
            stats["reads_compared"] += res["checks"]
            continue
        for d in res.get("drift", []):
            key = f"{res['backend']}:{d['kind']}"
            stats["model_drift"][key] = stats["model_drift"].get(key, 0) + 1
            stats["drift_samples"].setdefault(key, {"fam": res["fam"], "case": res["case"], **d})
        for f in res["findings"]:
            kid = None
            if f["kind"] == "alias":
                kid = alias_signature(res, f)
            elif f["kind"] == "hang" and res["backend"] == "fjall" and \
                    re.search(r"reopen|close", f.get("at", "")):
                kid = "KF_FJALL_CLOSE_HANG"
            if kid and status.get(kid) == "known":
                verdict.known_finding(kid, LOCAL_KNOWN.get(kid, kid))
                stats["kf_samples"].setdefault(kid, {"fam": res["fam"], "backend": res["backend"],
                                                     "case": res["case"], "finding": f})
                continue
            if cases is None:
                cases = [json.loads(l) for l in open(cases_path) if l.strip()]
            # Fjall only: content missing right after a close / reopen that is there when the run is repeated alone
            kid = "KF_FJALL_CLOSE_RACE_LOSES_BATCH"
            if res["backend"] == "fjall" and f["kind"] == "violation" and status.get(kid) == "known" and \
                    all(_after_reopen(x, cases[res["case"]]) for x in res["findings"] if x["kind"] == "violation"):
                if close_race is None:
                    close_race = _passes_alone(cases[res["case"]], res["fam"], "fjall", stats)
                if close_race:
                    verdict.known_finding(kid, LOCAL_KNOWN[kid])
                    stats["kf_samples"].setdefault(kid, {"fam": res["fam"], "backend": "fjall", "case": res["case"],
                                                         "finding": f, "behaviour": cases[res["case"]]})
                    continue
            ft = cases[res["case"]].get("ft") or cases[res["case"]].get("bo")
            # the first-touch / buffer-order behaviours are replayed under every family with the same abstract content
            key = ("enumerated" if ft else res["fam"], res["backend"], f.get("read"),
                   json.dumps(f.get("cell", f.get("set"))))
            if key in stats["viol_seen"] or len(stats["viol_seen"]) >= MAX_VIOLATION_FILES:
                stats["viol_dups"] += 1
                continue
            stats["viol_seen"].add(key)
            verdict.violation(
                f"{res['backend']}/{res['fam']}: {f.get('read', f['kind'])} {f.get('at')} step {f.get('step')} "
                f"expected {f.get('expected')} got {f.get('got')}",
                {"property": PID, "backend": res["backend"], "fam": res["fam"], "finding": f,
                 "case": cases[res["case"]]})


def _kv_replay_shard(bd, wd, args, timeout=3000):
    """kv_replay with core dumps enabled (cwd = work dir). Returns the return code."""
    import resource
    import subprocess

    def pre():
        try:
            resource.setrlimit(resource.RLIMIT_CORE, (resource.RLIM_INFINITY, resource.RLIM_INFINITY))
        except (ValueError, OSError):
            pass
    try:
        p = subprocess.run([os.path.join(bd, "kv_replay")] + [str(a) for a in args], cwd=wd, timeout=timeout,
                           stdout=subprocess.PIPE, stderr=subprocess.STDOUT, text=True, errors="replace",
                           preexec_fn=pre)
    except subprocess.TimeoutExpired as ex:
        raise vp.ToolError(f"kv_replay timeout after {timeout}s") from ex
    return p.returncode, p.stdout or ""


def padded(lines, every=3, pad=12):
    """Every `every`-th behaviour is replayed with padded serialization buffers: `pad` writes to two
    columns outside the model in front of every buffered operation, so that buffers hold dozens of
    interleaved operations while the model's operations (several per key in one buffer) keep their
    order - which the store must keep too."""
    out = []
    for i, l in enumerate(lines):
        if i % every == 1:
            c = json.loads(l)
            c["pad"] = pad
            l = json.dumps(c) + "\n"
        out.append(l)
    return out


def run_replays(bd, wd, tmp, plan, seed, verdict, status, stats, threads=8, shard=400):
    """All behaviours, in shards of `shard` behaviours per kv_replay process
    (families are matched to the behaviour's domain sizes by the harness).
    A shard whose process dies from a signal (seen once: SIGSEGV inside the
    native store libraries under heavy machine load, not reproducible) is
    retried once; a second death is a tool error."""
    lines, per_case = [], 0
    for name, cases_path, pc in plan:
        per_case = max(per_case, pc)
        lines += [l for l in open(cases_path) if l.strip()]
    lines = padded(lines)
    stats["behaviours_with_padded_buffers"] = stats.get("behaviours_with_padded_buffers", 0) + sum(1 for l in lines if '"pad"' in l)
    for n, i in enumerate(range(0, len(lines), shard)):
        cases = os.path.join(wd, f"cases_shard{n}.ndjson")
        with open(cases, "w") as f:
            f.writelines(lines[i:i + shard])
        out = os.path.join(wd, f"result_shard{n}.ndjson")
        args = ["--cases", cases, "--out", out, "--fams", "all", "--per-case", per_case, "--seed", seed + n,
                "--threads", threads, "--tmp", tmp, "--watchdog", 60]
        for attempt in (1, 2):
            rc, text = _kv_replay_shard(bd, wd, args)
            if rc == 0:
                break
            stats["harness_process_deaths"].append({"shard": n, "attempt": attempt, "rc": rc, "tail": text[-500:]})
            vp.log(f"kv_replay shard {n} attempt {attempt} died rc={rc}")
            if rc > 0 or attempt == 2:
                raise vp.ToolError(f"kv_replay failed on shard {n} (rc={rc}); core file, if any, in {wd}\n{text[-3000:]}")
        results = [json.loads(l) for l in open(out) if l.strip()]
        if not any(r.get("summary") for r in results):
            raise vp.ToolError(f"kv_replay wrote no summary for {cases}")
        classify(results, cases, verdict, status, stats)


def run_ft_replays(bd, wd, tmp, cases_path, per_case, seed, verdict, status, stats, procs=8, tag="ft", pad=True):
    """The first-touch behaviours on every backend, in `procs` single-threaded
    kv_replay processes over disjoint slices (RocksDB opens do not scale over
    the threads of one process: the address-space lock is the bottleneck)."""
    lines = [l for l in open(cases_path) if l.strip()]
    if pad:
        lines = padded(lines)
    stats["behaviours_with_padded_buffers"] = stats.get("behaviours_with_padded_buffers", 0) + \
        sum(1 for l in lines if '"pad"' in l and '"pad": 0' not in l)
    jobs = []
    for n in range(procs):
        part = lines[n::procs]
        if not part:
            continue
        cases = os.path.join(wd, f"cases_{tag}{n}.ndjson")
        with open(cases, "w") as f:
            f.writelines(part)
        out = os.path.join(wd, f"result_{tag}{n}.ndjson")
        args = [os.path.join(bd, "kv_replay"), "--cases", cases, "--out", out, "--fams", "all", "--per-case", str(per_case),
                "--seed", str(seed + 1000 + n), "--threads", "1", "--tmp", tmp, "--watchdog", "60"]
        jobs.append([n, cases, out, args, None])
    for j in jobs:
        j[4] = subprocess.Popen(j[3], cwd=wd, stdout=subprocess.PIPE, stderr=subprocess.STDOUT, text=True,
                                errors="replace")
    for n, cases, out, args, p in jobs:
        try:
            text, _ = p.communicate(timeout=3000)
        except subprocess.TimeoutExpired as ex:
            for j in jobs:
                j[4].kill()
            raise vp.ToolError("kv_replay (first touch) timeout") from ex
        rc = p.returncode
        if rc != 0:
            # as in run_replays: one retry for a process killed by a signal
            stats["harness_process_deaths"].append({"shard": f"ft{n}", "attempt": 1, "rc": rc, "tail": (text or "")[-500:]})
            vp.log(f"kv_replay first-touch slice {n} died rc={rc}")
            if rc > 0:
                raise vp.ToolError(f"kv_replay failed on first-touch slice {n} (rc={rc})\n{(text or '')[-3000:]}")
            rc, text = _kv_replay_shard(bd, wd, args[1:])
            if rc != 0:
                raise vp.ToolError(f"kv_replay failed twice on first-touch slice {n} (rc={rc})\n{text[-3000:]}")
        results = [json.loads(l) for l in open(out) if l.strip()]
        if not any(r.get("summary") for r in results):
            raise vp.ToolError(f"kv_replay wrote no summary for {cases}")
        before = stats["runs"]
        classify(results, cases, verdict, status, stats)
        stats[tag + "_runs"] += stats["runs"] - before


def atomic_probe(bd, tmp, verdict, status, stats, batches, fillers):
    out = kv_replay(bd, "--mode", "atomic", "--batches", batches, "--fillers", fillers, "--tmp", tmp, timeout=900)
    line = [l for l in out.splitlines() if l.startswith('{"atomic"')]
    if not line:
        raise vp.ToolError("atomic probe printed no result:\n" + out[-2000:])
    res = json.loads(line[-1])["atomic"]
    stats["atomic_probe"] = res
    for r in res:
        if "panic" in r:
            verdict.violation(f"atomic probe panicked on {r['backend']}: {r['panic']}",
                              {"property": PID, "mode": "atomic", "result": r, "batches": batches, "fillers": fillers})
        elif r["torn"] > 0 or r.get("scan_torn", 0) > 0:
            if r["backend"] == "fjall" and status.get("KF_FJALL_BATCH_NOT_ATOMIC") == "known":
                verdict.known_finding("KF_FJALL_BATCH_NOT_ATOMIC", LOCAL_KNOWN["KF_FJALL_BATCH_NOT_ATOMIC"])
            else:
                what = (f"point reads {r['samples'][:1]}" if r["torn"] > 0 else
                        f"member scan {r['scan_samples'][:1]}")
                verdict.violation(f"{r['backend']}: reader saw a part of a batch: {what}",
                                  {"property": PID, "mode": "atomic", "result": r, "batches": batches,
                                   "fillers": fillers})


def new_stats():
    return {"runs": 0, "reads_compared": 0, "model_drift": {}, "drift_samples": {}, "kf_samples": {},
            "viol_seen": set(), "viol_dups": 0, "atomic_probe": None, "harness_process_deaths": [], "ft_runs": 0, "bo_runs": 0}


# --------------------------------------------------------------------------
# entry points
# --------------------------------------------------------------------------

def run(tier, seed):
    t0 = time.time()
    quick = tier != "thorough"
    bd = build()
    wd = vp.clean_workdir(PID)
    tmp = tempfile.mkdtemp(prefix="vh-c11-run-", dir="/tmp")
    verdict = vp.Verdict(PID)
    status = known_status()
    stats = new_stats()
    stats["recheck"] = (bd, wd, tmp)
    try:
        # TLC first (not beside the replay: CPU contention is what triggers
        # fjall's close hang), in two lanes: the exhaustive runs of the
        # reference (4 workers each, one after the other) and the behaviour
        # generators (1 worker each, one after the other)
        if quick:
            gens = [("k4", 4, 2, 3, 40, 120), ("k2", 2, 2, 2, 30, 60), ("unit", 1, 2, 3, 24, 40),
                    ("unit0", 1, 1, 1, 16, 20)]
            per_case, ft_per_case = 4, 1
        else:
            gens = [("k4", 4, 2, 3, 40, 1000), ("k4long", 4, 2, 3, 70, 300), ("k2", 2, 2, 2, 30, 400),
                    ("k3", 3, 2, 3, 50, 300), ("unit", 1, 2, 3, 24, 200), ("unit0", 1, 1, 1, 16, 60)]
            per_case, ft_per_case = 0, 2

        def lane_reference():
            return model_check(coverage=not quick), asis_switches(), first_touch_mutation(), buffer_order_mutation()

        def lane_generators():
            plan, gen_states, nbeh, sample_cases = [], 0, 0, []
            ft = generate_ft(wd, tier)
            bo = generate_bo(wd, tier)
            for i, (name, nk, nv, ne, steps, num) in enumerate(gens):
                path, n, st = generate(wd, name, seed * 100 + i, nk, nv, ne, steps, num)
                gen_states += st
                nbeh += n
                plan.append((name, path, per_case))
                if i < 2:
                    sample_cases.append(json.loads(open(path).readline()))
            return plan, gen_states, nbeh, sample_cases, ft, bo

        phases = {"build_s": round(time.time() - t0, 1)}
        t_ph = time.time()
        with ThreadPoolExecutor(max_workers=2) as ex:
            f_ref, f_gen = ex.submit(lane_reference), ex.submit(lane_generators)
            mc, asis, ftmut, bomut = f_ref.result()
            plan, gen_states, nbeh, sample_cases, (ft_path, ft_n, ft_tlc, ft_shape), \
                (bo_path, bo_n, bo_lines, bo_tlc, bo_shape) = f_gen.result()
        if ft_shape["read_between_open_and_op1"] or ft_shape["op1_is_first_touch_of_its_column"] + \
                ft_shape["late_consume"] != ft_n:
            raise vp.ToolError(f"first-touch family is not what it claims to be: {ft_shape}")
        phases["tlc_two_lanes_s"] = round(time.time() - t_ph, 1)
        t_ft = time.time()
        # memory-backed directory when there is one: these runs are dominated by open / close
        ft_tmp = tempfile.mkdtemp(prefix="vh-c11-ft-", dir="/dev/shm") if os.access("/dev/shm", os.W_OK) else tmp
        try:
            run_ft_replays(bd, wd, ft_tmp, ft_path, ft_per_case, seed, verdict, status, stats)
            ft_wall = time.time() - t_ft
            run_ft_replays(bd, wd, ft_tmp, bo_path, ft_per_case, seed + 7, verdict, status, stats, tag="bo", pad=False)
            bo_wall = time.time() - t_ft - ft_wall
        finally:
            if ft_tmp != tmp:
                shutil.rmtree(ft_tmp, ignore_errors=True)
        t_ph = time.time()
        run_replays(bd, wd, tmp, plan, seed, verdict, status, stats)
        phases["random_walk_replay_s"] = round(time.time() - t_ph, 1)
        t_ph = time.time()
        atomic_probe(bd, tmp, verdict, status, stats, 100 if quick else 600, 2000)
        phases["atomic_probe_s"] = round(time.time() - t_ph, 1)
        phases["first_touch_replay_s"] = round(ft_wall, 1)
        phases["buffer_order_replay_s"] = round(bo_wall, 1)
        vp.log(f"[C11] phases {json.dumps(phases)}")
    finally:
        shutil.rmtree(tmp, ignore_errors=True)
    rc = verdict.finish()
    layout = [json.loads(l) for l in kv_replay(bd, "--mode", "layout").splitlines() if l.startswith("{")]
    coverage = {
        "states": mc["states"] + ft_tlc["distinct"] + bo_tlc["distinct"],
        "transitions": mc["transitions"] + ft_tlc["generated"] + bo_tlc["generated"],
        "traces_validated_against_impl": stats["runs"],
        "samples": [{"tlc_behaviour": {**c, "events": c["events"][:14]}} for c in sample_cases] +
                   [{"first_touch_behaviour": json.loads(l)} for l in open(ft_path).readlines()[-1:]] +
                   [{"family_byte_layout": next(l for l in layout if l["fam"] == "rawvar")["cells"][8:12]}],
        "exhaustive_configs": mc["configs"],
        "action_coverage": mc["coverage"],
        "asis_switches": asis,
        "phase_wall_s": phases,
        "behaviours_from_tlc_simulation": nbeh,
        "buffer_order_family": {
            "what": "KvStoreGen.tla BOSpec / KvStoreGenBO.cfg, breadth-first: [prefix; commit; read everything;] 2-3 conflicting "
                    "operations on one cell in one buffer (other cell / column in between), in two buffers consumed in both "
                    "orders, or direct + buffered; commit; read everything; close/open; read everything - replayed with "
                    "padded buffers (writes per buffered model operation / position)",
            "tlc": {"distinct": bo_tlc["distinct"], "generated": bo_tlc["generated"], "depth": bo_tlc["depth"],
                    "wall_s": round(bo_tlc["wall_s"], 1)},
            "shape": bo_shape,
            "behaviour_x_padding": bo_lines,
            "families_per_behaviour": ft_per_case,
            "runs_behaviour_x_family_x_backend": stats["bo_runs"],
            "replay_wall_s": round(bo_wall, 1),
            "model_mutation_BufOrder": bomut,
        },
        "first_touch_family": {
            "what": "KvStoreGen.tla FTSpec / KvStoreGenFT.cfg, breadth-first: [prefix; close/open;] op1; [op2]; commit; "
                    "read everything; close/open; read everything - no read between the open and op1",
            "bounds": FT_BOUNDS["quick" if quick else "thorough"],
            "tlc": {"distinct": ft_tlc["distinct"], "generated": ft_tlc["generated"], "depth": ft_tlc["depth"],
                    "wall_s": round(ft_tlc["wall_s"], 1)},
            "shape": ft_shape,
            "families_per_behaviour": ft_per_case,
            "runs_behaviour_x_family_x_backend": stats["ft_runs"],
            "replay_wall_s": round(ft_wall, 1),
            "model_mutation_MisTag_sb_rem": ftmut,
        },
        "generator_states": gen_states,
        "runs_behaviour_x_family_x_backend": stats["runs"],
        "reads_compared_with_tlc_expectation": stats["reads_compared"],
        "families": ALL_FAMS + ["unit", "unit0"],
        "backends": BACKENDS,
        "atomic_probe": stats["atomic_probe"],
        "model_drift": stats["model_drift"],
        "model_drift_samples": stats["drift_samples"],
        "known_finding_hits": {k: h["count"] for k, h in verdict.known_hits.items()},
        "known_finding_samples": stats["kf_samples"],
        "duplicate_violations_suppressed": stats["viol_dups"],
        "harness_process_deaths_retried": stats["harness_process_deaths"],
        "rule": "one trace = one TLC behaviour (open/fill/consume/commit/drop batches and buffers, get, scan, "
                "lazy iterator, reopen with and without reads afterwards) replayed on one backend under one concrete key family in a fresh "
                "directory; every get/scan and, after every commit/drop/reopen, every cell and every set is "
                "compared with TLC's expectation",
    }
    vp.write_evidence(PID, tier, seed, "model_checking", coverage, time.time() - t0, len(verdict.violations),
                      assumptions=[
                          "sequential histories (one handle user) except for the reader-vs-committer probe",
                          "clean close (all handles dropped) before reopen; crash durability is C08",
                          "scan of an iterator drained after later commits is judged against the must/may "
                          "envelope; 'equals the content at creation' is reported as model_drift only",
                          "raw / rawvar families use a user-defined key type whose Encode is not self-delimiting "
                          "(allowed by the trait bounds; all built-in Encode impls are self-delimiting)",
                      ])
    return rc


def replay(path):
    rp = json.load(open(path))
    bd = build()
    wd = vp.workdir(PID, "replay")
    tmp = tempfile.mkdtemp(prefix="vh-c11-run-", dir="/tmp")
    verdict = vp.Verdict(PID)
    status = known_status()
    stats = new_stats()
    try:
        if rp.get("mode") == "atomic":
            atomic_probe(bd, tmp, verdict, status, stats, rp.get("batches", 100), rp.get("fillers", 2000))
            print(json.dumps(stats["atomic_probe"]))
        else:
            cases = os.path.join(wd, "case.ndjson")
            with open(cases, "w") as f:
                f.write(json.dumps(rp["case"]) + "\n")
            out = os.path.join(wd, "result.ndjson")
            kv_replay(bd, "--cases", cases, "--out", out, "--fams", rp["fam"], "--backends", rp["backend"],
                      "--tmp", tmp, "--threads", 1)
            results = [json.loads(l) for l in open(out) if l.strip()]
            for r in results:
                if not r.get("summary"):
                    print(json.dumps(r, indent=1)[:6000])
            classify(results, cases, verdict, status, stats)
    finally:
        shutil.rmtree(tmp, ignore_errors=True)
    return verdict.finish()


def _corrupt(case, how):
    """Corrupt ONE expectation of an accepted behaviour."""
    c = json.loads(json.dumps(case))
    if how == "get":
        for e in c["events"]:
            if e["a"] == "get":
                e["exp"] = 1 if e["exp"] == 0 else 0
                return c
    if how == "state_val":
        for e in reversed(c["events"]):
            if e["a"] in ("commit", "reopen", "drop") and not e.get("q") and e["state"]["wide"]:
                w = e["state"]["wide"][0]
                w["val"] = 3 - w["val"]
                return c
    if how == "state_member":
        for e in reversed(c["events"]):
            if e["a"] in ("commit", "reopen", "drop") and not e.get("q") and e["state"]["sets"]:
                s = e["state"]["sets"][0]
                s["els"] = s["els"][1:]
                return c
    if how == "final_extra":
        c["final"]["wide"] = [w for w in c["final"]["wide"] if not (w["c"] == "W2" and w["key"] == "K2" and w["vt"] == "V1")]
        c["final"]["wide"].append({"c": "W2", "key": "K2", "vt": "V1", "val": 1 if not any(
            w["c"] == "W2" and w["key"] == "K2" and w["vt"] == "V1" and w["val"] == 1 for w in case["final"]["wide"]) else 2})
        return c
    return None



def _put(c, key, vt, val):
    return {"k": "put", "c": c, "key": key, "x": vt, "val": val}


def _one_put_case(op):
    st = {"wide": [{"c": op["c"], "key": op["key"], "vt": op["x"], "val": op["val"]}], "sets": []}
    return {"nk": 4, "nv": 2, "ne": 3, "final": st,
            "events": [{"a": "batch", "h": 1}, {"a": "op", "via": "wb", "h": 1, "op": op},
                       {"a": "commit", "h": 1, "state": st}]}


# Minimal witnesses of the known findings: (id, family, behaviour, what is observed)
WITNESSES = [
    ("KF_WIDE_CONCAT_ALIAS", "rawvar", _one_put_case(_put("W2", "K1", "V2", 1)),
     "put<W2(Suffixed, Discriminant = u32), ValB (disc 129 = 81 01)>(Raw[05], ValB(vec![])); commit; "
     "get<W2, ValA (disc 1 = 01)>(Raw[05 81]) returns Some(ValA(0)) although nothing was ever written for that "
     "key and type: both cells are stored under 05 81 01 (RocksDB and Fjall)"),
    ("KF_FJALL_EMPTY_KEY_ALIAS", "raw", _one_put_case(_put("W1", "K1", "V1", 2)),
     "put<W1(Prefixed, Discriminant = u8), ValA (disc 0)>(Raw[] (empty encoding), ValA(u64::MAX)); commit; "
     "get<W1, ValA>(Raw[00]) returns Some(ValA(u64::MAX)) on Fjall: both keys are stored under 00 00"),
    ("iterator_not_pinned (model drift, same root cause as KF_FJALL_BATCH_NOT_ATOMIC)", "int",
     {"nk": 4, "nv": 2, "ne": 3,
      "events": [{"a": "iter", "h": 1, "c": "S1", "key": "K1"}, {"a": "batch", "h": 1},
                 {"a": "op", "via": "wb", "h": 1, "op": {"k": "ins", "c": "S1", "key": "K1", "x": "E1", "val": 0}},
                 {"a": "commit", "h": 1, "state": {"wide": [], "sets": [{"c": "S1", "key": "K1", "els": ["E1"]}]}},
                 {"a": "drain", "h": 1, "snap": [], "must": [], "may": ["E1"]}],
      "final": {"wide": [], "sets": [{"c": "S1", "key": "K1", "els": ["E1"]}]}},
     "it = scan_members<S1>(0); insert_member<S1>(0, 0) in a batch; commit; it.collect() yields [0] on Fjall "
     "(RocksDB and MemKv: [])"),
]


def selftest(seed):
    bd = build()
    wd = vp.workdir(PID, "selftest")
    tmp = tempfile.mkdtemp(prefix="vh-c11-run-", dir="/tmp")
    ok = True
    try:
        # (1) the spec distinguishes the as-is classes
        asis = asis_switches()
        print("as-is switches:", json.dumps(asis))
        # (2) an accepted behaviour with one corrupted expectation is rejected
        path, n, _ = generate(wd, "st", seed, 4, 2, 3, 40, 30)
        cases = [json.loads(l) for l in open(path)]
        good = os.path.join(wd, "good.ndjson")
        with open(good, "w") as f:
            for c in cases:
                f.write(json.dumps(c) + "\n")
        out = os.path.join(wd, "good.result")
        kv_replay(bd, "--cases", good, "--out", out, "--fams", "int,bytes,nested", "--tmp", tmp)
        res = [json.loads(l) for l in open(out)]
        bad = [r for r in res if not r.get("summary") and any(f["kind"] == "violation" for f in r["findings"])]
        print(f"unmodified: {len(cases)} behaviours x 3 families x 3 backends, findings: {len(bad)}")
        ok &= not bad
        for how in ("get", "state_val", "state_member", "final_extra"):
            mutated = None
            for c in cases:
                mutated = _corrupt(c, how)
                if mutated is not None:
                    break
            if mutated is None:
                print(f"corruption {how}: no applicable behaviour")
                ok = False
                continue
            p = os.path.join(wd, f"bad_{how}.ndjson")
            with open(p, "w") as f:
                f.write(json.dumps(mutated) + "\n")
            out = os.path.join(wd, f"bad_{how}.result")
            kv_replay(bd, "--cases", p, "--out", out, "--fams", "int", "--tmp", tmp)
            res = [json.loads(l) for l in open(out)]
            rejected = {r["backend"] for r in res if not r.get("summary")
                        and any(f["kind"] == "violation" for f in r["findings"])}
            print(f"corruption {how}: rejected on {sorted(rejected)}")
            ok &= rejected == set(BACKENDS)
        # (3) first touch after open: the model's family cache is not vacuous
        # (mutation switch), the enumerated behaviours are accepted, and a
        # corrupted expectation of the final "read everything" is rejected
        print("first-touch mutation (MisTag = {sb_rem}) in the model:", json.dumps(first_touch_mutation()))
        ft_path, ft_n, ft_tlc, ft_shape = generate_ft(wd, "quick")
        print(f"first-touch family: {ft_n} behaviours, TLC {ft_tlc['distinct']} states; shape {json.dumps(ft_shape)}")
        ft_cases = [json.loads(l) for l in open(ft_path)]
        ft_cases = [c for c in ft_cases if c["events"][0]["prefix"] == "content"][::37]
        p = os.path.join(wd, "ft_good.ndjson")
        with open(p, "w") as f:
            for c in ft_cases:
                f.write(json.dumps(c) + "\n")
        out = os.path.join(wd, "ft_good.result")
        kv_replay(bd, "--cases", p, "--out", out, "--fams", "int,bytes", "--tmp", tmp)
        res = [json.loads(l) for l in open(out)]
        bad = [r for r in res if not r.get("summary") and any(f["kind"] == "violation" for f in r["findings"])]
        print(f"first touch, unmodified: {len(ft_cases)} behaviours x 2 families x 3 backends, findings: {len(bad)}")
        ok &= not bad
        mutated = json.loads(json.dumps(ft_cases[0]))
        last = [e for e in mutated["events"] if e["a"] == "sweep"][-1]
        tgt = next(x for x in last["state"]["sets"] if len(x["els"]) == 3)
        tgt["els"] = tgt["els"][1:]
        p = os.path.join(wd, "ft_bad.ndjson")
        with open(p, "w") as f:
            f.write(json.dumps(mutated) + "\n")
        out = os.path.join(wd, "ft_bad.result")
        kv_replay(bd, "--cases", p, "--out", out, "--fams", "int", "--tmp", tmp)
        rejected = {r["backend"] for r in map(json.loads, open(out)) if not r.get("summary")
                    and any(f["kind"] == "violation" and f["at"] == "read everything" for f in r["findings"])}
        print(f"first touch, corrupted final read-everything: rejected on {sorted(rejected)}")
        ok &= rejected == set(BACKENDS)
        # (3b) a serialization buffer is a sequence: mutations of the model, padded behaviours accepted,
        # a corrupted expectation rejected
        print("buffer-order mutations in the model:", json.dumps(buffer_order_mutation()))
        bo_path, bo_n, bo_lines, bo_tlc, bo_shape = generate_bo(wd, "thorough")
        print(f"buffer-order family: {bo_n} behaviours x {len(BO_PADS_ALL)} paddings, TLC {bo_tlc['distinct']} states; "
              f"shape {json.dumps(bo_shape)}")
        bo_cases = [json.loads(l) for l in open(bo_path)][5::131]
        p = os.path.join(wd, "bo_good.ndjson")
        with open(p, "w") as f:
            for c in bo_cases:
                f.write(json.dumps(c) + "\n")
        out = os.path.join(wd, "bo_good.result")
        kv_replay(bd, "--cases", p, "--out", out, "--fams", "int,bytes", "--tmp", tmp)
        res = [json.loads(l) for l in open(out)]
        bad = [r for r in res if not r.get("summary") and any(f["kind"] == "violation" for f in r["findings"])]
        print(f"buffer order, unmodified: {len(bo_cases)} padded behaviours x 2 families x 3 backends, findings: {len(bad)}")
        ok &= not bad
        mutated = next(json.loads(json.dumps(c)) for c in bo_cases if c["pad"] == 30 and c["final"]["wide"])
        for e in mutated["events"]:
            if e["a"] == "sweep":
                last = e
        last["state"]["wide"][0]["val"] = 3 - last["state"]["wide"][0]["val"]
        p = os.path.join(wd, "bo_bad.ndjson")
        with open(p, "w") as f:
            f.write(json.dumps(mutated) + "\n")
        out = os.path.join(wd, "bo_bad.result")
        kv_replay(bd, "--cases", p, "--out", out, "--fams", "int", "--tmp", tmp)
        rejected = {r["backend"] for r in map(json.loads, open(out)) if not r.get("summary")
                    and any(f["kind"] == "violation" for f in r["findings"])}
        print(f"buffer order, corrupted final read-everything: rejected on {sorted(rejected)}")
        ok &= rejected == set(BACKENDS)
        # (4) informational: the minimal witnesses of the known findings
        for kid, fam, case, what in WITNESSES:
            p = os.path.join(wd, "witness.ndjson")
            with open(p, "w") as f:
                f.write(json.dumps(case) + "\n")
            out = os.path.join(wd, "witness.result")
            kv_replay(bd, "--cases", p, "--out", out, "--fams", fam, "--tmp", tmp)
            seen = sorted({r["backend"] + ":" + x["kind"] for r in map(json.loads, open(out)) if not r.get("summary")
                           for x in r["findings"] + r["drift"]})
            print(f"witness {kid} [{fam}]: {seen if seen else 'not reproduced (repaired?)'}")
    finally:
        shutil.rmtree(tmp, ignore_errors=True)
    print("SELFTEST", "PASS" if ok else "FAIL")
    return 0 if ok else 1
