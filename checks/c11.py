"""C11 - store backends honour the key-value contract and isolate keys.

Reference: specs/KvStore.tla (checked exhaustively for small bounds).
Binding: specs/KvStoreGen.tla prints seeded random behaviours of the reference
with the expected result of every read and the complete committed content
after every commit / drop / reopen; harness/src/bin/kv_replay.rs replays each
behaviour on RocksDB, Fjall and MemKv (control) under several concrete,
adversarial key encodings ("families") in a fresh directory with real
close / reopen, and a reader-vs-committer probe looks for partially visible
batches.
"""
import json
import os
import re
import shutil
import tempfile
import time

import vp

PID = "C11"

# Findings on the unchanged tree, recognised by a specific signature (the
# entries proposed for /verif/known_findings.json; the file wins when it lists
# the id, e.g. with status "fixed").
LOCAL_KNOWN = {
    "KF_WIDE_CONCAT_ALIAS": "wide-column composite key is enc(key) ++ enc(discriminant) without framing "
                            "(rocksdb.rs / fjall.rs encode_wide_column_key): with a Suffixed column, a key type whose "
                            "encoding is not self-delimiting and discriminants of different encoded length, two "
                            "different (key, value type) cells share one physical key and overwrite / read each other",
    "KF_FJALL_EMPTY_KEY_ALIAS": "fjall.rs encode_value(non_empty = true) replaces an EMPTY key encoding by the byte "
                                "00, which is also the encoding of another key of the same (not self-delimiting) key "
                                "type: both keys share one physical key on Fjall only",
    "KF_FJALL_BATCH_NOT_ATOMIC": "fjall.rs reads with Keyspace::get / Keyspace::prefix (SeqNo::MAX, no snapshot) while "
                                 "fjall's Batch::commit inserts the items one by one: a concurrent reader sees the first "
                                 "op of a batch and afterwards still the old value of its last op",
    "KF_FJALL_CLOSE_HANG": "dropping the last handle of a Fjall database did not return within the watchdog "
                           "(fjall 3.0.1 DatabaseInner::drop keeps sending Close while active_thread_counter > 0)",
}

ALL_FAMS = ["int", "bytes", "ff", "varff", "big", "nested", "strbytes", "raw", "rawvar"]
RAW_FAMS = {"raw", "rawvar"}          # key types whose encoding is not self-delimiting
BACKENDS = ["rocksdb", "fjall", "mem"]


def known_status():
    """id -> status; the committed file overrides the local list."""
    st = {k: "known" for k in LOCAL_KNOWN}
    for k in vp.load_known():
        if k.get("property") == PID:
            st[k["id"]] = k.get("status", "known")
    return st


_bd = None


def build():
    """Build only this check's binary (with the real backends)."""
    global _bd
    if _bd is None:
        lock = os.path.join(vp.HARNESS, "Cargo.lock")
        if not os.path.exists(lock):
            shutil.copy(vp.REPO + "/Cargo.lock", lock)
        cmd = ["cargo", "build", "--offline", "--bin", "kv_replay", "--features", "backends"]
        t0 = time.time()
        p = vp.run(cmd, cwd=vp.HARNESS, timeout=3600, check=False)
        if p.returncode != 0 and "yanked" in (p.stdout or ""):
            shutil.copy(vp.REPO + "/Cargo.lock", lock)
            p = vp.run(cmd, cwd=vp.HARNESS, timeout=3600, check=False)
        if p.returncode != 0:
            raise vp.ToolError("harness build failed:\n" + (p.stdout or "")[-6000:])
        vp.log(f"[build] kv_replay (features=backends) {time.time() - t0:.1f}s")
        _bd = vp.bindir()
    return _bd


def kv_replay(bd, *args, timeout=3000):
    p = vp.run_subject([os.path.join(bd, "kv_replay")] + [str(a) for a in args], timeout=timeout)
    return p.stdout or ""


# --------------------------------------------------------------------------
# TLC: exhaustive reference check, as-is switches, behaviour generator
# --------------------------------------------------------------------------

def model_check(coverage=False):
    """Exhaustive runs of the reference with the contract switches."""
    out = {"states": 0, "transitions": 0, "configs": {}, "coverage": {}}
    for cfg in ("KvStoreMC.cfg", "KvStoreMCWide.cfg", "KvStoreMCSets.cfg"):
        r = vp.tlc("KvStore", cfg=cfg, workers=4, timeout=600, coverage=coverage and cfg == "KvStoreMC.cfg")
        if not r["ok"]:
            # a counterexample in the model alone is a defect of the model,
            # never a verdict about the code
            raise vp.ToolError(f"reference spec KvStore/{cfg} does not satisfy its invariants:\n{r['out'][-3000:]}")
        out["states"] += r["distinct"]
        out["transitions"] += r["generated"]
        out["configs"][cfg] = {"distinct": r["distinct"], "generated": r["generated"], "depth": r["depth"],
                               "wall_s": round(r["wall_s"], 1)}
        if coverage and cfg == "KvStoreMC.cfg":
            out["coverage"] = {k: list(v) for k, v in vp.tlc_coverage(r["out"]).items()}
    return out


def asis_switches():
    """The as-is switches must reproduce the defect classes in the model."""
    res = {}
    for cfg, expect in (("KvStoreAsIsNonAtomic.cfg", True), ("KvStoreAsIsAlias.cfg", True),
                        ("KvStoreAsIsLazyScan.cfg", False)):
        r = vp.tlc("KvStore", cfg=cfg, workers=4, timeout=600, check_ok=False)
        violated = "ReadsLastCommitted" in r["invariant_violated"]
        if violated != expect:
            raise vp.ToolError(f"as-is configuration {cfg}: expected violated={expect}, TLC says {r['invariant_violated']}\n"
                               f"{r['out'][-2000:]}")
        res[cfg] = {"ReadsLastCommitted_violated": violated, "distinct": r["distinct"]}
    return res


def generate(wd, name, seed, nk, nv, ne, steps, num):
    """Seeded random walks of KvStoreGen; returns (cases path, n, states)."""
    r = vp.tlc("KvStoreGen", cfg="KvStoreGen.cfg",
               env={"NK": str(nk), "NV": str(nv), "NE": str(ne), "STEPS": str(steps)},
               workers=1, timeout=1500, check_ok=False,
               extra=["-simulate", f"num={num}", "-depth", str(2 * steps + 4), "-seed", str(seed)])
    path = os.path.join(wd, f"cases_{name}.ndjson")
    n = 0
    with open(path, "w") as f:
        for line in r["out"].splitlines():
            if line.startswith('"{'):
                f.write(json.loads(line) + "\n")
                n += 1
    if n == 0:
        raise vp.ToolError("KvStoreGen produced no behaviours:\n" + r["out"][-3000:])
    m = re.search(r"The number of states generated: (\d+)", r["out"])
    return path, n, int(m.group(1)) if m else 0


# --------------------------------------------------------------------------
# classification
# --------------------------------------------------------------------------

def alias_signature(res, f):
    """KF id for an `alias` finding, or None if the signature does not hold."""
    if f.get("kind") != "alias" or res["fam"] not in RAW_FAMS or not f.get("aliases"):
        return None
    ids = set()
    for a in f["aliases"]:
        ka, kb = a["cell"]["key_bytes"], a["other"]["key_bytes"]
        da, db = a["cell"]["disc_bytes"], a["other"]["disc_bytes"]
        if a["shape"] == "suffix_concat" and a["column"].endswith("Suffixed") and ka != kb and \
                (ka.startswith(kb) or kb.startswith(ka)) and len(da) != len(db) and ka + da == kb + db:
            ids.add("KF_WIDE_CONCAT_ALIAS")
        elif a["shape"] == "fjall_empty_key" and res["backend"] == "fjall" and {ka, kb} == {"", "00"} and da == db:
            ids.add("KF_FJALL_EMPTY_KEY_ALIAS")
        else:
            return None
    return ids.pop() if len(ids) == 1 else None


def classify(results, cases_path, verdict, status, stats):
    cases = None
    for res in results:
        if res.get("summary"):
            stats["runs"] += res["runs"]
            stats["reads_compared"] += res["checks"]
            continue
        for d in res.get("drift", []):
            key = f"{res['backend']}:{d['kind']}"
            stats["model_drift"][key] = stats["model_drift"].get(key, 0) + 1
            stats["drift_samples"].setdefault(key, {"fam": res["fam"], "case": res["case"], **d})
        for f in res["findings"]:
            kid = None
            if f["kind"] == "alias":
                kid = alias_signature(res, f)
            elif f["kind"] == "hang" and res["backend"] == "fjall" and \
                    re.search(r"reopen|close", f.get("at", "")):
                kid = "KF_FJALL_CLOSE_HANG"
            if kid and status.get(kid) == "known":
                verdict.known_finding(kid, LOCAL_KNOWN.get(kid, kid))
                stats["kf_samples"].setdefault(kid, {"fam": res["fam"], "backend": res["backend"],
                                                     "case": res["case"], "finding": f})
                continue
            if cases is None:
                cases = [json.loads(l) for l in open(cases_path) if l.strip()]
            key = (res["fam"], res["backend"], f.get("read"), json.dumps(f.get("cell", f.get("set"))))
            if key in stats["viol_seen"]:
                stats["viol_dups"] += 1
                continue
            stats["viol_seen"].add(key)
            verdict.violation(
                f"{res['backend']}/{res['fam']}: {f.get('read', f['kind'])} {f.get('at')} step {f.get('step')} "
                f"expected {f.get('expected')} got {f.get('got')}",
                {"property": PID, "backend": res["backend"], "fam": res["fam"], "finding": f,
                 "case": cases[res["case"]]})


def _kv_replay_shard(bd, wd, args, timeout=3000):
    """kv_replay with core dumps enabled (cwd = work dir). Returns the return code."""
    import resource
    import subprocess

    def pre():
        try:
            resource.setrlimit(resource.RLIMIT_CORE, (resource.RLIM_INFINITY, resource.RLIM_INFINITY))
        except (ValueError, OSError):
            pass
    try:
        p = subprocess.run([os.path.join(bd, "kv_replay")] + [str(a) for a in args], cwd=wd, timeout=timeout,
                           stdout=subprocess.PIPE, stderr=subprocess.STDOUT, text=True, errors="replace",
                           preexec_fn=pre)
    except subprocess.TimeoutExpired as ex:
        raise vp.ToolError(f"kv_replay timeout after {timeout}s") from ex
    return p.returncode, p.stdout or ""


def run_replays(bd, wd, tmp, plan, seed, verdict, status, stats, threads=8, shard=400):
    """All behaviours, in shards of `shard` behaviours per kv_replay process
    (families are matched to the behaviour's domain sizes by the harness).
    A shard whose process dies from a signal (seen once: SIGSEGV inside the
    native store libraries under heavy machine load, not reproducible) is
    retried once; a second death is a tool error."""
    lines, per_case = [], 0
    for name, cases_path, pc in plan:
        per_case = max(per_case, pc)
        lines += [l for l in open(cases_path) if l.strip()]
    for n, i in enumerate(range(0, len(lines), shard)):
        cases = os.path.join(wd, f"cases_shard{n}.ndjson")
        with open(cases, "w") as f:
            f.writelines(lines[i:i + shard])
        out = os.path.join(wd, f"result_shard{n}.ndjson")
        args = ["--cases", cases, "--out", out, "--fams", "all", "--per-case", per_case, "--seed", seed + n,
                "--threads", threads, "--tmp", tmp, "--watchdog", 60]
        for attempt in (1, 2):
            rc, text = _kv_replay_shard(bd, wd, args)
            if rc == 0:
                break
            stats["harness_process_deaths"].append({"shard": n, "attempt": attempt, "rc": rc, "tail": text[-500:]})
            vp.log(f"kv_replay shard {n} attempt {attempt} died rc={rc}")
            if rc > 0 or attempt == 2:
                raise vp.ToolError(f"kv_replay failed on shard {n} (rc={rc}); core file, if any, in {wd}\n{text[-3000:]}")
        results = [json.loads(l) for l in open(out) if l.strip()]
        if not any(r.get("summary") for r in results):
            raise vp.ToolError(f"kv_replay wrote no summary for {cases}")
        classify(results, cases, verdict, status, stats)


def atomic_probe(bd, tmp, verdict, status, stats, batches, fillers):
    out = kv_replay(bd, "--mode", "atomic", "--batches", batches, "--fillers", fillers, "--tmp", tmp, timeout=900)
    line = [l for l in out.splitlines() if l.startswith('{"atomic"')]
    if not line:
        raise vp.ToolError("atomic probe printed no result:\n" + out[-2000:])
    res = json.loads(line[-1])["atomic"]
    stats["atomic_probe"] = res
    for r in res:
        if "panic" in r:
            verdict.violation(f"atomic probe panicked on {r['backend']}: {r['panic']}",
                              {"property": PID, "mode": "atomic", "result": r, "batches": batches, "fillers": fillers})
        elif r["torn"] > 0:
            if r["backend"] == "fjall" and status.get("KF_FJALL_BATCH_NOT_ATOMIC") == "known":
                verdict.known_finding("KF_FJALL_BATCH_NOT_ATOMIC", LOCAL_KNOWN["KF_FJALL_BATCH_NOT_ATOMIC"])
            else:
                verdict.violation(f"{r['backend']}: reader saw a part of a batch {r['samples'][:1]}",
                                  {"property": PID, "mode": "atomic", "result": r, "batches": batches,
                                   "fillers": fillers})


def new_stats():
    return {"runs": 0, "reads_compared": 0, "model_drift": {}, "drift_samples": {}, "kf_samples": {},
            "viol_seen": set(), "viol_dups": 0, "atomic_probe": None, "harness_process_deaths": []}


# --------------------------------------------------------------------------
# entry points
# --------------------------------------------------------------------------

def run(tier, seed):
    t0 = time.time()
    quick = tier != "thorough"
    bd = build()
    wd = vp.clean_workdir(PID)
    tmp = tempfile.mkdtemp(prefix="vh-c11-run-", dir="/tmp")
    verdict = vp.Verdict(PID)
    status = known_status()
    stats = new_stats()
    try:
        # exhaustive check of the reference first (not beside the replay: CPU
        # contention is what triggers fjall's close hang)
        mc = model_check(coverage=not quick)
        asis = asis_switches()
        if quick:
            gens = [("k4", 4, 2, 3, 40, 120), ("k2", 2, 2, 2, 30, 60), ("unit", 1, 2, 3, 24, 40),
                    ("unit0", 1, 1, 1, 16, 20)]
            per_case = 4
        else:
            gens = [("k4", 4, 2, 3, 40, 1000), ("k4long", 4, 2, 3, 70, 300), ("k2", 2, 2, 2, 30, 400),
                    ("k3", 3, 2, 3, 50, 300), ("unit", 1, 2, 3, 24, 200), ("unit0", 1, 1, 1, 16, 60)]
            per_case = 0
        plan, gen_states, nbeh, sample_cases = [], 0, 0, []
        for i, (name, nk, nv, ne, steps, num) in enumerate(gens):
            path, n, st = generate(wd, name, seed * 100 + i, nk, nv, ne, steps, num)
            gen_states += st
            nbeh += n
            plan.append((name, path, per_case))
            if i < 2:
                sample_cases.append(json.loads(open(path).readline()))
        run_replays(bd, wd, tmp, plan, seed, verdict, status, stats)
        atomic_probe(bd, tmp, verdict, status, stats, 100 if quick else 600, 2000)
    finally:
        shutil.rmtree(tmp, ignore_errors=True)
    rc = verdict.finish()
    layout = [json.loads(l) for l in kv_replay(bd, "--mode", "layout").splitlines() if l.startswith("{")]
    coverage = {
        "states": mc["states"],
        "transitions": mc["transitions"],
        "traces_validated_against_impl": stats["runs"],
        "samples": [{"tlc_behaviour": {**c, "events": c["events"][:14]}} for c in sample_cases] +
                   [{"family_byte_layout": next(l for l in layout if l["fam"] == "rawvar")["cells"][8:12]}],
        "exhaustive_configs": mc["configs"],
        "action_coverage_KvStoreMC": mc["coverage"],
        "asis_switches": asis,
        "behaviours_from_tlc_simulation": nbeh,
        "generator_states": gen_states,
        "runs_behaviour_x_family_x_backend": stats["runs"],
        "reads_compared_with_tlc_expectation": stats["reads_compared"],
        "families": ALL_FAMS + ["unit", "unit0"],
        "backends": BACKENDS,
        "atomic_probe": stats["atomic_probe"],
        "model_drift": stats["model_drift"],
        "model_drift_samples": stats["drift_samples"],
        "known_finding_hits": {k: h["count"] for k, h in verdict.known_hits.items()},
        "known_finding_samples": stats["kf_samples"],
        "duplicate_violations_suppressed": stats["viol_dups"],
        "harness_process_deaths_retried": stats["harness_process_deaths"],
        "rule": "one trace = one TLC behaviour (open/fill/consume/commit/drop batches and buffers, get, scan, "
                "lazy iterator, reopen) replayed on one backend under one concrete key family in a fresh "
                "directory; every get/scan and, after every commit/drop/reopen, every cell and every set is "
                "compared with TLC's expectation",
    }
    vp.write_evidence(PID, tier, seed, "model_checking", coverage, time.time() - t0, len(verdict.violations),
                      assumptions=[
                          "sequential histories (one handle user) except for the reader-vs-committer probe",
                          "clean close (all handles dropped) before reopen; crash durability is C08",
                          "scan of an iterator drained after later commits is judged against the must/may "
                          "envelope; 'equals the content at creation' is reported as model_drift only",
                          "raw / rawvar families use a user-defined key type whose Encode is not self-delimiting "
                          "(allowed by the trait bounds; all built-in Encode impls are self-delimiting)",
                      ])
    return rc


def replay(path):
    rp = json.load(open(path))
    bd = build()
    wd = vp.workdir(PID, "replay")
    tmp = tempfile.mkdtemp(prefix="vh-c11-run-", dir="/tmp")
    verdict = vp.Verdict(PID)
    status = known_status()
    stats = new_stats()
    try:
        if rp.get("mode") == "atomic":
            atomic_probe(bd, tmp, verdict, status, stats, rp.get("batches", 100), rp.get("fillers", 2000))
            print(json.dumps(stats["atomic_probe"]))
        else:
            cases = os.path.join(wd, "case.ndjson")
            with open(cases, "w") as f:
                f.write(json.dumps(rp["case"]) + "\n")
            out = os.path.join(wd, "result.ndjson")
            kv_replay(bd, "--cases", cases, "--out", out, "--fams", rp["fam"], "--backends", rp["backend"],
                      "--tmp", tmp, "--threads", 1)
            results = [json.loads(l) for l in open(out) if l.strip()]
            for r in results:
                if not r.get("summary"):
                    print(json.dumps(r, indent=1)[:6000])
            classify(results, cases, verdict, status, stats)
    finally:
        shutil.rmtree(tmp, ignore_errors=True)
    return verdict.finish()


def _corrupt(case, how):
    """Corrupt ONE expectation of an accepted behaviour."""
    c = json.loads(json.dumps(case))
    if how == "get":
        for e in c["events"]:
            if e["a"] == "get":
                e["exp"] = 1 if e["exp"] == 0 else 0
                return c
    if how == "state_val":
        for e in reversed(c["events"]):
            if e["a"] in ("commit", "reopen", "drop") and e["state"]["wide"]:
                w = e["state"]["wide"][0]
                w["val"] = 3 - w["val"]
                return c
    if how == "state_member":
        for e in reversed(c["events"]):
            if e["a"] in ("commit", "reopen", "drop") and e["state"]["sets"]:
                s = e["state"]["sets"][0]
                s["els"] = s["els"][1:]
                return c
    if how == "final_extra":
        c["final"]["wide"] = [w for w in c["final"]["wide"] if not (w["c"] == "W2" and w["key"] == "K2" and w["vt"] == "V1")]
        c["final"]["wide"].append({"c": "W2", "key": "K2", "vt": "V1", "val": 1 if not any(
            w["c"] == "W2" and w["key"] == "K2" and w["vt"] == "V1" and w["val"] == 1 for w in case["final"]["wide"]) else 2})
        return c
    return None



def _put(c, key, vt, val):
    return {"k": "put", "c": c, "key": key, "x": vt, "val": val}


def _one_put_case(op):
    st = {"wide": [{"c": op["c"], "key": op["key"], "vt": op["x"], "val": op["val"]}], "sets": []}
    return {"nk": 4, "nv": 2, "ne": 3, "final": st,
            "events": [{"a": "batch", "h": 1}, {"a": "op", "via": "wb", "h": 1, "op": op},
                       {"a": "commit", "h": 1, "state": st}]}


# Minimal witnesses of the known findings: (id, family, behaviour, what is observed)
WITNESSES = [
    ("KF_WIDE_CONCAT_ALIAS", "rawvar", _one_put_case(_put("W2", "K1", "V2", 1)),
     "put<W2(Suffixed, Discriminant = u32), ValB (disc 129 = 81 01)>(Raw[05], ValB(vec![])); commit; "
     "get<W2, ValA (disc 1 = 01)>(Raw[05 81]) returns Some(ValA(0)) although nothing was ever written for that "
     "key and type: both cells are stored under 05 81 01 (RocksDB and Fjall)"),
    ("KF_FJALL_EMPTY_KEY_ALIAS", "raw", _one_put_case(_put("W1", "K1", "V1", 2)),
     "put<W1(Prefixed, Discriminant = u8), ValA (disc 0)>(Raw[] (empty encoding), ValA(u64::MAX)); commit; "
     "get<W1, ValA>(Raw[00]) returns Some(ValA(u64::MAX)) on Fjall: both keys are stored under 00 00"),
    ("iterator_not_pinned (model drift, same root cause as KF_FJALL_BATCH_NOT_ATOMIC)", "int",
     {"nk": 4, "nv": 2, "ne": 3,
      "events": [{"a": "iter", "h": 1, "c": "S1", "key": "K1"}, {"a": "batch", "h": 1},
                 {"a": "op", "via": "wb", "h": 1, "op": {"k": "ins", "c": "S1", "key": "K1", "x": "E1", "val": 0}},
                 {"a": "commit", "h": 1, "state": {"wide": [], "sets": [{"c": "S1", "key": "K1", "els": ["E1"]}]}},
                 {"a": "drain", "h": 1, "snap": [], "must": [], "may": ["E1"]}],
      "final": {"wide": [], "sets": [{"c": "S1", "key": "K1", "els": ["E1"]}]}},
     "it = scan_members<S1>(0); insert_member<S1>(0, 0) in a batch; commit; it.collect() yields [0] on Fjall "
     "(RocksDB and MemKv: [])"),
]


def selftest(seed):
    bd = build()
    wd = vp.workdir(PID, "selftest")
    tmp = tempfile.mkdtemp(prefix="vh-c11-run-", dir="/tmp")
    ok = True
    try:
        # (1) the spec distinguishes the as-is classes
        asis = asis_switches()
        print("as-is switches:", json.dumps(asis))
        # (2) an accepted behaviour with one corrupted expectation is rejected
        path, n, _ = generate(wd, "st", seed, 4, 2, 3, 40, 30)
        cases = [json.loads(l) for l in open(path)]
        good = os.path.join(wd, "good.ndjson")
        with open(good, "w") as f:
            for c in cases:
                f.write(json.dumps(c) + "\n")
        out = os.path.join(wd, "good.result")
        kv_replay(bd, "--cases", good, "--out", out, "--fams", "int,bytes,nested", "--tmp", tmp)
        res = [json.loads(l) for l in open(out)]
        bad = [r for r in res if not r.get("summary") and any(f["kind"] == "violation" for f in r["findings"])]
        print(f"unmodified: {len(cases)} behaviours x 3 families x 3 backends, findings: {len(bad)}")
        ok &= not bad
        for how in ("get", "state_val", "state_member", "final_extra"):
            mutated = None
            for c in cases:
                mutated = _corrupt(c, how)
                if mutated is not None:
                    break
            if mutated is None:
                print(f"corruption {how}: no applicable behaviour")
                ok = False
                continue
            p = os.path.join(wd, f"bad_{how}.ndjson")
            with open(p, "w") as f:
                f.write(json.dumps(mutated) + "\n")
            out = os.path.join(wd, f"bad_{how}.result")
            kv_replay(bd, "--cases", p, "--out", out, "--fams", "int", "--tmp", tmp)
            res = [json.loads(l) for l in open(out)]
            rejected = {r["backend"] for r in res if not r.get("summary")
                        and any(f["kind"] == "violation" for f in r["findings"])}
            print(f"corruption {how}: rejected on {sorted(rejected)}")
            ok &= rejected == set(BACKENDS)
        # (3) informational: the minimal witnesses of the known findings
        for kid, fam, case, what in WITNESSES:
            p = os.path.join(wd, "witness.ndjson")
            with open(p, "w") as f:
                f.write(json.dumps(case) + "\n")
            out = os.path.join(wd, "witness.result")
            kv_replay(bd, "--cases", p, "--out", out, "--fams", fam, "--tmp", tmp)
            seen = sorted({r["backend"] + ":" + x["kind"] for r in map(json.loads, open(out)) if not r.get("summary")
                           for x in r["findings"] + r["drift"]})
            print(f"witness {kid} [{fam}]: {seen if seen else 'not reproduced (repaired?)'}")
    finally:
        shutil.rmtree(tmp, ignore_errors=True)
    print("SELFTEST", "PASS" if ok else "FAIL")
    return 0 if ok else 1
