"""C13 - stable hashes are deterministic, history-free and discriminating.

Pipeline (see DESIGN.md section 5, C13):
  1. TLC checks specs/StableHash.tla (framing rules of stable_hash/src/lib.rs
     as a pair machine over construction histories): HistoryFree,
     Discriminating, PrefixFree; three switched-off configurations must FAIL
     (anti-vacuity).  Design-level only - never a verdict on the code.
  2. specs/StableHashGen.tla prints every bounded history (exhaustive) plus
     seeded random longer ones (-simulate -seed VERIF_SEED) with the abstract
     value TLC computed for it.
  3. harness/src/bin/hash_replay.rs performs the histories on real values in
     two independent processes and records, per storage form, the write stream
     seen by a recording StableHasher and the real 128-bit hashes (two seeds).
  4. judge() decides the property on the records:
       (a) same type, same abstract value  => same hash (both seeds), over all
           histories, forms, round trips and both processes;
       (b) same type, different abstract values => different recorded streams
           (exact, via a stream -> value table, i.e. all pairs), and different
           128-bit hashes.
     The model's token stream is compared with the recorded one as drift only.
  5. Length encoding (the clause "unambiguous byte stream" rests on it):
     specs/StableHashLenCode.tla states that the byte strings written by
     `write_length_prefix` must form a PREFIX CODE and derives unique
     decodability of composite values; the encoder is a constant operator
     (fixed width = as coded, compact with escape, ...); the broken instances
     (off-by-one escape threshold, no terminator, truncation) must FAIL with the
     colliding pair of values.  specs/StableHashLenGen.tla prints the boundary
     universe (0..300, 2^8/16/32 +-2, real values, composite values cut around
     the boundaries); hash_replay --lens records the bytes the REAL code writes
     (recording hasher, default trait method) and hashes the real values;
     specs/StableHashLenTrace.tla validates the recorded bytes (prefix code,
     distinct values => distinct streams, all pairs).  For every recorded
     encoding that is a prefix of another the harness constructs the colliding
     composite values and hashes them with the real Sip128 hasher under two
     seeds: unequal values with one stream / equal fingerprints are reported as
     `ambiguous_stream` (a VIOLATION); the prefix relation alone is the cause,
     not the verdict.
"""
import concurrent.futures
import json
import os
import random
import re
import time

import vp

PID = "C13"
LOCAL_KNOWN = []  # no defect of /repo found for this property

TYPES_QUICK_SIM = 400
TYPES_THOROUGH_SIM = 8000

IMPLS = {
    "covered": [
        "u8 i8 u16 i16 u32 i32 u64 i64 u128 i128 usize isize f32 f64 bool char str String",
        "Vec<T> [T] [T;N] VecDeque LinkedList BinaryHeap HashMap<K,V,B> HashSet<T,B> BTreeMap BTreeSet",
        "&T &mut T Box<T> Rc<T> Arc<T> Cow<T> Option<T> Result<T,E> () tuples 1..12",
        "Range RangeInclusive RangeFrom RangeTo RangeToInclusive RangeFull PhantomData Discriminant<T>",
        "NonZero{U,I}{8,16,32,64,128,size} Atomic{Bool,U8..Usize,I8..Isize} Duration",
        "PathBuf Path OsString OsStr CString CStr DashMap ReadOnlyView DashSet Compact128",
        "derive(StableHash): named/tuple/unit/generic(?Sized) structs, enums (unit/tuple/struct variants, repr(u8) with explicit discriminants), qbice_storage Interned<T>, Interned<str>",
        "StableHasher for SipHasher (write, sub_hash, finish) incl. the `dyn StableHasher` path, SeededStableHasherBuilder, Interner::hash_128",
    ],
    "not_covered": [
        "SmallVec<T>, BitVec<T,O> (cargo features smallvec/bitvec are off in the harness manifest)",
        "flexstr::FlexStr (flexstr is not a dependency of the harness; the impl is `write_str`, same rule as str)",
    ],
}


def build():
    """vp.build() builds every harness binary; if a binary of another check does not
    compile at the moment, build only ours."""
    try:
        return vp.build()
    except vp.ToolError:
        p = vp.run(["cargo", "build", "--offline", "--bin", "hash_replay"], cwd=vp.HARNESS, timeout=3600, check=False)
        if p.returncode != 0:
            raise vp.ToolError("harness build failed:\n" + (p.stdout or "")[-6000:])
        return vp.bindir()


# ------------------------------------------------------------------ TLC side

def tlc_lines(out):
    """JSON lines printed by PrintT(ToJson(..)) - a JSON string containing JSON."""
    res = []
    for l in out.splitlines():
        if l.startswith('"{'):
            try:
                res.append(json.loads(json.loads(l)))
            except ValueError:
                pass
    return res


def tok_canon(tok):
    """Model token stream -> canonical string (bytes hex; bag = sorted sub-streams;
    an empty bag is the 16 zero bytes of `0u128`)."""
    if isinstance(tok, dict) and not tok:
        tok = []
    out = []
    for t in tok:
        if isinstance(t, dict):
            subs = t.get("bag", [])
            if isinstance(subs, dict):
                subs = []
            if not subs:
                out.append("00" * 16)
            else:
                out.append("{" + "|".join(sorted(tok_canon(s) for s in subs)) + "}")
        else:
            out.append("%02x" % t)
    return "".join(out)


def rust_canon(s):
    """Recorded stream string -> same canonical form (re-sort bags by the Python rule)."""
    pos = 0

    def parse(stop):
        nonlocal pos
        parts, cur = [], []
        while pos < len(s):
            c = s[pos]
            if c == "{":
                pos += 1
                subs = parse("}")
                cur.append("{" + "|".join(sorted(subs)) + "}")
            elif c == "|" and stop == "}":
                pos += 1
                parts.append("".join(cur))
                cur = []
            elif c == "}" and stop == "}":
                pos += 1
                parts.append("".join(cur))
                return parts
            else:
                cur.append(c)
                pos += 1
        parts.append("".join(cur))
        return parts

    return parse("")[0]


def generate(tier, seed, wd):
    """Run the generator; returns (cases, stats). A case: {i, ty, hist, abs, tok}."""
    stats = {}
    cases, seen = [], set()

    def take(objs, src):
        n = 0
        for o in objs:
            k = (o["ty"], json.dumps(o["hist"], sort_keys=True))
            if k in seen:
                continue
            seen.add(k)
            n += 1
            leaf = not isinstance(o["tok"], (list, dict))
            cases.append({"i": len(cases) + 1, "ty": o["ty"], "hist": o["hist"], "src": src,
                          "abs": json.dumps(o["abs"], sort_keys=True),
                          "tok": o["tok"] if leaf else tok_canon(o["tok"]), "leaf": leaf})
        return n

    t0 = time.time()
    r = vp.tlc("StableHashGen", "StableHashGen.cfg" if tier == "quick" else "StableHashGenThorough.cfg",
               workers=4, timeout=900, metadir=os.path.join(wd, "meta-gen"))
    if not r["ok"]:
        raise vp.ToolError("StableHashGen failed:\n" + r["out"][-3000:])
    stats["gen_exhaustive"] = {"histories": take(tlc_lines(r["out"]), "exhaustive"),
                               "states": r["distinct"], "wall_s": round(time.time() - t0, 1)}
    nsim = TYPES_QUICK_SIM if tier == "quick" else TYPES_THOROUGH_SIM
    t0 = time.time()
    r = vp.tlc("StableHashGen", "StableHashGenSim.cfg", workers=1, timeout=1500,
               metadir=os.path.join(wd, "meta-sim"),
               extra=["-simulate", f"num={nsim}", "-depth", "9", "-seed", str(seed)], check_ok=False)
    if "Error:" in r["out"] or r["rc"] != 0:
        raise vp.ToolError("StableHashGen -simulate failed:\n" + r["out"][-3000:])
    stats["gen_simulate"] = {"histories": take(tlc_lines(r["out"]), "simulate"), "traces": nsim,
                             "tlc_seed": seed, "wall_s": round(time.time() - t0, 1)}
    return cases, stats


def model_check(wd, coverage=True, cfg="StableHash.cfg"):
    """Design-level result. Returns evidence dict; raises ToolError if the as-coded
    framing does not satisfy the invariants in the model (spec/bounds changed)."""
    r = vp.tlc("StableHash", cfg, workers=4, timeout=1500, coverage=coverage,
               metadir=os.path.join(wd, "meta-mc-" + cfg))
    if not r["ok"] or r["invariant_violated"]:
        raise vp.ToolError("StableHash.tla (framing as coded) does not pass in the model - "
                           "design-level counterexample, not a verdict on the code:\n" + r["out"][-3000:])
    cov = vp.tlc_coverage(r["out"]) if coverage else {}
    actions = ["Push", "Pop", "Ins", "Upd", "Rem", "Permute", "BIns", "Assign"]
    ev = {"states": r["distinct"], "transitions": r["generated"], "depth": r["depth"],
          "invariants": ["TypeOK", "HistoryFree", "Discriminating", "PrefixFree", "LenCode"],
          "actions": {a: cov.get(a, (0, 0))[1] for a in actions} if coverage else {}}
    if coverage:
        dead = [a for a in actions if ev["actions"][a] == 0]
        if dead:
            raise vp.ToolError(f"StableHash.tla: actions never taken: {dead}")
    return ev


def anti_vacuity(wd):
    """Each switched-off rule must make TLC produce a counterexample."""
    res = {}
    for cfg, inv in (("StableHashNoLen", "Discriminating"), ("StableHashNoDisc", "Discriminating"),
                     ("StableHashNoComm", "HistoryFree")):
        r = vp.tlc("StableHash", cfg + ".cfg", workers=1, timeout=600,
                   metadir=os.path.join(wd, "meta-" + cfg), check_ok=False)
        if inv not in r["invariant_violated"]:
            raise vp.ToolError(f"{cfg}: expected invariant {inv} to be violated in the model:\n" + r["out"][-2000:])
        st = re.findall(r"/\\ (r1|r2|ty) = (.*)", r["out"])
        last = {}
        for k, v in st:
            last[k] = v
        res[cfg] = {"violated": inv, "counterexample": last}
    return res


# ------------------------------------------------------ length-encoding side

LENCODE_ACTIONS = ["PushA", "PushB", "PushOuter", "PushInner"]
LENCODE_INVS = ["TypeOK", "DecoderSound", "PrefixCode", "UniquelyDecodable", "StreamPrefixFree", "Derivation"]
LENCODE_GOOD = {"quick": [("StableHashLenCode", "fixed width (as coded)"), ("StableHashLenCodeCompact", "compact, escape threshold n < Esc")],
                "thorough": [("StableHashLenCodeB4", "fixed width, 4 byte values"), ("StableHashLenCodeCompactB4", "compact, 4 byte values"),
                             ("StableHashLenCodeVarContB4", "continuation-flag varint, 4 byte values")]}
LENCODE_MUT = {"quick": [("StableHashLenCodeOffByOne", "compact, off-by-one threshold n <= Esc"),
                         ("StableHashLenCodeVarNoTerm", "variable length without terminator"),
                         ("StableHashLenCodeTruncated", "one byte, n mod B")],
               "thorough": [("StableHashLenCodeOffByOneB4", "compact off-by-one, 4 byte values")]}
LENS_TLC_MAX_STREAM = 1400   # bytes; longer recorded streams are judged by the Python side only


def lencode_design(wd, tier, coverage=True):
    """StableHashLenCode.tla: sound encoders pass PrefixCode / UniquelyDecodable /
    StreamPrefixFree / Derivation; every broken encoder must yield a colliding pair.
    Design level only."""
    good = LENCODE_GOOD["quick"] + (LENCODE_GOOD["thorough"] if tier != "quick" else [])
    mut = LENCODE_MUT["quick"] + (LENCODE_MUT["thorough"] if tier != "quick" else [])

    def one(cfg, is_good):
        # the broken instances run with one worker: a deterministic (shortest, first) counterexample
        return cfg, vp.tlc("StableHashLenCode", cfg + ".cfg", workers=(2 if tier == "quick" else 4) if is_good else 1, timeout=900,
                           coverage=is_good and coverage, metadir=os.path.join(wd, "meta-" + cfg), check_ok=False)

    with concurrent.futures.ThreadPoolExecutor(max_workers=3 if tier == "quick" else 2) as ex:
        res = dict(ex.map(lambda a: one(*a), [(c, True) for c, _ in good] + [(c, False) for c, _ in mut]))
    ev = {"instances": {}, "mutations": {}, "invariants": LENCODE_INVS}
    for cfg, what in good:
        r = res[cfg]
        if not r["ok"] or r["invariant_violated"]:
            raise vp.ToolError(f"{cfg}: sound length encoder does not pass in the model (spec/bounds changed):\n" + r["out"][-3000:])
        cov = vp.tlc_coverage(r["out"]) if coverage else {}
        dead = [a for a in LENCODE_ACTIONS if coverage and cov.get(a, (0, 0))[1] == 0]
        if dead:
            raise vp.ToolError(f"{cfg}: actions never taken: {dead}")
        ev["instances"][cfg] = {"encoder": what, "states": r["distinct"], "transitions": r["generated"], "depth": r["depth"],
                                "actions": {a: cov.get(a, (0, 0))[1] for a in LENCODE_ACTIONS} if coverage else {}}
    for cfg, what in mut:
        r = res[cfg]
        if "UniquelyDecodable" not in r["invariant_violated"]:
            raise vp.ToolError(f"{cfg}: expected UniquelyDecodable to be violated in the model:\n" + r["out"][-2000:])
        last = {}
        for k, v in re.findall(r"/\\ (shape|value|stream|decodings|n_decodings|enc_not_prefix_free) = ((?:.|\n  )*)", r["out"]):
            last[k] = re.sub(r"\s+", " ", v)
        if int(last.get("n_decodings", "0")) < 2:
            raise vp.ToolError(f"{cfg}: counterexample without a colliding pair: {last}")
        ev["mutations"][cfg] = {"encoder": what, "violated": "UniquelyDecodable", "states_until_cex": r["distinct"],
                                "shape": last.get("shape"), "colliding_values": last.get("decodings"), "one_stream": last.get("stream"),
                                "lengths_whose_encoding_is_a_prefix_of_another": last.get("enc_not_prefix_free", "")[:300]}
    return ev


def lens_generate(tier, wd):
    """Boundary universe from specs/StableHashLenGen.tla -> harness input file."""
    r = vp.tlc("StableHashLenGen", "StableHashLenGen.cfg" if tier == "quick" else "StableHashLenGenThorough.cfg",
               workers=1, timeout=600, metadir=os.path.join(wd, "meta-lensgen"))
    if not r["ok"]:
        raise vp.ToolError("StableHashLenGen failed:\n" + r["out"][-3000:])
    items, seen = [], set()
    for o in tlc_lines(r["out"]):
        if o["k"] == "len":
            o = {"k": "len", "n": str(o["d"] if o["p"] == 0 else 2 ** o["p"] + o["d"])}
        elif o["k"] == "comp" and isinstance(o["ls"], dict):
            o["ls"] = []
        k = json.dumps(o, sort_keys=True)
        if k not in seen:
            seen.add(k)
            items.append(o)
    order = {"len": 0, "val": 1, "comp": 2}
    items.sort(key=lambda o: (order[o["k"]], o.get("ty", ""), int(o.get("n", 0)), o.get("ls", [])))
    if not items:
        raise vp.ToolError("StableHashLenGen printed nothing")
    path = os.path.join(wd, "lens.in.ndjson")
    with open(path, "w") as f:
        for o in items:
            f.write(json.dumps(o) + "\n")
    return path, items, {"items": len(items), "lengths": sum(1 for o in items if o["k"] == "len"),
                         "real_values": sum(1 for o in items if o["k"] == "val"),
                         "composite_values": sum(1 for o in items if o["k"] == "comp"), "tlc_states": r["distinct"]}


def lens_harness(bindir, inp, seed, wd, tag="lens", mutant=None):
    out = os.path.join(wd, f"{tag}.rec.ndjson")
    if os.path.exists(out):
        os.remove(out)
    vp.run_subject([os.path.join(bindir, "hash_replay"), "--lens", inp, "--out", out, "--seed", str(seed)]
                   + (["--mutant", mutant] if mutant else []), timeout=1500)
    return out


def lens_trace_events(recpath):
    """Recorded lens run -> events of StableHashLenTrace.tla (streams as byte arrays)."""
    ev, skipped = [], 0
    for line in open(recpath):
        r = json.loads(line)
        if r.get("lenrec"):
            if "enc" in r:
                ev.append({"e": "len", "n": r["n"], "src": r["src"], "enc": list(bytes.fromhex(r["enc"]))})
        elif "obs" in r:
            for o in r["obs"]:
                if len(o["s"]) > 2 * LENS_TLC_MAX_STREAM or "{" in o["s"]:
                    skipped += 1
                    continue
                ev.append({"e": "val", "ty": r["ty"] + o["x"], "abs": o["abs"], "s": list(bytes.fromhex(o["s"]))})
    return ev, skipped


def lens_tlc(events, wd, tag="lens"):
    """Validate the events with TLC; returns the result object written by the trace spec."""
    trace = os.path.join(wd, f"{tag}.trace.ndjson")
    outp = os.path.join(wd, f"{tag}.trace.out.json")
    with open(trace, "w") as f:
        for e in events:
            f.write(json.dumps(e) + "\n")
    if os.path.exists(outp):
        os.remove(outp)
    r = vp.tlc("StableHashLenTrace", "StableHashLenTrace.cfg", env={"TRACE": trace, "OUT": outp}, workers=1, timeout=1200,
               metadir=os.path.join(wd, "meta-" + tag + "-trace"), xmx="6g")
    if not r["ok"] or not os.path.exists(outp):
        raise vp.ToolError("StableHashLenTrace did not consume the trace:\n" + r["out"][-3000:])
    res = json.load(open(outp))
    if res["events"] != len(events):
        raise vp.ToolError(f"StableHashLenTrace consumed {res['events']} of {len(events)} events")
    res["tlc_states"] = r["distinct"]
    res["wall_s"] = round(r["wall_s"], 1)
    return res


def py_prefix_pairs(events):
    """Independent computation of the prefix relation among recorded encodings
    (cross-check of the trace spec): set of (n_short, n_long)."""
    encs = {}
    for e in events:
        if e["e"] == "len":
            encs.setdefault(bytes(e["enc"]), set()).add(e["n"])
    keys = sorted(encs)
    out = set()
    for i, a in enumerate(keys):
        for n in encs[a]:
            out.update((n, m) for m in encs[a] if m != n)
        for b in keys[i + 1:]:
            if not b.startswith(a):
                break  # sorted: every extension of `a` follows it directly
            out.update((n, m) for n in encs[a] for m in encs[b])
    return out


def lens_check(j, items, events, skipped, tres):
    """Mechanism-level results of the lens run (never a verdict by themselves) +
    consistency of the three observers (harness, TLC trace spec, Python)."""
    asked = {o["n"] for o in items if o["k"] == "len"}
    got = {r["n"] for r in j.lenrecs if r["src"] == "call" and "enc" in r}
    unfit = {r["n"] for r in j.lenrecs if r.get("skipped")}
    if asked - got - unfit:
        raise vp.ToolError(f"lens run: lengths without a recorded encoding: {sorted(asked - got - unfit)[:10]}")
    kinds = {}
    for v in tres["viol"]:
        kinds.setdefault(v["kind"], []).append(v)
    if "malformed" in kinds:
        raise vp.ToolError(f"StableHashLenTrace: malformed events {kinds['malformed'][:3]}")
    tlc_pairs = {(events[v["short"] - 1]["n"], events[v["long"] - 1]["n"]) for v in kinds.get("not_prefix_code", [])}
    if tlc_pairs != py_prefix_pairs(events):
        raise vp.ToolError(f"trace spec and Python disagree on the prefix relation of the recorded encodings: "
                           f"{sorted(tlc_pairs ^ py_prefix_pairs(events))[:6]}")
    # ambiguous streams: TLC (on the streams it was given) must agree with the Judge
    tlc_amb = {(events[v["short"] - 1]["ty"], frozenset((events[v["short"] - 1]["abs"], events[v["long"] - 1]["abs"])))
               for v in kinds.get("ambiguous_stream", [])}
    small = {(f["a"]["group"], frozenset((f["a"]["abs"], f["b"]["abs"]))) for f in j.fails
             if f["kind"] == "ambiguous_stream" and f["a"]["proc"] == "lens" and len(f["a"]["stream"]) < 400
             and f["a"]["group"].split(":")[0] in ("len", "adv")}
    if len(j.fails) < 50 and not small <= tlc_amb:
        raise vp.ToolError(f"Judge found ambiguous streams that the trace spec did not: {sorted(map(str, small - tlc_amb))[:3]}")
    if tlc_amb and not any(f["kind"] == "ambiguous_stream" for f in j.fails):
        raise vp.ToolError(f"trace spec found ambiguous streams that the Judge did not: {sorted(map(str, tlc_amb))[:3]}")
    drift = []
    for v in kinds.get("length_not_a_function", []):
        a, b = events[v["short"] - 1], events[v["long"] - 1]
        drift.append({"kind": "length_prefix_differs_by_call_site", "n": a["n"], a["src"]: bytes(a["enc"]).hex(), b["src"]: bytes(b["enc"]).hex()})
    for r in j.lenrecs:
        if r.get("payload_ok") is False:
            drift.append({"kind": "value_stream_is_not_prefix_plus_payload", "n": r["n"], "src": r["src"]})
    prefix = [{"n": a, "m": b} for a, b in sorted(tlc_pairs, key=lambda p: (int(p[0]), int(p[1])))]
    collided = [a for a in j.advs if a.get("constructed") and a.get("collide") and a.get("unequal")]
    if prefix and not collided:
        # the recorded length code is not a prefix code, but no colliding REAL values were produced:
        # a mechanism-level fact without a property-level witness is not reported as a verdict
        raise vp.ToolError("the length encodings recorded from the code under test are NOT a prefix code "
                           f"(e.g. {prefix[:3]}), but the harness could not construct colliding values "
                           f"({[a.get('why') for a in j.advs if not a.get('constructed')][:3]}): extend hash_replay construct()")
    srcs = {}
    for r in j.lenrecs:
        if "enc" in r:
            srcs[r["src"]] = srcs.get(r["src"], 0) + 1
    widths = sorted({len(e["enc"]) for e in events if e["e"] == "len"})
    return {
        "encodings_recorded": len([e for e in events if e["e"] == "len"]),
        "distinct_lengths": len(got), "lengths_not_representable": sorted(unfit),
        "by_source": srcs, "encoding_widths_bytes": widths,
        "largest_length": str(max(int(n) for n in got)),
        "prefix_code": not prefix, "prefix_pairs": len(prefix), "prefix_pairs_first": prefix[:5],
        "trace_events": tres["events"], "trace_states": tres["tlc_states"], "trace_wall_s": tres["wall_s"],
        "encoding_pairs_compared": tres["stats"]["len_pairs"], "value_streams_validated": tres["stats"]["vals"],
        "value_pairs_compared": tres["stats"]["val_pairs"], "streams_too_long_for_tlc": skipped,
        "trace_violation_kinds": {k: len(v) for k, v in kinds.items()},
        "adversarial": dict(j.advsummary or {}, collided=len(collided),
                            first=[{k: a[k] for k in ("n", "m", "ty", "values")} for a in collided[:2]]),
        "drift": drift[:5], "drift_count": len(drift),
    }


def lens_pipeline(bindir, tier, seed, wd, mutant=None, tag="lens"):
    """Returns (recorded file, items, events, skipped, trace result, generator stats)."""
    inp, items, gst = lens_generate(tier, wd)
    rec = lens_harness(bindir, inp, seed, wd, tag=tag, mutant=mutant)
    events, skipped = lens_trace_events(rec)
    tres = lens_tlc(events, wd, tag=tag)
    return rec, items, events, skipped, tres, gst


# ---------------------------------------------------------------- replay side

def run_harness(bindir, cases, seed, nrand, wd, tag="run", mutant=None):
    inp = os.path.join(wd, f"{tag}.in.ndjson")
    out = os.path.join(wd, f"{tag}.rec.ndjson")
    with open(inp, "w") as f:
        for c in cases:
            f.write(json.dumps({"i": c["i"], "ty": c["ty"], "hist": c["hist"]}) + "\n")
    for p in (out, out + ".child"):
        if os.path.exists(p):
            os.remove(p)
    vp.run_subject([os.path.join(bindir, "hash_replay"), "--in", inp, "--out", out, "--seed", str(seed),
            "--rand", str(nrand)] + (["--mutant", mutant] if mutant else []), timeout=1500)
    return out, out + ".child"


class Judge:
    """Property-level verdicts over the records of both processes."""

    def __init__(self, cases):
        self.case = {c["i"]: c for c in cases}
        self.by_abs = {}     # (group, abs) -> (s, h0, h1, witness)
        self.by_stream = {}  # (group, s) -> (abs, witness)
        self.by_hash = {}    # (group, seedno, h) -> (abs, s, witness)
        self.hists = {}      # (group, abs) -> set of history ids
        self.orders = {}     # (group, abs) -> set of iteration-order signatures
        self.fails = []
        self.drift = []
        self.obs = 0
        self.evals = 0
        self.forms = set()
        self.groups = set()
        self.summaries = []
        self.errors = []
        self.cross_type = {"equal": 0, "different": 0}
        self.lenrecs = []      # recorded length encodings (hash_replay --lens)
        self.advs = []         # adversarial constructions
        self.advsummary = None
        self.lens_summary = None

    def fail(self, kind, what, a, b):
        if len(self.fails) < 50:
            self.fails.append({"kind": kind, "what": what, "a": a, "b": b})

    def feed(self, path, proc):
        nrand = 0
        for line in open(path):
            if not line.strip():
                continue
            r = json.loads(line)
            if r.get("summary"):
                if proc == "lens":
                    self.lens_summary = r
                else:
                    self.summaries.append(r)
                self.evals += r["evals"]
                continue
            if r.get("lenrec"):
                self.lenrecs.append(r)
                continue
            if r.get("adv"):
                self.advs.append(r)
                continue
            if r.get("advsummary"):
                self.advsummary = r
                continue
            if r.get("err"):
                self.errors.append((r["i"], r["ty"], r["err"]))
                continue
            if r["i"] >= 0:
                c = self.case[r["i"]]
                hid, mabs = ("h", r["i"]), c["abs"]
            else:
                nrand += 1
                c, mabs = None, None
            base = None
            for k, o in enumerate(r["obs"]):
                group = r["ty"] + o["x"]
                abs_ = o["abs"] if o["abs"] is not None else mabs
                if abs_ is None:
                    raise vp.ToolError(f"record without abstract value: {line[:200]}")
                if c is None:
                    hid = ("r", nrand, k)
                wit = {"proc": proc, "ty": r["ty"], "group": group, "abs": abs_, "forms": o["forms"][:4],
                       "hist": c["hist"] if c else f"{'lens' if proc == 'lens' else 'rand'}#{nrand}", "stream": o["s"][:400],
                       "h0": o["h0"], "h1": o["h1"]}
                self.obs += len(o["forms"])
                self.forms.update(o["forms"])
                self.groups.add(group)
                ka = (group, abs_)
                if c is None:  # random universe: the histories are the collapsed forms history0..3
                    self.hists.setdefault(ka, set()).update(("l" if proc == "lens" else "r", nrand, f) for f in o["forms"])
                else:
                    self.hists.setdefault(ka, set()).add(hid)
                if o["ord"]:
                    self.orders.setdefault(ka, set()).update(o["ord"])
                # (a) history-free / deterministic / process-independent
                prev = self.by_abs.get(ka)
                if prev is None:
                    self.by_abs[ka] = (o["s"], o["h0"], o["h1"], wit)
                elif (prev[1], prev[2]) != (o["h0"], o["h1"]):
                    self.fail("history_dependent_hash", "one abstract value, two different 128-bit hashes", prev[3], wit)
                elif prev[0] != o["s"]:
                    self.fail("history_dependent_stream", "one abstract value, two different write streams (same hash)", prev[3], wit)
                # (b) discriminating: exact on streams, then on hashes
                ks = (group, o["s"])
                prev = self.by_stream.get(ks)
                if prev is None:
                    self.by_stream[ks] = (abs_, wit)
                elif prev[0] != abs_:
                    self.fail("ambiguous_stream", "two different values of one type feed the same write stream", prev[1], wit)
                for n, h in ((0, o["h0"]), (1, o["h1"])):
                    kh = (group, n, h)
                    prev = self.by_hash.get(kh)
                    if prev is None:
                        self.by_hash[kh] = (abs_, o["s"], wit)
                    elif prev[0] != abs_ and prev[1] != o["s"]:
                        self.fail("hash_collision", "different streams, equal 128-bit hash", prev[2], wit)
                # model drift (never a verdict)
                if c is not None and o["x"] == "" and proc == "parent":
                    if c["leaf"]:
                        if isinstance(c["tok"], int) and c["tok"] > 0 and len(o["s"]) != 2 * c["tok"]:
                            self.drift.append({"i": r["i"], "ty": r["ty"], "model_width": c["tok"], "recorded": o["s"][:80]})
                    elif rust_canon(o["s"]) != c["tok"]:
                        self.drift.append({"i": r["i"], "ty": r["ty"], "hist": c["hist"], "model": c["tok"][:200], "recorded": o["s"][:200]})
                # information: other container types with the same framing rule
                if o["x"] == "":
                    base = o
                elif base is not None and o["abs"] is None:
                    self.cross_type["equal" if o["h0"] == base["h0"] else "different"] += 1

    def counts(self):
        classes = len(self.by_abs)
        multi = {k: v for k, v in self.hists.items() if len(v) >= 2}
        per_group = {}
        for (g, _a) in self.by_abs:
            per_group[g] = per_group.get(g, 0) + 1
        pairs = sum(n * (n - 1) // 2 for n in per_group.values())
        return {
            "classes": classes,
            "classes_with_2plus_histories": len(multi),
            "value_history_pairs": sum(len(v) for v in multi.values()),
            "groups": len(per_group),
            "unequal_pairs_compared": pairs,
            "classes_with_2plus_iteration_orders": sum(1 for v in self.orders.values() if len(v) >= 2),
        }


def judge(cases, parent, child, lens=None):
    j = Judge(cases)
    j.feed(parent, "parent")
    j.feed(child, "child")
    if lens:
        j.feed(lens, "lens")
        ls = j.lens_summary
        if not ls or j.advsummary is None:
            raise vp.ToolError("hash_replay --lens: missing summary record (crashed?)")
        if ls["panics"]:
            raise vp.ToolError(f"hash_replay --lens panicked: {ls.get('panic')}")
        if ls["recorder_mismatch"] or ls["unfolded_bags"]:
            raise vp.ToolError(f"recording hasher is not faithful to Sip128Hasher (lens run): {ls}")
    if len(j.summaries) != 2:
        raise vp.ToolError("hash_replay: missing summary record (crashed?)")
    for s in j.summaries:
        if s["recorder_mismatch"] or s["unfolded_bags"]:
            raise vp.ToolError(f"recording hasher is not faithful to Sip128Hasher: {s}")
    if j.summaries[0]["pid"] == j.summaries[1]["pid"]:
        raise vp.ToolError("second process did not run")
    if j.errors:
        raise vp.ToolError(f"hash_replay: {len(j.errors)} histories could not be replayed, first: {j.errors[0]}")
    return j


def known_signature(f, known):
    for k in known:
        sig = k.get("signature", {})
        if isinstance(sig, dict) and sig.get("kind") == f["kind"] and sig.get("group") == f["a"].get("group"):
            return k
    return None


def finish(tier, seed, t0, j, mc, av, gstats, verdict, extra=None):
    known = verdict.known + [k for k in LOCAL_KNOWN if k.get("status") == "known"]
    seen_classes = set()
    for f in j.fails:
        k = known_signature(f, known)
        if k:
            verdict.known_finding(k["id"], k["what"])
            continue
        key = (f["kind"], f["a"]["group"])
        if key in seen_classes:
            continue
        seen_classes.add(key)
        vp.log(f"[C13] {f['kind']}: {f['what']}\n   a={json.dumps(f['a'])[:600]}\n   b={json.dumps(f['b'])[:600]}")
        verdict.violation(f"{f['kind']}: {f['what']}", {
            "property": PID, "seed": seed, "mutant": os.environ.get("VERIF_C13_MUTANT") or None, "kind": f["kind"], "what": f["what"], "a": f["a"], "b": f["b"],
            "cases": [{"ty": w["ty"], "hist": w["hist"], "abs": w["abs"]} for w in (f["a"], f["b"]) if isinstance(w["hist"], list)],
            "lens": f["a"]["proc"] == "lens", "tier": tier,
        })
    cnt = j.counts()
    samples = []
    rnd = random.Random(seed)
    multi = [k for k, v in j.hists.items() if len(v) >= 2 and k[0] in ("map_u8_set_u8", "set_set_u8", "pair_str_str", "heap_u8", "vec_vec_u8")]
    for k in rnd.sample(multi, min(4, len(multi))):
        hs = [h for h in j.hists[k] if h[0] == "h"][:3]
        w = j.by_abs[k]
        samples.append({"type": k[0], "abstract_value": k[1], "stream": w[0][:160], "hash_seed0": w[1],
                        "histories": [j.case[h[1]]["hist"] for h in hs], "n_histories": len(j.hists[k])})
    cov = {
        "evaluations": j.obs,
        "distinct_nontrivial": cnt["value_history_pairs"],
        "rule": "case = (type, abstract value, construction history) replayed on the real code and observed through every storage form in two processes; "
                "histories come from TLC (StableHashGen: all histories up to the bound + seeded -simulate) and from a seeded random universe with near-miss mutants; "
                "counted as non-trivial: distinct (value, history) pairs of abstract values that were reached by >= 2 distinct histories (evaluations counts form observations, hash_evaluations the individual hashings)",
        "samples": samples,
        "hash_evaluations": j.evals,
        "abstract_values": cnt["classes"],
        "abstract_values_with_2plus_histories": cnt["classes_with_2plus_histories"],
        "abstract_values_with_2plus_iteration_orders_observed": cnt["classes_with_2plus_iteration_orders"],
        "type_groups": cnt["groups"],
        "unequal_value_pairs_discriminated": cnt["unequal_pairs_compared"],
        "processes": 2,
        "hasher_seeds": [0, j.summaries[0]["seed1"]],
        "storage_forms": sorted(j.forms),
        "impls": IMPLS,
        "generator": gstats,
        "model": mc,
        "anti_vacuity": av,
        "model_drift": len(j.drift),
        "model_drift_first": j.drift[:2],
        "same_rule_other_container_equal_hash": j.cross_type,
        "float_equality": "floats are identified by their bits (so -0.0 and 0.0 are different values and hash differently); all NaN bit patterns are one value (write_f32/write_f64 normalise NaN, documented)",
        "known_findings": sorted(verdict.known_hits),
        "failures": [{"kind": f["kind"], "a": f["a"], "b": f["b"]} for f in j.fails[:5]],
    }
    if extra:
        cov.update(extra)
    rc = verdict.finish()
    vp.write_evidence(PID, tier, seed, "exploration", cov, time.time() - t0, len(verdict.violations), assumptions=[
        "SipHash-128 itself (siphasher crate) is trusted as a hash function; byte streams are compared exactly, hashes only as a consequence",
        "usize/isize/Discriminant widths and endianness are those of this target (x86_64 little endian); cross-platform stability is not examined",
        "the recording hasher is checked on every evaluation to yield the same 128-bit value as a plain Sip128Hasher",
        "TLC results are design-level statements about the framing rules within the bounds (MaxLen 2, two element values); the code is judged only by replay",
        "length encoding: the prefix-code requirement is validated on the recorded encodings of the generated boundary set (dense 0..300, 2^p +- 2), "
        "not on all 2^64 lengths; lengths that cannot be materialised as values (>= 2^18) enter only as bare write_length_prefix calls",
    ])
    vp.log(f"[C13] obs={j.obs} classes={cnt['classes']} pairs={cnt['unequal_pairs_compared']} drift={len(j.drift)} fails={len(j.fails)} rc={rc}")
    return rc


def run(tier, seed):
    t0 = time.time()
    wd = vp.clean_workdir(PID)
    bindir = build()
    mc = model_check(wd)
    if tier != "quick":  # three element values: ~1M states, ~36M transitions, ~1 min
        mc["thorough"] = model_check(wd, coverage=False, cfg="StableHashThorough.cfg")
    av = anti_vacuity(wd)
    # VERIF_C13_MUTANT=nolen|order|lenoffbyone swaps in a deliberately wrong StableHash impl / hasher
    # that lives in the harness (never set in normal use): demonstrates the exit-1 / replay path.
    mutant = os.environ.get("VERIF_C13_MUTANT") or None
    # length encoding: design instances in the background, binding on the real code meanwhile
    with concurrent.futures.ThreadPoolExecutor(max_workers=1) as ex:
        design = ex.submit(lencode_design, wd, tier)
        lens_rec, items, events, skipped, tres, lgst = lens_pipeline(bindir, tier, seed, wd, mutant=mutant if mutant == "lenoffbyone" else None)
        lc = design.result()
    cases, gstats = generate(tier, seed, wd)
    nrand = 60 if tier == "quick" else 3000
    parent, child = run_harness(bindir, cases, seed, nrand, wd, mutant=mutant)
    j = judge(cases, parent, child, lens=lens_rec)
    lc["generator"] = lgst
    lc["binding"] = lens_check(j, items, events, skipped, tres)
    extra = {"length_code": lc}
    if mutant:
        extra["mutant"] = mutant
    return finish(tier, seed, t0, j, mc, av, gstats, vp.Verdict(PID), extra=extra)


def replay(path):
    """Re-run the two histories of a replay file on the current tree."""
    rp = json.load(open(path))
    wd = vp.workdir(PID, "replay")
    bindir = build()
    cases = []
    for c in rp.get("cases", []):
        cases.append({"i": len(cases) + 1, "ty": c["ty"], "hist": c["hist"], "abs": c["abs"], "tok": "", "leaf": True, "src": "replay"})
    if rp.get("lens"):
        # witness from the length-encoding binding: record the encodings of the current tree again,
        # rebuild the colliding values from them and hash them for real
        m = rp.get("mutant") if rp.get("mutant") == "lenoffbyone" else None
        rec, items, events, skipped, tres, _ = lens_pipeline(bindir, rp.get("tier", "quick"), rp.get("seed", 1), wd, mutant=m, tag="replay-lens")
        j = Judge([])
        j.feed(rec, "lens")
        kinds = sorted({v["kind"] for v in tres["viol"]})
        print(f"recorded encodings: {len(j.lenrecs)}, trace spec reports {kinds or 'nothing'}; adversarial constructions: {j.advsummary}")
        hits = [f for f in j.fails if f["kind"] == rp["kind"]]
        for f in hits[:3]:
            print(f"REPRODUCED {f['kind']}: {f['what']}")
            print("  a:", json.dumps(f["a"])[:800])
            print("  b:", json.dumps(f["b"])[:800])
        if hits:
            print(f"VIOLATION property={PID} replay={path}")
            return 1
        print("not reproduced on the current tree")
        return 0
    if not cases:
        print("replay file has no TLC histories (random-universe witness): re-run the check with VERIF_SEED=%s" % rp.get("seed"))
        return 2
    parent, child = run_harness(bindir, cases, rp.get("seed", 1), 0, wd, tag="replay", mutant=rp.get("mutant"))
    j = judge(cases, parent, child)
    for f in j.fails:
        print(f"REPRODUCED {f['kind']}: {f['what']}")
        print("  a:", json.dumps(f["a"])[:800])
        print("  b:", json.dumps(f["b"])[:800])
    if j.fails:
        print(f"VIOLATION property={PID} replay={path}")
        return 1
    print("not reproduced on the current tree")
    return 0


def selftest(seed):
    """The binding must reject: (1) a corrupted recorded hash, (2) a recorded stream
    made equal to another value's, (3) a deliberately wrong expectation (two
    different TLC values declared equal), (4) model mutations (switched-off rules),
    (5) drift stays drift, (6) wrong StableHash impls (harness-local mutants: no length
    prefix / iteration-order dependent) hashed with the real hasher, (7) broken length
    encoders in the model, (8-10) an accepted lens trace, then one recorded encoding made a
    prefix of another / one stream replaced, (11) a hasher with the off-by-one compact length
    prefix on real values: colliding values constructed and hashed."""
    wd = vp.clean_workdir(PID + "-selftest")
    bindir = build()
    ok = True
    av = anti_vacuity(wd)
    print("selftest 4: model mutations rejected by TLC:", {k: v["violated"] for k, v in av.items()})
    r = vp.tlc("StableHashGen", "StableHashGen.cfg", workers=4, timeout=900, metadir=os.path.join(wd, "meta-gen"))
    objs = [o for o in tlc_lines(r["out"]) if o["ty"] in ("set_set_u8", "pair_str_str", "map_u8_u8", "set_u8")]
    cases = [{"i": n + 1, "ty": o["ty"], "hist": o["hist"], "abs": json.dumps(o["abs"], sort_keys=True),
              "tok": tok_canon(o["tok"]), "leaf": False, "src": "exhaustive"} for n, o in enumerate(objs)]
    parent, child = run_harness(bindir, cases, seed, 2, wd, tag="self")
    j = judge(cases, parent, child)
    print(f"selftest 0: accepted run: {j.obs} observations, {len(j.fails)} failures, drift {len(j.drift)}")
    ok &= not j.fails and not j.drift

    rnd = random.Random(seed)
    lines = open(child).read().splitlines()
    cand = [n for n, l in enumerate(lines) if '"ty":"set_set_u8"' in l and '"i":-1' not in l]

    def mutated(fn, tag):
        n = rnd.choice(cand)
        rec = json.loads(lines[n])
        fn(rec)
        p = os.path.join(wd, f"self.{tag}.child")
        with open(p, "w") as f:
            f.write("\n".join(lines[:n] + [json.dumps(rec)] + lines[n + 1:]) + "\n")
        return p, rec

    def flip_hash(rec):
        h = rec["obs"][0]["h0"]
        rec["obs"][0]["h0"] = ("0" if h[0] != "0" else "1") + h[1:]

    p, rec = mutated(flip_hash, "hash")
    j1 = judge(cases, parent, p)
    kinds = {f["kind"] for f in j1.fails}
    print(f"selftest 1: corrupted h0 of history i={rec['i']} in the child record -> {sorted(kinds)}")
    ok &= "history_dependent_hash" in kinds

    other = next(json.loads(l) for l in lines if '"ty":"set_set_u8"' in l
                 and j.case[json.loads(l)["i"]]["abs"] != j.case[rec["i"]]["abs"])

    def steal_stream(rec):
        rec["obs"][0]["s"] = other["obs"][0]["s"]

    cand = [n for n in cand if json.loads(lines[n])["i"] == rec["i"]]
    p, rec2 = mutated(steal_stream, "stream")
    j2 = judge(cases, parent, p)
    kinds = {f["kind"] for f in j2.fails}
    print(f"selftest 2: stream of i={rec2['i']} replaced by the stream of another value -> {sorted(kinds)}")
    ok &= "ambiguous_stream" in kinds

    a = cases[0]
    b = next(c for c in cases if c["ty"] == a["ty"] and c["abs"] != a["abs"])
    wrong = [dict(c) for c in cases]
    wrong[b["i"] - 1]["abs"] = a["abs"]
    j3 = judge(wrong, parent, child)
    kinds = {f["kind"] for f in j3.fails}
    print(f"selftest 3: expectation 'history {b['hist']} builds value {a['abs']}' (wrong) -> {sorted(kinds)}")
    ok &= "history_dependent_hash" in kinds
    drift_case = [dict(c) for c in cases]
    drift_case[0]["tok"] = drift_case[0]["tok"] + "00"
    j4 = judge(drift_case, parent, child)
    print(f"selftest 5: model stream of case 1 altered -> drift {len(j4.drift)}, failures {len(j4.fails)} (drift is never a verdict)")
    ok &= len(j4.drift) >= 1 and not j4.fails
    # deliberately wrong StableHash impls hashed by the real SipHasher (in the harness, not in /repo)
    for mutant, ty, want in (("nolen", "pair_str_str", "ambiguous_stream"), ("order", "set_u8", "history_dependent_hash")):
        pm, cm = run_harness(bindir, cases, seed, 0, wd, tag="self-" + mutant, mutant=mutant)
        jm = judge(cases, pm, cm)
        hit = [f for f in jm.fails if f["kind"] == want and f["a"]["ty"] == ty]
        print(f"selftest 6: mutant impl '{mutant}' on {ty} -> {sorted({f['kind'] for f in jm.fails})}"
              + (f"; e.g. {hit[0]['a']['abs']} vs {hit[0]['b']['abs']} stream {hit[0]['b']['stream']}" if hit else ""))
        ok &= bool(hit) and all(f["a"]["ty"].startswith(ty[:4]) for f in jm.fails)
    # ---- length encoding
    lc = lencode_design(wd, "quick", coverage=False)
    for cfg, m in lc["mutations"].items():
        print(f"selftest 7: {cfg} ({m['encoder']}) rejected by TLC: {m['violated']}; {m['shape']} values {m['colliding_values']} share the stream {m['one_stream']}")
    ok &= len(lc["mutations"]) == 3
    rec, items, events, skipped, tres, _ = lens_pipeline(bindir, "quick", seed, wd, tag="self-lens")
    jl = judge(cases, parent, child, lens=rec)
    b = lens_check(jl, items, events, skipped, tres)
    print(f"selftest 8: accepted lens trace: {b['encodings_recorded']} encodings ({b['by_source']}), {b['encoding_pairs_compared']} pairs, "
          f"{b['value_streams_validated']} value streams / {b['value_pairs_compared']} pairs, violations {b['trace_violation_kinds']}, prefix code {b['prefix_code']}")
    ok &= b["prefix_code"] and not tres["viol"] and not jl.fails
    # corrupt ONE recorded encoding so that it becomes a proper prefix of another one
    calls = [k for k, e in enumerate(events) if e["e"] == "len" and e["src"] == "call"]
    k1, k2 = rnd.sample(calls, 2)
    cut = rnd.randrange(1, len(events[k2]["enc"]))
    bad = [dict(e) for e in events]
    bad[k1]["enc"] = events[k2]["enc"][:cut]
    tb = lens_tlc(bad, wd, tag="self-lens-corrupt")
    hit = [v for v in tb["viol"] if v["kind"] == "not_prefix_code" and v["short"] == k1 + 1 and v["long"] == k2 + 1]
    print(f"selftest 9: encoding of n={events[k1]['n']} replaced by the first {cut} byte(s) of the encoding of n={events[k2]['n']} "
          f"-> trace spec: { {kk: sum(1 for v in tb['viol'] if v['kind'] == kk) for kk in sorted({v['kind'] for v in tb['viol']})} }"
          + (f", reports (short=event {k1 + 1}, long=event {k2 + 1})" if hit else ", the corrupted pair is NOT reported"))
    ok &= bool(hit)
    # a stream of a composite value replaced by the stream of another value of its type
    vals = [k for k, e in enumerate(events) if e["e"] == "val" and e["ty"] == "len:pair_vec_u8"]
    k1, k2 = rnd.sample(vals, 2)
    bad = [dict(e) for e in events]
    bad[k1]["s"] = events[k2]["s"]
    tb = lens_tlc(bad, wd, tag="self-lens-corrupt2")
    hit = [v for v in tb["viol"] if v["kind"] == "ambiguous_stream" and {v["short"], v["long"]} == {k1 + 1, k2 + 1}]
    print(f"selftest 10: stream of composite value event {k1 + 1} replaced by the one of event {k2 + 1} -> {sorted({v['kind'] for v in tb['viol']})}")
    ok &= bool(hit)
    # the whole path on real hashing: harness-local hasher whose length prefix is the off-by-one compact code
    rec, items, events, skipped, tres, _ = lens_pipeline(bindir, "quick", seed, wd, mutant="lenoffbyone", tag="self-lens-mutant")
    jm = judge(cases, parent, child, lens=rec)
    bm = lens_check(jm, items, events, skipped, tres)
    amb = [f for f in jm.fails if f["kind"] == "ambiguous_stream" and f["a"]["group"].startswith("adv:")]
    print(f"selftest 11: hasher mutant 'lenoffbyone': prefix code {bm['prefix_code']} ({bm['prefix_pairs']} pairs, first {bm['prefix_pairs_first'][:2]}), "
          f"constructed {bm['adversarial']['constructed']}, colliding {bm['adversarial']['collided']}; Judge: {sorted({f['kind'] + '@' + f['a']['group'] for f in jm.fails})}")
    if amb:
        print(f"   e.g. {amb[0]['a']['group']}: lengths {amb[0]['a']['abs'].split('|')[0]} vs {amb[0]['b']['abs'].split('|')[0]}, one stream, h0 {amb[0]['a']['h0']} = {amb[0]['b']['h0']}")
    ok &= bool(amb) and not bm["prefix_code"] and all(f["a"]["group"].startswith("adv:") for f in jm.fails)
    print("SELFTEST", "OK" if ok else "FAILED")
    return 0 if ok else 2
