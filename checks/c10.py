"""C10 - write-behind applies every batch exactly once, in order, by shutdown.

Pipeline (see DESIGN.md 5/C10):
  1. TLC checks the M-layer spec specs/WriteBehind.tla exhaustively
     (CommitOrder, ExactlyOnce, GroupIsContiguous, DbIsFoldOfPrefix,
     FinalContent, DropDrains, ...), its two defect switches (the invariants
     are not vacuous) and liveness under weak fairness.
  2. S->I: behaviours of specs/WriteBehindGen.tla (= WriteBehind + history
     variables) are replayed with real threads on the real WriteBehind<MemKv>
     (harness/src/bin/wb_replay.rs); the store's commit log / content at the
     instant Drop returns must equal TLC's `log` / `db`.
  3. I->S: free-running random runs (1..8 submitters x 1..8 serializers, all
     grouping modes, gate closed/opened at random moments).
  Every run of 2 and 3 is recorded as an ndjson trace and validated by TLC
  against the P-layer trace spec specs/WriteBehindTrace.tla - that is the
  verdict.
  4. The documented stall (a created batch that is never submitted) is
     executed in sub-processes: the model predicts that Drop aborts the
     process when a later batch was submitted; what the code really does is
     recorded and, if it is the predicted abort, reported as a known finding.
"""
import concurrent.futures as cf
import itertools
import json
import os
import random
import re
import time

import vp

PID = "C10"

INVARIANTS = ["TypeOK", "NoLossNoDup", "CommitOrder", "ExactlyOnce", "GroupIsContiguous",
              "DbIsFoldOfPrefix", "FinalContent", "DropDrains", "DropDrainsStrict", "NotifyAfterDurable",
              "StallOnlyBehindGap", "HeldBackBehindGap", "NoCrashWithoutGap"]

ACTIONS = ["Create", "Fill", "Pass", "Submit", "SerTake", "SerSend", "SerExit", "CRecv", "CClosed",
           "CTake", "CNoTake", "CFlushBegin", "CCommit", "CPost", "CPostDone", "CAssert",
           "ARecv", "AExit", "DropBegin", "DropClose", "DropJoinSer", "DropJoinCommit",
           "DropJoinAc", "GateAllow"]

# until merged into /verif/known_findings.json
LOCAL_KNOWN = [{
    "property": "C10", "id": "KF_WB_GAP_ABORT", "status": "known",
    "what": "a write batch that is created but never submitted (e.g. its task was cancelled) "
            "holds back every later batch for ever, and Drop for WriteBehind then aborts the "
            "whole process: commit_worker fails `assert!(holdback_queues.is_empty())` and the "
            "unwinding drops the held-back WriteBatches while still `active`, which panics "
            "inside a destructor (SIGABRT); submitted batches above the gap are never durable",
    "witness": {"ops": ["b0 = new_write_batch()", "b1 = new_write_batch()", "fill b1",
                        "submit_write_batch(b1)", "drop(write_manager)  (b0 still held)"],
                "observed": "process aborted (SIGABRT) inside drop; b1 not in the store"},
    "signature": "process dies inside Drop with the first panic at write_behind.rs "
                 "`holdback_queues.is_empty()` AND specs/WriteBehindTrace.tla finds a created, "
                 "never submitted batch before every non-durable submitted batch (held_back > 0, "
                 "no drop_aborted_without_gap); specs/WriteBehind.tla predicts it (`crashed`, "
                 "invariant StallOnlyBehindGap)",
}]

ABORT_SIG = "holdback_queues.is_empty()"

# P-layer violation kinds of WriteBehindTrace.tla (everything else that is not harness_*)
P_KINDS = {"commit_order", "duplicate_commit", "commit_of_unsubmitted_batch",
           "commit_of_unknown_batch", "group_marker", "batch_content", "empty_physical_commit",
           "not_durable_at_drop_return", "final_content", "drop_returned_early", "drop_hang",
           "drop_panicked", "drop_aborted_without_gap"}


_meta_n = itertools.count()


def tlc(module, **kw):
    """vp.tlc with a metadir that is unique among the concurrent runs of this check."""
    kw["metadir"] = os.path.join(vp.WORK, "tlcmeta", f"C10-{os.getpid()}-{next(_meta_n)}")
    return vp.tlc(module, **kw)


def known_ids():
    ks = {k["id"]: k for k in LOCAL_KNOWN}
    for k in vp.load_known():
        if k["property"] == PID:
            ks[k["id"]] = k
    return {i: k["what"] for i, k in ks.items() if k.get("status") == "known"}


def wb(bd, timeout=1800, check=True, **kw):
    cmd = [os.path.join(bd, "wb_replay")]
    for k, v in kw.items():
        cmd += [f"--{k}", str(v)]
    return vp.run(cmd, timeout=timeout, check=check)


def validate(trace, timeout=1500):
    out = trace + ".result.json"
    if os.path.exists(out):
        os.remove(out)
    r = tlc("WriteBehindTrace", cfg="WriteBehindTrace.cfg", env={"TRACE": trace, "OUT": out},
               workers=1, timeout=timeout, xmx="3g")
    if "TRACE NOT CONSUMED" in r["out"] or not os.path.exists(out):
        raise vp.ToolError(f"trace validation failed for {trace}:\n{r['out'][-3000:]}")
    return json.load(open(out)), r


def split_runs(events):
    runs, cur = [], []
    for e in events:
        if e["e"] == "run" and cur:
            runs.append(cur)
            cur = []
        cur.append(e)
    if cur:
        runs.append(cur)
    return runs


def parse_cases(out):
    return [json.loads(json.loads(l)) for l in out.splitlines() if l.startswith('"{')]


def gen_sim(cfg, seed, num, depth=250, timeout=900):
    r = tlc("WriteBehindGen", cfg=cfg, workers=1, timeout=timeout, check_ok=False,
               extra=["-simulate", f"num={num}", "-depth", str(depth), "-seed", str(seed)])
    if "is violated" in r["out"] or "Error:" in r["out"]:
        raise vp.ToolError(f"generator {cfg} failed:\n{r['out'][-3000:]}")
    m = re.search(r"The number of states generated: (\d+)", r["out"])
    return parse_cases(r["out"]), int(m.group(1)) if m else 0


def model_check(cfg, workers, timeout, coverage=False, expect_violation=None, module="WriteBehind"):
    r = tlc(module, cfg=cfg, workers=workers, timeout=timeout, coverage=coverage, xmx="6g")
    if expect_violation:
        if expect_violation not in r["invariant_violated"]:
            raise vp.ToolError(f"{cfg}: expected TLC to violate {expect_violation} (defect switch "
                               f"on), got {r['invariant_violated']}\n{r['out'][-2000:]}")
    elif not r["ok"]:
        raise vp.ToolError(f"TLC found an error in the model alone ({cfg}); not a verdict about "
                           f"the code:\n{r['out'][-4000:]}")
    return r


def linger_check():
    """Expected counterexample: without shutdown `eventually durable` does not hold."""
    r = tlc("WriteBehind", cfg="WriteBehindLinger.cfg", workers=1, timeout=300, check_ok=False)
    if "Temporal property EventuallyDurable was violated" not in r["out"]:
        raise vp.ToolError("WriteBehindLinger.cfg: expected the lingering counterexample:\n" + r["out"][-2000:])
    return r


# hand-written gap scenarios (the stall C05 cares about), replayed like TLC cases
def gap_cases():
    C = lambda t, b: {"a": "create", "t": t, "b": b}
    F = lambda t, b, k, o: {"a": "fill", "t": t, "b": b, "k": k, "o": o}
    S = lambda t, b: {"a": "submit", "t": t, "b": b}
    base = {"threads": 2, "sers": 2, "gated": False}
    return [
        # A: b1 never submitted, b2 submitted later: predicted abort in Drop
        dict(base, origin="gapA-held-then-later-submitted", predict_abort=True, actions=[
            C(1, 0), F(1, 0, 1, "put"), S(1, 0), C(1, 1), C(2, 2), F(2, 2, 1, "put"), S(2, 2),
            {"a": "sleep", "ms": 30}, {"a": "snapshot"}, {"a": "drop"}]),
        # B: the unsubmitted batch is dropped (panics by design), later one submitted
        dict(base, origin="gapB-discarded-then-later-submitted", predict_abort=True, actions=[
            C(1, 0), {"a": "discard", "t": 1, "b": 0}, C(2, 1), F(2, 1, 2, "put"), S(2, 1),
            {"a": "sleep", "ms": 30}, {"a": "snapshot"}, {"a": "drop"}]),
        # C: unsubmitted batch is the last one: Drop returns normally
        dict(base, origin="gapC-last-batch-unsubmitted", predict_abort=False, actions=[
            C(1, 0), F(1, 0, 1, "put"), S(1, 0), C(1, 1), {"a": "drop"}]),
        # D: the gap closes late: nothing durable meanwhile, everything in order afterwards
        dict(base, origin="gapD-late-submit", predict_abort=False, actions=[
            C(1, 0), C(2, 1), F(2, 1, 1, "put"), S(2, 1), C(2, 2), F(2, 2, 1, "del"), S(2, 2),
            {"a": "sleep", "ms": 30}, {"a": "snapshot"}, F(1, 0, 1, "put"), S(1, 0),
            {"a": "drop"}]),
        # E: no gap, but the store wants 2 logical batches per physical batch: the single
        # submitted batch lingers (not durable) until Drop (TLC: WriteBehindLinger.cfg)
        dict(base, origin="linger-until-drop", predict_abort=False, limits=[2, 2], maxgroup=2, actions=[
            C(1, 0), F(1, 0, 1, "put"), S(1, 0), {"a": "sleep", "ms": 30}, {"a": "snapshot"},
            {"a": "drop"}]),
    ]


def recover_abort(tr, stdout=""):
    """The harness process died: append the run it was executing, reconstructed from the
    record its panic hook wrote (events so far + the store's commit log at the first panic
    of a pipeline thread), closed by an `aborted` event. Returns the panic records."""
    panics = vp.read_ndjson(tr + ".panic") if os.path.exists(tr + ".panic") else []
    # panics caught by the harness itself (`discard`) come earlier and are not fatal
    full = [x for x in panics if "events" in x and "commits" in x]
    first = next((x for x in full if x["thread"].startswith("bg_writer")), full[-1] if full else None)
    if first is None:
        raise vp.ToolError(f"harness process died without a panic record ({tr}):\n{stdout[-2000:]}")
    ev = [first["header"]] + first["events"] + [{"e": "aborted"}] + first["commits"] \
        + [first["final"], {"e": "end"}]
    done = []
    if os.path.exists(tr):
        # completed runs were flushed; drop a partially written last line
        for line in open(tr, errors="replace"):
            try:
                done.append(json.loads(line))
            except ValueError:
                break
        while done and done[-1].get("e") != "end":
            done.pop()
    with open(tr, "w") as f:
        for e in done + ev:
            f.write(json.dumps(e) + "\n")
    return panics, first


def run_isolated(bd, wd, name, case):
    """One case in its own process (it may abort). Returns dict with the trace path
    (reconstructed from the panic record when the process died) and what happened."""
    cin = os.path.join(wd, f"{name}.case")
    tr = os.path.join(wd, f"{name}.trace")
    rs = os.path.join(wd, f"{name}.res")
    with open(cin, "w") as f:
        f.write(json.dumps(case) + "\n")
    p = wb(bd, check=False, timeout=300, mode="replay", out=tr, res=rs, **{"in": cin})
    panics = vp.read_ndjson(tr + ".panic") if os.path.exists(tr + ".panic") else []
    info = {"name": name, "rc": p.returncode, "panics": [(x["thread"], x["msg"]) for x in panics],
            "aborted": p.returncode != 0, "trace": tr, "case": case}
    if p.returncode != 0:
        _, first = recover_abort(tr, p.stdout or "")
        info["abort_sig"] = ABORT_SIG in first["msg"] and first["thread"] == "bg_writer_commit"
    else:
        info["res"] = vp.read_ndjson(rs)
    return info


def classify(trace_infos, verdict, summary):
    """Validate traces; P-layer violations become VIOLATIONs (with the run as replay)."""
    def one(ti):
        res, r = validate(ti["trace"])
        return ti, res, r
    with cf.ThreadPoolExecutor(max_workers=4) as ex:
        results = list(ex.map(one, trace_infos))
    for ti, res, r in results:
        summary["events"] += res["events"]
        summary["trace_states"] += r["distinct"]
        for k, v in res["stats"].items():
            summary["stats"][k] = summary["stats"].get(k, 0) + v
        if not res["viol"]:
            continue
        runs = None
        seen = set()
        p_runs = {v["run"] for v in res["viol"] if v["kind"] in P_KINDS}
        for v in res["viol"]:
            if v["kind"] not in P_KINDS:
                if v["run"] in p_runs:
                    continue  # secondary to a property failure of the same run
                raise vp.ToolError(f"harness inconsistency {v} in {ti['trace']}")
            summary["viol_by_kind"][v["kind"]] = summary["viol_by_kind"].get(v["kind"], 0) + 1
            if (v["run"], v["kind"]) in seen:
                continue
            seen.add((v["run"], v["kind"]))
            if runs is None:
                runs = {r_[0]["run"]: r_ for r_ in split_runs(vp.read_ndjson(ti["trace"]))}
            rp = {"property": PID, "violation": v, "origin": ti["origin"],
                  "events": runs.get(v["run"], [])}
            if ti.get("cases"):
                rp["case"] = ti["cases"][v["run"]]
            verdict.violation(f"{v['kind']} batch={v['b']} info={v['info']} run={v['run']} "
                              f"origin={ti['origin']}", rp)
    return results


def run(tier, seed):
    t0 = time.time()
    quick = tier != "thorough"
    bd = vp.build()
    wd = vp.clean_workdir(PID)
    verdict = vp.Verdict(PID)
    known = known_ids()
    rnd = random.Random(seed)

    # ---- 1. model checking (in the background while the code is exercised)
    pool = cf.ThreadPoolExecutor(max_workers=6)
    f_main = pool.submit(model_check, "WriteBehind.cfg", 4, 900, True)
    f_big = None if quick else pool.submit(model_check, "WriteBehindBig.cfg", 4, 1700)
    f_take = pool.submit(model_check, "WriteBehindDefectTake.cfg", 1, 300, False, "CommitOrder")
    f_join = pool.submit(model_check, "WriteBehindDefectNoJoin.cfg", 1, 300, False, "DropDrains")
    f_live = pool.submit(model_check, "WriteBehindLive.cfg", 2, 600)
    f_linger = pool.submit(linger_check)
    f_pass = pool.submit(model_check, "WriteBehindPass.cfg", 1, 300, True)
    f_rep = pool.submit(model_check, "WriteBehindRepaired.cfg", 2, 600)

    # ---- 2. S->I: TLC behaviours replayed on the real code
    nsim = 2000 if quick else 12000
    f_gen = [pool.submit(gen_sim, "WriteBehindGenSim.cfg", seed * 10 + i, nsim // 2 if quick else nsim // 4)
             for i in range(2 if quick else 4)]
    f_gengap = pool.submit(gen_sim, "WriteBehindGenSimGap.cfg", seed * 10 + 7, 60 if quick else 300)

    # ---- 3. I->S: random runs (meanwhile)
    traces = []
    nrand, per = (8, 80) if quick else (40, 150)
    for i in range(nrand):
        tr = os.path.join(wd, f"rand_{i}.ndjson")
        p = wb(bd, check=False, mode="random", seed=seed * 100 + i, runs=per, out=tr,
               small=1 if i % 3 == 2 else 0)
        if p.returncode != 0:
            # every created batch is submitted in these runs: dying is a failure of the
            # code; the run is recovered and judged by the trace spec (drop_aborted_without_gap)
            recover_abort(tr, p.stdout or "")
        traces.append({"trace": tr, "origin": f"random seed={seed * 100 + i}", "runs": per})

    vp.log(f"[C10] random runs done {time.time()-t0:.0f}s")
    cases, gstates = [], 0
    for f in f_gen:
        c, s = f.result()
        cases += c
        gstates += s
    if not quick:
        r = tlc("WriteBehindGen", cfg="WriteBehindGenEx.cfg", workers=4, timeout=900, check_ok=False, xmx="6g")
        if not r["ok"]:
            raise vp.ToolError("exhaustive generator failed:\n" + r["out"][-3000:])
        ex_cases = parse_cases(r["out"])
        gstates += r["distinct"]
        for c in ex_cases:
            c["origin"] = "gen-exhaustive"
        cases += ex_cases
    distinct_hist = len({json.dumps([c["actions"], c["limits"]]) for c in cases})
    for c in cases:
        c.setdefault("origin", "gen-simulate")
    replay_stats = {"cases": len(cases), "distinct_histories": distinct_hist, "order_ok": 0,
                    "db_ok": 0, "grouping_ok": 0, "model_drift": 0, "first_drift": None,
                    "extra_allows": 0}
    # every other behaviour is replayed with lazy marking: batches TLC never filled are
    # then submitted truly empty (no marker write), the others as before
    for i, c in enumerate(cases):
        c["lazy"] = (i % 2 == 1)
    shards = 4 if quick else 16
    shard_infos = []

    def replay_shard(k):
        mine = cases[k::shards]
        cin = os.path.join(wd, f"gen_{k}.cases")
        with open(cin, "w") as f:
            for c in mine:
                f.write(json.dumps(c) + "\n")
        tr = os.path.join(wd, f"gen_{k}.ndjson")
        rs = os.path.join(wd, f"gen_{k}.res")
        p = wb(bd, check=False, mode="replay", out=tr, res=rs, **{"in": cin})
        return k, mine, tr, rs, p

    rpool = cf.ThreadPoolExecutor(max_workers=4)
    for k, mine, tr, rs, p in rpool.map(replay_shard, range(shards)):
        results = vp.read_ndjson(rs) if os.path.exists(rs) else []
        if p.returncode != 0:
            # the process died while replaying a behaviour in which every created
            # batch was submitted: a genuine failure of the code
            bad = mine[len(results)] if len(results) < len(mine) else None
            panics = vp.read_ndjson(tr + ".panic") if os.path.exists(tr + ".panic") else []
            if bad is None or not panics:
                raise vp.ToolError(f"replay process died (rc={p.returncode}):\n{(p.stdout or '')[-2000:]}")
            verdict.violation(f"process died (rc={p.returncode}) replaying a gap-free behaviour: "
                              f"{panics[0]['thread']}: {panics[0]['msg']}",
                              {"property": PID, "case": bad, "origin": bad["origin"],
                               "panics": [(x["thread"], x["msg"]) for x in panics]})
            continue
        for r_ in results:
            if "harness_error" in r_:
                raise vp.ToolError(f"replay harness error: {r_}")
            c = mine[r_["case"]]
            replay_stats["extra_allows"] += r_.get("extra_allows", 0)
            for key in ("order_ok", "db_ok", "grouping_ok"):
                replay_stats[key] += 1 if r_.get(key) else 0
            if r_.get("hang") or r_.get("early_return"):
                continue  # reported through the trace (drop_hang / drop_returned_early)
            if not (r_.get("order_ok") and r_.get("db_ok")):
                verdict.violation(f"S->I: store differs from TLC's expectation: got log {r_.get('got_log')} "
                                  f"db {r_.get('got_db')}, want log {r_.get('want_log')} db {r_.get('want_db')}",
                                  {"property": PID, "case": c, "origin": c["origin"], "result": r_})
            elif not r_.get("grouping_ok"):
                replay_stats["model_drift"] += 1
                replay_stats["first_drift"] = replay_stats["first_drift"] or {"case": c, "result": r_}
        traces.append({"trace": tr, "origin": f"TLC behaviours shard {k}", "cases": mine,
                       "runs": len(mine)})

    vp.log(f"[C10] {len(cases)} TLC behaviours replayed {time.time()-t0:.0f}s")
    # ---- 4. gaps: hand-written scenarios + TLC behaviours with AllowGap
    gcases, gs2 = f_gengap.result()
    gstates += gs2
    crashed = [c for c in gcases if c["expect"]["crashed"]]
    rnd.shuffle(crashed)
    picked = gap_cases()
    for c in crashed[: (8 if quick else 40)]:
        c = dict(c, origin="gen-gap", predict_abort=True)
        picked.append(c)
    gap_obs = []

    def iso(ic):
        i, c = ic
        return run_isolated(bd, wd, f"gap_{i}", c)

    for info in pool.map(iso, list(enumerate(picked))):
        c = info["case"]
        obs = {"origin": c["origin"], "predicted_abort": c["predict_abort"], "aborted": info["aborted"],
               "rc": info["rc"], "panics": info["panics"][:3]}
        if info["aborted"] and not c["predict_abort"]:
            verdict.violation(f"process died (rc={info['rc']}) in a scenario where the model predicts "
                              f"a normal shutdown: {info['panics'][:2]}",
                              {"property": PID, "case": c, "origin": c["origin"], "panics": info["panics"]})
        traces.append({"trace": info["trace"], "origin": c["origin"], "cases": [c], "runs": 1,
                       "gap_info": info, "obs": obs})
        gap_obs.append(obs)

    vp.log(f"[C10] gap scenarios done {time.time()-t0:.0f}s")
    # ---- 5. the real backends: WriteBehind<RocksDB> / WriteBehind<Fjall>, several writer sessions per directory,
    # batches of ordinary cells, set members and the single cell of a column whose key and discriminant encode to
    # nothing (often alone in a batch), a value of several megabytes now and then (mid-stream flush); the store is
    # reopened through the raw KvDatabase API and must hold the sequential fold (WriteBehindTrace, nolog runs)
    bdb = vp.build(features="backends")
    btmp = vp.workdir(PID, "backends_tmp")
    for i in range(2 if quick else 12):
        trb = os.path.join(wd, f"backends_{i}.ndjson")
        pb = vp.run([os.path.join(bdb, "wb_backends"), "--out", trb, "--seed", str(seed * 50 + i), "--runs", "40" if quick else "150",
                     "--tmp", btmp], timeout=1800, check=False)
        if pb.returncode != 0:
            verdict.violation(f"process died (rc={pb.returncode}) writing through WriteBehind over a real backend: {(pb.stdout or '')[-300:]}",
                              {"property": PID, "origin": "real backends", "seed": seed * 50 + i, "output": (pb.stdout or '')[-3000:]})
            continue
        traces.append({"trace": trb, "origin": f"real backends seed={seed * 50 + i}", "runs": 80 if quick else 300})
    # ---- verdict: TLC validates every recorded run against the P-layer spec
    summary = {"events": 0, "trace_states": 0, "stats": {}, "viol_by_kind": {}}
    results = classify(traces, verdict, summary)
    for ti, res, _ in results:
        if "gap_info" not in ti:
            continue
        info, obs = ti["gap_info"], ti["obs"]
        obs["durable"] = res["stats"]["groups"]
        obs["durable_mid_run"] = [e["durable"] for e in vp.read_ndjson(ti["trace"]) if e["e"] == "midsnap"]
        obs["held_back"] = res["stats"]["held_back"]
        obs["past_gap"] = res["stats"]["past_gap"]
        if info["aborted"] and ti["cases"][0]["predict_abort"] and not res["viol"]:
            if info.get("abort_sig") and res["stats"]["held_back"] > 0 and "KF_WB_GAP_ABORT" in known:
                verdict.known_finding("KF_WB_GAP_ABORT", known["KF_WB_GAP_ABORT"])
            else:
                verdict.violation(f"process died inside Drop with an unknown signature: {info['panics'][:2]}",
                                  {"property": PID, "case": ti["cases"][0], "origin": ti["origin"],
                                   "panics": info["panics"]})
        if (not info["aborted"]) and ti["cases"][0]["predict_abort"]:
            replay_stats["model_drift"] += 1
            replay_stats["first_drift"] = replay_stats["first_drift"] or {
                "case": ti["cases"][0], "note": "model predicts the abort in Drop, the code returned"}

    vp.log(f"[C10] traces validated {time.time()-t0:.0f}s")
    # ---- model checking results
    main = f_main.result()
    cov = vp.tlc_coverage(main["out"])
    passr = f_pass.result()
    cov["Pass"] = vp.tlc_coverage(passr["out"]).get("Pass", (0, 0))
    never = [a for a in ACTIONS if cov.get(a, (0, 0))[1] == 0]
    if never:
        raise vp.ToolError(f"actions never taken in the exhaustive configuration: {never}")
    big = f_big.result() if f_big else None
    take, join, live = f_take.result(), f_join.result(), f_live.result()
    f_linger.result()
    rep = f_rep.result()
    pool.shutdown()

    rc = verdict.finish()
    nruns = sum(t["runs"] for t in traces)
    sample_case = next((c for c in cases if len(c["expect"]["log"]) >= 2 and len(c["actions"]) > 10), cases[0])
    ev0 = vp.read_ndjson(traces[0]["trace"])[:16]
    coverage = {
        "states": main["distinct"] + live["distinct"] + passr["distinct"] + gstates
        + (big["distinct"] if big else 0),
        "transitions": main["generated"] + live["generated"] + passr["generated"]
        + (big["generated"] if big else 0),
        "traces_validated_against_impl": nruns,
        "samples": [{"tlc_behaviour_replayed": sample_case},
                    {"random_run_first_events": ev0},
                    {"gap_observations": gap_obs[:4]}],
        "exhaustive": True,
        "model_big": None if not big else {
            "config": "WriteBehindBig.cfg", "distinct": big["distinct"], "generated": big["generated"],
            "depth": big["depth"], "wall_s": round(big["wall_s"], 1)},
        "model": {"config": "WriteBehind.cfg",
                  "distinct": main["distinct"], "generated": main["generated"], "depth": main["depth"],
                  "wall_s": round(main["wall_s"], 1), "invariants": INVARIANTS,
                  "action_coverage": {a: cov[a][1] for a in ACTIONS if a in cov}},
        "model_repaired": {"config": "WriteBehindRepaired.cfg (AbortOnGap = FALSE)",
                           "distinct": rep["distinct"], "ok": rep["ok"]},
        "defect_switches": {"DefectTakeAny": take["invariant_violated"], "DefectNoJoin": join["invariant_violated"]},
        "liveness": {"config": "WriteBehindLive.cfg", "distinct": live["distinct"],
                     "properties": ["EventuallyDurable", "DropReturns", "ShutdownHappens"], "ok": live["ok"],
                     "expected_counterexample_without_shutdown": "WriteBehindLinger.cfg: EventuallyDurable "
                     "violated (a batch lingers in the open physical batch until the next batch or Drop)"},
        "generator_states": gstates,
        "replayed_behaviours": replay_stats["cases"],
        "replay": {k: v for k, v in replay_stats.items() if k != "first_drift"},
        "model_drift": replay_stats["model_drift"],
        "first_drift": replay_stats["first_drift"],
        "random_runs": nrand * per,
        "events_validated": summary["events"],
        "checked": summary["stats"],
        "violations_by_kind": summary["viol_by_kind"],
        "gap_scenarios": gap_obs,
        "known_finding_hits": {k: h["count"] for k, h in verdict.known_hits.items()},
        "rule": "a trace = one run of the real WriteBehind<MemKv> (create/fill/submit events per "
                "thread, the store's physical commit log split into logical groups, the content at "
                "the instant Drop returned); every event is one TLC step of WriteBehindTrace",
    }
    vp.write_evidence(PID, tier, seed, "model_checking", coverage, time.time() - t0,
                      len(verdict.violations),
                      assumptions=[
                          "the store is the harness' MemKv (atomic physical commits, ordered log); "
                          "durability of a real backend's commit() is C11",
                          "creation order is observed by serialising new_write_batch() in 'locked' runs "
                          "(batch id = epoch) and by real-time call intervals in 'racing' runs",
                          "every created batch is eventually submitted; otherwise the documented "
                          "stall applies (gap scenarios)",
                          "group limits of the store are per physical batch (should_write_more)"])
    return rc


def replay(path):
    rp = json.load(open(path))
    bd = vp.build()
    wd = vp.workdir(PID, "replay")
    rc = 0
    known = known_ids()
    # (a) the recorded run is re-validated as recorded
    if rp.get("events"):
        tr = os.path.join(wd, "recorded.ndjson")
        with open(tr, "w") as f:
            for e in rp["events"]:
                f.write(json.dumps(e) + "\n")
        res, _ = validate(tr)
        bad = [v for v in res["viol"] if v["kind"] in P_KINDS]
        for v in bad:
            print(f"VIOLATION property={PID} replay={path}")
            print("   recorded run:", v)
            rc = 1
    # (b) the case / seed is executed again on the current tree
    case = rp.get("case")
    if case is not None:
        info = run_isolated(bd, wd, "replay_case", case)
        res, _ = validate(info["trace"])
        bad = [v for v in res["viol"] if v["kind"] in P_KINDS]
        if info["aborted"] and case.get("predict_abort") and info.get("abort_sig") and not bad \
                and res["stats"]["held_back"] > 0 and "KF_WB_GAP_ABORT" in known:
            print(f"KNOWN-FINDING: property={PID} KF_WB_GAP_ABORT: {known['KF_WB_GAP_ABORT']}")
        elif info["aborted"]:
            print(f"VIOLATION property={PID} replay={path}")
            print("   process died:", info["panics"][:3])
            rc = 1
        for r_ in info.get("res", []):
            if "order_ok" in r_ and not (r_["order_ok"] and r_["db_ok"]):
                print(f"VIOLATION property={PID} replay={path}")
                print("   ", r_)
                rc = 1
        for v in bad:
            print(f"VIOLATION property={PID} replay={path}")
            print("   re-executed:", v)
            rc = 1
    elif rp.get("events") and rp["events"][0].get("origin") == "random":
        tr = os.path.join(wd, "rerun.ndjson")
        wb(bd, mode="random", runseed=rp["events"][0]["seed"], runs=20, out=tr)
        res, _ = validate(tr)
        for v in [v for v in res["viol"] if v["kind"] in P_KINDS][:5]:
            print(f"VIOLATION property={PID} replay={path}")
            print("   re-executed (racy, 20 attempts):", v)
            rc = 1
    if rc == 0:
        print(f"replay {path}: no violation of {PID}")
    return rc


def selftest(seed):
    """Anti-vacuity of the binding: (1) corrupt recorded fields of an accepted
    trace (commit order, one op of a batch, one durable batch) and show the
    trace spec rejects each; (2) replay one TLC behaviour against a
    deliberately wrong expectation and show the comparison flags it."""
    bd = vp.build()
    wd = vp.clean_workdir(PID + "-selftest")
    tr = os.path.join(wd, "t.ndjson")
    wb(bd, mode="random", seed=seed, runs=12, out=tr)
    res, _ = validate(tr)
    ok = not res["viol"]
    print(f"selftest {PID}: accepted trace: {res['stats']['runs']} runs, violations={len(res['viol'])}")
    ev = vp.read_ndjson(tr)
    commits = [i for i, e in enumerate(ev) if e["e"] == "commit"]

    def check(name, events, want):
        p = os.path.join(wd, name + ".ndjson")
        with open(p, "w") as f:
            for e in events:
                f.write(json.dumps(e) + "\n")
        r, _ = validate(p)
        kinds = sorted({v["kind"] for v in r["viol"]})
        print(f"selftest {PID}: {name}: spec reports {kinds}")
        return want in kinds

    # (1a) two physical commits of one run swapped
    pair = next((a, b) for a, b in zip(commits, commits[1:]) if b == a + 1)
    e2 = list(ev)
    e2[pair[0]], e2[pair[1]] = e2[pair[1]], e2[pair[0]]
    ok &= check("swapped_commits", e2, "commit_order")
    # (1b) one op of one batch lost (torn batch)
    e3 = json.loads(json.dumps(ev))
    g = next(g for e in e3 if e["e"] == "commit" for g in e["groups"] if g["ops"])
    g["ops"].pop()
    ok &= check("torn_batch", e3, "batch_content")
    # (1c) the last commit before Drop returned is missing
    fin = next(i for i, e in enumerate(ev) if e["e"] == "final")
    e4 = ev[:fin - 1] + ev[fin:]
    ok &= check("lost_commit", e4, "not_durable_at_drop_return")
    # (1d) a batch committed twice
    e5 = ev[:commits[0] + 1] + [ev[commits[0]]] + ev[commits[0] + 1:]
    ok &= check("double_commit", e5, "duplicate_commit")
    # (2) S->I against a wrong expectation
    cases, _ = gen_sim("WriteBehindGenSim.cfg", seed, 20)
    c = next(c for c in cases if len(c["expect"]["log"]) >= 1 and sum(len(g) for g in c["expect"]["log"]) >= 2)
    wrong = json.loads(json.dumps(c))
    flat = [b for g in wrong["expect"]["log"] for b in g]
    flat[0], flat[1] = flat[1], flat[0]
    wrong["expect"]["log"] = [flat]
    cin = os.path.join(wd, "wrong.cases")
    with open(cin, "w") as f:
        f.write(json.dumps(c) + "\n" + json.dumps(wrong) + "\n")
    rs = os.path.join(wd, "wrong.res")
    wb(bd, mode="replay", out=os.path.join(wd, "wrong.ndjson"), res=rs, **{"in": cin})
    r = vp.read_ndjson(rs)
    print(f"selftest {PID}: S->I true expectation order_ok={r[0]['order_ok']}, "
          f"wrong expectation order_ok={r[1]['order_ok']}")
    ok &= r[0]["order_ok"] and r[0]["db_ok"] and not r[1]["order_ok"]
    print("selftest", "passed" if ok else "FAILED")
    return 0 if ok else 2
