SPECIFICATION Spec
CONSTANTS
  SccFix = "forget"
  TfcChain = FALSE
  MaxEpochs = 3
  MaxSets = 1
  MaxQueries = 2
  Emitting = "no"
INVARIANT Terminates
VIEW View
CHECK_DEADLOCK FALSE
