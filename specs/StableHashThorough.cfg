\* C13 design check (thorough tier): three element values.  Exhaustive over all pairs of
\* representations of each type within the bounds.
SPECIFICATION Spec
CONSTANTS
  LengthPrefix = TRUE
  DiscPrefix = TRUE
  Commutative = TRUE
  LenW = 2
  DiscW = 2
  Bytes = {0, 1, 2}
  Chars = {97, 98}
  MaxLen = 2
  TypeNames = {"u8", "str", "pair_str_str", "vec_u8", "vec_vec_u8", "vec_unit", "vec_str", "opt_u8", "opt_opt_u8", "pair_opt_u8_vec_u8", "res_u8_str", "set_u8", "set_set_u8", "set_vec_u8", "vec_set_u8", "map_u8_u8", "map_u8_set_u8", "map_str_u8", "bmap_u8_vec_u8", "heap_u8", "pair_set_u8_set_u8", "enum_e", "pair_enum_e_u8"}
INVARIANTS TypeOK HistoryFree Discriminating PrefixFree LenCode
CHECK_DEADLOCK FALSE
