SPECIFICATION Spec
CONSTANTS
  Pool <- PoolX
  Kids <- KidsX
  TypeOf <- TypeX
  HashOf <- HashX
  MaxEnc = 2
  Aux = TRUE
  AllowUnregistered = TRUE
  PinDecoded = TRUE
  SeenByHashOnly = FALSE
  Emitting = FALSE
CHECK_DEADLOCK FALSE
INVARIANTS
  FIFO
  PosOk
  SelfContained
  TabOk
