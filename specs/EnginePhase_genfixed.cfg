SPECIFICATION Spec
CONSTANTS
  Readers = {1, 2}
  MaxSessions = 1
  QueriesPerReader = 1
  LockBeforeBump = TRUE
  DropSessions = TRUE
  EarlyRelease = FALSE
  Emit = TRUE
CHECK_DEADLOCK FALSE
