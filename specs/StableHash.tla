------------------------------ MODULE StableHash ------------------------------
(***************************************************************************)
(* C13 - stable hashes are history-free and discriminating (design level). *)
(*                                                                         *)
(* Two values of ONE type are built side by side through construction      *)
(* histories.  The state keeps only what a history leaves behind, the      *)
(* concrete representation (StableHashFraming.tla): for unordered          *)
(* collections that is the current iteration order, which every action     *)
(* that can move entries around (insert at any bucket, remove, grow,       *)
(* reserve, shrink, clone, decode into a fresh table, another RandomState) *)
(* may change arbitrarily.  One action per way the code under test lets a  *)
(* history differ:                                                         *)
(*                                                                         *)
(*   Push/Pop      Vec, String, slices (ordered: history = content)        *)
(*   Ins           HashSet/HashMap/BinaryHeap insert - lands at ANY place  *)
(*                 of the iteration order                                  *)
(*   Upd           HashMap insert over an existing key                     *)
(*   Rem           remove (any entry)                                      *)
(*   Permute       rehash / reserve / shrink_to_fit / clone / decode /     *)
(*                 other hasher state: same content, other order           *)
(*   BIns          BTreeMap insert (order is the key order, by the tree)   *)
(*   Assign        products: Option, Result, tuple, struct, enum           *)
(*                                                                         *)
(* Invariants (the property, on the model):                                *)
(*   HistoryFree     equal abstract values  => equal streams               *)
(*   Discriminating  different abstract values => different streams        *)
(*   PrefixFree      no stream is a proper prefix of another stream of the *)
(*                   same type (this is what makes concatenation in        *)
(*                   tuples/structs/sequences unambiguous - the inductive  *)
(*                   step behind Discriminating for types not enumerated)  *)
(*                                                                         *)
(*   LenCode         the length encoding is a prefix code (what PrefixFree  *)
(*                   and Discriminating need from write_length_prefix)     *)
(*                                                                         *)
(* With LengthPrefix = FALSE TLC finds ("ab","b") vs ("a","bb"),           *)
(* with DiscPrefix = FALSE   None vs Some(0)-like pairs,                   *)
(* with Commutative = FALSE  {0,1} iterated as 0,1 vs 1,0 (HistoryFree).   *)
(* Deliberate abstraction: SipHash itself and the 128-bit sum are not      *)
(* modelled (a multiset token stands for "sum of sub-hashes"); numeric     *)
(* fidelity is decided by replaying on the real code (hash_replay).        *)
(***************************************************************************)
EXTENDS StableHashFraming

CONSTANT TypeNames      \* subset of AllTypeNames explored by this config

VARIABLES ty, r1, r2
vars == <<ty, r1, r2>>

T == TypeDef[ty]
UnivOf == [n \in TypeNames |-> Univ(TypeDef[n])]
ElemOf == [n \in TypeNames |-> ElemUniv(TypeDef[n])]

Side(s) == IF s = 1 THEN r1 ELSE r2
SetSide(s, v) == IF s = 1 THEN r1' = v /\ UNCHANGED <<ty, r2>>
                 ELSE r2' = v /\ UNCHANGED <<ty, r1>>

KeyAbs(x) == CASE T.k = "set" -> Abs(T.a[1], x)
               [] T.k = "map" -> Abs(T.a[1], x[1])
               [] OTHER -> x
HasKey(r, x) == \E i \in DOMAIN r : KeyAbs(r[i]) = KeyAbs(x)

Init == /\ ty \in TypeNames
        /\ r1 = Default(TypeDef[ty])
        /\ r2 = Default(TypeDef[ty])

Push(s) == /\ T.k \in {"vec", "str"}
           /\ Len(Side(s)) < MaxLen
           /\ \E x \in ElemOf[ty] : SetSide(s, Append(Side(s), x))

Pop(s) == /\ T.k \in {"vec", "str"}
          /\ Side(s) # <<>>
          /\ SetSide(s, SubSeq(Side(s), 1, Len(Side(s)) - 1))

Ins(s) == /\ IsUnordered(T)
          /\ Len(Side(s)) < MaxLen
          /\ \E x \in ElemOf[ty], p \in 1..(Len(Side(s)) + 1) :
                /\ ~(T.k # "heap" /\ HasKey(Side(s), x))
                /\ SetSide(s, InsertAt(Side(s), p, x))

Upd(s) == /\ T.k = "map"
          /\ \E i \in DOMAIN Side(s), v \in Univ(T.a[2]) :
                /\ v # Side(s)[i][2]
                /\ SetSide(s, [Side(s) EXCEPT ![i] = <<Side(s)[i][1], v>>])

Rem(s) == /\ T.k \in {"set", "heap", "map", "bmap"}
          /\ \E i \in DOMAIN Side(s) : SetSide(s, RemoveAt(Side(s), i))

Permute(s) == /\ IsUnordered(T)
              /\ \E q \in PermsOf(Side(s)) : q # Side(s) /\ SetSide(s, q)

BIns(s) == /\ T.k = "bmap"
           /\ Len(Side(s)) < MaxLen
           /\ \E x \in ElemOf[ty] :
                /\ \A i \in DOMAIN Side(s) : Side(s)[i][1] # x[1]
                /\ LET p == 1 + Cardinality({i \in DOMAIN Side(s) : Side(s)[i][1] < x[1]})
                   IN SetSide(s, InsertAt(Side(s), p, x))

Assign(s) == /\ ~IsCollection(T)
             /\ \E x \in UnivOf[ty] : x # Side(s) /\ SetSide(s, x)

Next == \E s \in {1, 2} :
            Push(s) \/ Pop(s) \/ Ins(s) \/ Upd(s) \/ Rem(s) \/ Permute(s) \/ BIns(s) \/ Assign(s)

Spec == Init /\ [][Next]_vars

(* ------------------------------ invariants ----------------------------- *)
TypeOK == r1 \in UnivOf[ty] /\ r2 \in UnivOf[ty]

A1 == Abs(T, r1)
A2 == Abs(T, r2)
S1 == Tok(T, r1, FALSE)
S2 == Tok(T, r2, FALSE)

HistoryFree == (A1 = A2) => (S1 = S2)
Discriminating == (A1 # A2) => (S1 # S2)
PrefixFree == IsPrefix(S1, S2) => (S1 = S2)
(* the length encoder of the framing is a prefix code (requirement stated  *)
(* in StableHashFraming.tla, examined on its own in StableHashLenCode.tla) *)
LenCode == LenCodeIsPrefixCode
=============================================================================
