\* exhaustive, WITH the per-session family cache: one wide and one set column, every order of first touches
\* (direct op, buffered op at consume, get, scan, iterator) across commits and reopen, <= 3 ops
SPECIFICATION Spec
CONSTANTS
  WCols = {"W1"}
  SCols = {"S1"}
  Keys = {"K1"}
  VTypes = {"V1"}
  Vals = {1}
  Elems = {"E1", "E2"}
  MaxBatches = 2
  MaxBufs = 1
  MaxIters = 1
  MaxOps = 3
  AtomicCommit = TRUE
  SnapshotScan = TRUE
  Alias = {}
  TrackTouch = TRUE
  MisTag = {}
  BufOrder = "seq"
INVARIANTS TypeOK ReadsLastCommitted ScansExactMembers IterSound ResultsIgnoreTouched OwnFamilyOnly BufferIsSequence
PROPERTY OnlyCommitChanges
CHECK_DEADLOCK FALSE
