---------------------------- MODULE StableHashLenGen ----------------------------
(***************************************************************************)
(* C13 - generator of the BOUNDARY UNIVERSE for the length-encoding        *)
(* binding (StableHashLenCode.tla states the requirement; this module      *)
(* says where to look at the real encoder).  One JSON line per item:       *)
(*                                                                         *)
(*  {"k":"len","p":e,"d":d}       call write_length_prefix(n) on the       *)
(*                                recording hasher, n = d for p = 0 and    *)
(*                                n = 2^p + d otherwise (2^32 does not fit *)
(*                                TLC's integers, so the exponent is sent) *)
(*  {"k":"val","ty":t,"n":n}      hash a real Vec<u8> / String / Vec<u16>  *)
(*                                with n elements; the recorded stream     *)
(*                                minus the payload is the encoding of n   *)
(*  {"k":"comp","ty":t,"ls":<<..>>}  hash a real composite value whose     *)
(*                                sequences have the lengths ls and whose  *)
(*                                concatenated content is ONE fixed byte   *)
(*                                string per total length: values of one   *)
(*                                total differ only in where the cuts are, *)
(*                                i.e. only the length fields tell them    *)
(*                                apart.  Cuts sit on and around every     *)
(*                                width boundary of a length field.        *)
(*                                                                         *)
(* Boundaries: a dense range 0..Dense (contains 2^8 and its neighbours,    *)
(* the place where a one-byte length stops fitting), 2^p +- Delta for      *)
(* every p in Pows (byte-width boundaries of wider fields).                *)
(***************************************************************************)
EXTENDS Integers, Sequences, FiniteSets, TLC, Json

CONSTANTS Dense,     \* dense range of lengths 0..Dense
          Pows,      \* exponents p: lengths 2^p - Delta .. 2^p + Delta
          Delta,
          BigLens,   \* further lengths of real values (around 2^16)
          ValTypes,  \* subset of {"vec_u8", "string", "vec_u16"}
          Centre,    \* the boundary the composite values are cut around (2^8)
          Wide,      \* width of a wide length field in bytes (8)
          FarTotals  \* further total lengths of composite values

VARIABLE item

Near(c, r) == {x \in (c - r)..(c + r) : x >= 0}

LenItems == {[k |-> "len", p |-> 0, d |-> n] : n \in 0..Dense}
            \cup {[k |-> "len", p |-> e, d |-> d] : e \in Pows, d \in (-Delta)..Delta}

ValItems == {[k |-> "val", ty |-> t, n |-> n] : t \in ValTypes, n \in (0..Dense) \cup BigLens}

(* cut positions: start, one wide field into the content, around the       *)
(* boundary, one wide field before / after it                              *)
Cuts == (0..2) \cup Near(Wide, 1) \cup Near(Centre - Wide, 1) \cup Near(Centre, 3)
        \cup Near(Centre + Wide, 1)
Totals == {0, 1, 2, Wide + 1} \cup Near(Centre, 2) \cup FarTotals

CutsOf(tot) == {c \in Cuts : c <= tot}
Comp(t, ls) == [k |-> "comp", ty |-> t, ls |-> ls]

PairItems == UNION {{Comp(t, <<la, tot - la>>) : la \in CutsOf(tot)} :
                        t \in {"pair_vec_u8", "pair_str_str"}, tot \in Totals}
NestedItems ==
    UNION {{Comp("vec_vec_u8", <<la, tot - la>>) : la \in CutsOf(tot)} : tot \in Totals}
    \cup {Comp("vec_vec_u8", <<tot>>) : tot \in Totals}
    \cup {Comp("vec_vec_u8", <<>>)}
    \cup UNION {{Comp("vec_vec_u8", <<la, 0, tot - la>>) : la \in CutsOf(tot)} : tot \in Near(Centre, 2)}
    \cup UNION {{Comp("vec_vec_u8", <<0, la, tot - la>>) : la \in CutsOf(tot)} : tot \in Near(Centre, 2)}

Items == LenItems \cup ValItems \cup PairItems \cup NestedItems

Init == item \in Items /\ PrintT(ToJson(item))
Next == UNCHANGED item
Spec == Init /\ [][Next]_item
=============================================================================
