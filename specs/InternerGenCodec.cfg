\* S->I generator with encode/decode: 2 types x 1 value, shapes Shapes3
SPECIFICATION GSpec
CONSTANTS
  Threads = {1}
  Types = {1, 2}
  Values = {1}
  Allocs = {1, 2, 3, 4}
  IntAllocs = TRUE
  MaxHandles = 2
  PerValueShard = FALSE
  Mutation = "none"
  VacuumOn = TRUE
  CodecSeqs <- NoShapes
  CodecThreads = {1}
  Shapes <- Shapes3
  MaxOps = 6
INVARIANT GenOK
CHECK_DEADLOCK FALSE
