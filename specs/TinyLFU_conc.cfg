SPECIFICATION Spec
CONSTANTS
  FixUnpin = TRUE
  Recheck = TRUE
  Concurrent = TRUE
  DuelChoices <- Both
  MaxW = 2
  MaxVal = 1
  MaxPin = 1
  TrackRounds = FALSE
  Confs <- ConfsConc
CONSTRAINT Constraint
INVARIANTS TypeOK NoPanic PinnedNeverEvicted ReadableUntilGone RegionInv NoLeak BoundedM BoundedNotify
CHECK_DEADLOCK FALSE
