SPECIFICATION Spec
CONSTANTS
  FixUnpin = TRUE
  Recheck = TRUE
  Concurrent = FALSE
  DuelChoices <- Both
  MaxW = 3
  MaxVal = 2
  MaxPin = 1
  TrackRounds = FALSE
  Confs <- C1N
CONSTRAINT Constraint
INVARIANTS TypeOK NoPanic PinnedNeverEvicted ReadableUntilGone RegionInv NoLeak BoundedM BoundedNotify SlackOK BoundedAfterRounds
CHECK_DEADLOCK FALSE
