SPECIFICATION Spec
CONSTANTS
  Pool <- PoolN
  Kids <- KidsN
  MaxEnc = 3
  Aux = FALSE
  AllowUnregistered = FALSE
  PinDecoded = FALSE
  Emitting = TRUE
CHECK_DEADLOCK FALSE
INVARIANTS
  FIFO
  PosOk
