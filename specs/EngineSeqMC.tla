----------------------------- MODULE EngineSeqMC -----------------------------
(***************************************************************************)
(* Model checking of the mechanism model EngineSeq against the P-level     *)
(* property C01 over a family of small programs (env FAMILY, ndjson) and   *)
(* all bounded histories of sessions and user queries.                     *)
(***************************************************************************)
EXTENDS EngineSeq, Json, IOUtils

CONSTANTS MaxEpochs, MaxSets, MaxQueries

Family == ndJsonDeserialize(IOEnv.FAMILY)
Shard == atoi(IOEnv.SHARD)
Shards == atoi(IOEnv.SHARDS)

VARIABLES pi, S, inputs, insess, batch, epoch, nsets, nq, bad, trace

vars == <<pi, S, inputs, insess, batch, epoch, nsets, nq, bad, trace>>

P == Family[pi].prog
Nodes == 1..Len(P.nodes)
Inputs == {n \in Nodes : P.nodes[n].kind = "In"}

RECURSIVE SetAll(_, _, _)
SetAll(p, St, todo) ==
    IF todo = {} THEN St
    ELSE LET n == CHOOSE n \in todo : \A y \in todo : n <= y
         IN SetAll(p, SessSet(p, St, n, 0).S, todo \ {n})

Init ==
    /\ pi \in {i \in 1..Len(Family) : i % Shards = Shard}
    /\ LET p == Family[pi].prog
           ins == {n \in 1..Len(p.nodes) : p.nodes[n].kind = "In"}
           S0 == SessBegin(InitState(p))
       IN S = SessCommit(SetAll(p, S0, ins), {})
    /\ inputs = [n \in 1..Len(Family[pi].prog.nodes) |-> 0]
    /\ insess = FALSE /\ batch = {} /\ epoch = 0 /\ nsets = 0 /\ nq = 0
    /\ bad = FALSE
    /\ trace = <<>>

Query(n) ==
    /\ ~insess /\ nq < MaxQueries /\ ~bad
    /\ LET r == UserQuery(P, S, n)
           want == Valuation(P, inputs)[n]
       IN /\ S' = r.S
          /\ bad' = (r.v # want \/ r.S.err # "")
          /\ trace' = Append(trace, <<"query", n, r.v, want>>)
    /\ nq' = nq + 1
    /\ UNCHANGED <<pi, inputs, insess, batch, epoch, nsets>>

Begin ==
    /\ ~insess /\ epoch < MaxEpochs /\ ~bad
    /\ S' = SessBegin(S)
    /\ insess' = TRUE /\ batch' = {} /\ nsets' = 0
    /\ trace' = Append(trace, <<"begin">>)
    /\ UNCHANGED <<pi, inputs, epoch, nq, bad>>

Set(n, v) ==
    /\ insess /\ nsets < MaxSets
    /\ LET r == SessSet(P, S, n, v) IN
       /\ S' = r.S
       /\ batch' = IF r.changed THEN batch \cup {n} ELSE batch
    /\ inputs' = [inputs EXCEPT ![n] = v]
    /\ nsets' = nsets + 1
    /\ trace' = Append(trace, <<"set", n, v>>)
    /\ UNCHANGED <<pi, insess, epoch, nq, bad>>

Commit ==
    /\ insess
    /\ S' = SessCommit(S, batch)
    /\ insess' = FALSE /\ epoch' = epoch + 1 /\ nq' = 0
    /\ trace' = Append(trace, <<"commit">>)
    /\ UNCHANGED <<pi, inputs, batch, nsets, bad>>

Next ==
    \/ \E n \in Nodes : Query(n)
    \/ Begin
    \/ \E n \in Inputs, v \in 0..(P.m - 1) : Set(n, v)
    \/ Commit

Spec == Init /\ [][Next]_vars

(* C01 on the model *)
Correct == ~bad

(* the trace is bookkeeping for counterexamples only *)
View == <<pi, S, inputs, insess, batch, epoch, nsets, nq, bad>>
=============================================================================
