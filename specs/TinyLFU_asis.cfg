SPECIFICATION Spec
CONSTANTS
  FixUnpin = FALSE
  Recheck = TRUE
  Concurrent = FALSE
  DuelChoices <- Tie
  MaxW = 3
  MaxVal = 1
  MaxPin = 1
  TrackRounds = FALSE
  Confs <- ConfsSeq
CONSTRAINT Constraint
INVARIANTS TypeOK NoPanic
CHECK_DEADLOCK FALSE
