SPECIFICATION Spec
CONSTANTS
  Pool <- PoolX
  Kids <- KidsX
  TypeOf <- TypeX
  HashOf <- HashX
  MaxEnc = 3
  Aux = TRUE
  AllowUnregistered = FALSE
  PinDecoded = FALSE
  SeenByHashOnly = TRUE
  Emitting = FALSE
CHECK_DEADLOCK FALSE
INVARIANTS
  SelfContained
