\* thorough tier: 2 keys, values {absent,1,2}, 3 batches, 2 clients x 3 ops (about 7 min with 4 workers)
SPECIFICATION Spec
CONSTANTS
  Keys = {k1, k2}
  Vals = {1, 2}
  Clients = {c1, c2}
  MaxBatches = 3
  MaxOps = 3
  StaleFill = FALSE
  FillOverwrite = FALSE
  NoNegativeEntry = FALSE
  Gen = FALSE
SYMMETRY Sym
VIEW view
INVARIANTS ReadYourWrites RememberedAbsence StoreCurrent CacheCurrent
CHECK_DEADLOCK FALSE
