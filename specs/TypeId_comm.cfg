\* C14 combine merely commutative (unordered pair): informative
SPECIFICATION Spec
CONSTANTS
  Symbols <- SmallSymbols
  Profiles <- SmallProfiles
  Combine = "comm"
  Forget <- NoForget
  Flatten = FALSE
  IgnoreSize = FALSE
  Emit = FALSE
INVARIANTS Injective OrderSensitive NestingSensitive
ALIAS Shown
CHECK_DEADLOCK FALSE
