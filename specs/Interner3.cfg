\* 3 threads, ONE type, 2 values, at most 2 handles per thread, vacuum at every step
SPECIFICATION Spec
CONSTANTS
  Threads = {t1, t2, t3}
  Types = {ty1}
  Values = {v1, v2}
  Allocs = {a1, a2, a3}
  IntAllocs = FALSE
  MaxHandles = 2
  PerValueShard = FALSE
  Mutation = "none"
  VacuumOn = TRUE
  CodecSeqs <- NoCodec
  CodecThreads <- NoThreads
SYMMETRY SymA
INVARIANTS TypeOK Canonical OneLivePerValue SlotTracksLive SlotContent StrongConsistent NoLeak DecodeOK
CHECK_DEADLOCK FALSE
