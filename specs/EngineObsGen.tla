---------------------------- MODULE EngineObsGen ----------------------------
(***************************************************************************)
(* Behaviour generator for spec -> implementation replay (S->I).           *)
(*                                                                         *)
(* The API-level part of EngineObs (sessions, input writes, refresh,       *)
(* commits, user queries, clean restarts) is explored by TLC over a family *)
(* of small programs (env FAMILY, ndjson, one program per line) within the *)
(* bounds below; `hist` is part of the state, so every distinct *history*  *)
(* is a distinct state and exhaustive exploration enumerates all bounded   *)
(* histories.  Each maximal history is printed as one JSON line            *)
(* {"prog":..., "actions":[...]} and replayed by harness/src/bin/eng_seq   *)
(* (--mode replay); the recorded execution is then validated against      *)
(* EngineObsTrace, whose invariants are the verdict.                       *)
(***************************************************************************)
EXTENDS Program, TLC, Json, IOUtils

CONSTANTS MaxEpochs,   \* input sessions after the initial one
          MaxSets,     \* set_input calls per session
          MaxQueries,  \* user queries per epoch
          Restarts     \* TRUE: a clean restart may be inserted between epochs

Family == ndJsonDeserialize(IOEnv.FAMILY)
Shard == atoi(IOEnv.SHARD)
Shards == atoi(IOEnv.SHARDS)

VARIABLES pi, epoch, insess, nsets, nq, refreshed, restarted, hist, done

vars == <<pi, epoch, insess, nsets, nq, refreshed, restarted, hist, done>>

P == Family[pi].prog
Nodes == 1..Len(P.nodes)
Inputs == {n \in Nodes : P.nodes[n].kind = "In"}
Exts == {n \in Nodes : P.nodes[n].kind = "Ex"}

RECURSIVE InitOps(_, _)
InitOps(p, i) ==
    IF i > Len(p.nodes) THEN <<>>
    ELSE (IF p.nodes[i].kind = "In" THEN <<[a |-> "set", n |-> i, v |-> 0]>>
          ELSE IF p.nodes[i].kind = "Ex" THEN <<[a |-> "world", n |-> i, v |-> 0]>>
          ELSE <<>>) \o InitOps(p, i + 1)

InitialSession(p) == <<[a |-> "begin"]>> \o InitOps(p, 1) \o <<[a |-> "commit"]>>

Init ==
    /\ pi \in {i \in 1..Len(Family) : i % Shards = Shard}
    /\ epoch = 0
    /\ insess = FALSE
    /\ nsets = 0
    /\ nq = 0
    /\ refreshed = FALSE
    /\ restarted = FALSE
    /\ hist = InitialSession(Family[pi].prog)
    /\ done = FALSE

Query(n) ==
    /\ ~insess /\ nq < MaxQueries /\ ~done
    /\ nq' = nq + 1
    /\ hist' = Append(hist, [a |-> "query", t |-> 0, n |-> n])
    /\ UNCHANGED <<pi, epoch, insess, nsets, refreshed, restarted, done>>

Begin ==
    /\ ~insess /\ epoch < MaxEpochs /\ ~done
    /\ insess' = TRUE
    /\ nsets' = 0
    /\ refreshed' = FALSE
    /\ hist' = Append(hist, [a |-> "begin"])
    /\ UNCHANGED <<pi, epoch, nq, restarted, done>>

Set(n, v) ==
    /\ insess /\ nsets < MaxSets /\ ~refreshed
    /\ nsets' = nsets + 1
    /\ hist' = Append(hist, [a |-> "set", n |-> n, v |-> v])
    /\ UNCHANGED <<pi, epoch, insess, nq, refreshed, restarted, done>>

(* The outside world changes and the session refreshes external inputs.    *)
WorldRefresh(n, v) ==
    /\ insess /\ ~refreshed
    /\ refreshed' = TRUE
    /\ hist' = hist \o <<[a |-> "world", n |-> n, v |-> v], [a |-> "refresh"]>>
    /\ UNCHANGED <<pi, epoch, insess, nsets, nq, restarted, done>>

(* ... or changes without a refresh (must stay invisible).                  *)
WorldOnly(n, v) ==
    /\ insess /\ ~refreshed
    /\ refreshed' = TRUE
    /\ hist' = Append(hist, [a |-> "world", n |-> n, v |-> v])
    /\ UNCHANGED <<pi, epoch, insess, nsets, nq, restarted, done>>

Commit ==
    /\ insess
    /\ insess' = FALSE
    /\ epoch' = epoch + 1
    /\ nq' = 0
    /\ restarted' = FALSE
    /\ hist' = Append(hist, [a |-> "commit"])
    /\ UNCHANGED <<pi, nsets, refreshed, done>>

Restart ==
    /\ Restarts /\ ~insess /\ ~restarted /\ ~done
    /\ restarted' = TRUE
    /\ hist' = Append(hist, [a |-> "restart"])
    /\ UNCHANGED <<pi, epoch, insess, nsets, nq, refreshed, done>>

Terminal == ~insess /\ epoch = MaxEpochs /\ nq = MaxQueries

Emit ==
    /\ Terminal /\ ~done
    /\ done' = TRUE
    /\ PrintT(ToJson([prog |-> P, actions |-> hist]))
    /\ UNCHANGED <<pi, epoch, insess, nsets, nq, refreshed, restarted, hist>>

Next ==
    \/ \E n \in Nodes : Query(n)
    \/ Begin
    \/ \E n \in Inputs, v \in 0..(P.m - 1) : Set(n, v)
    \/ \E n \in Exts, v \in 0..(P.m - 1) : WorldRefresh(n, v) \/ WorldOnly(n, v)
    \/ Commit
    \/ Restart
    \/ Emit

Spec == Init /\ [][Next]_vars
=============================================================================
