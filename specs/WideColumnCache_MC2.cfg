\* exhaustive, repaired fill (2 keys, values {absent,1}, 2 batches, 2 clients x 3 ops): all invariants hold
SPECIFICATION Spec
CONSTANTS
  Keys = {k1, k2}
  Vals = {1}
  Clients = {c1, c2}
  MaxBatches = 2
  MaxOps = 3
  StaleFill = FALSE
  FillOverwrite = FALSE
  NoNegativeEntry = FALSE
  Gen = FALSE
SYMMETRY Sym
VIEW view
INVARIANTS ReadYourWrites RememberedAbsence StoreCurrent CacheCurrent
CHECK_DEADLOCK FALSE
