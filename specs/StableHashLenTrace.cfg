\* C13 trace validation of recorded length encodings / composite streams.
SPECIFICATION TraceSpec
POSTCONDITION TraceAccepted
CHECK_DEADLOCK FALSE
