----------------------------- MODULE EngineObs -----------------------------
(***************************************************************************)
(* P-layer (observational) specification of the qbice engine.              *)
(*                                                                         *)
(* State is what a user of the public API can observe or controls:         *)
(* committed inputs, the writes of the open input session, the outside     *)
(* world read by external-input executors and the sample the engine holds  *)
(* of it, which tracked engines are alive, and for every query key the     *)
(* read-set of its last executor run.  The properties C01..C07 of          *)
(* /verif/properties.jsonl are stated over the API-level events only; any  *)
(* correct implementation, whatever its internals, refines this module.    *)
(*                                                                         *)
(* Every action is total: instead of being disabled when the observation   *)
(* contradicts the property it records a violation in `viol` and goes on,  *)
(* so that one trace yields all its violations (each carries the index of  *)
(* the event, the kind, and the expected/observed values).                 *)
(***************************************************************************)
EXTENDS Program, TLC

VARIABLES
    prog,       \* the program under test
    inputs,     \* node -> committed input value (None if never set)
    pend,       \* node -> value written by the open session (None if not)
    insess,     \* an input session is open
    refreshing, \* a refresh call is in progress
    world,      \* node -> outside-world value of external node
    sample,     \* node -> value the engine last sampled (None if never)
    pendSample, \* node -> sample taken by refresh in the open session
    epoch,      \* number of completed commits
    live,       \* tracked-engine slots alive
    snap,       \* slot -> inputs function when the slot was handed out
    lastRun,    \* node -> [has, reads] last complete executor run
    ran,        \* nodes executed since the last commit
    running,    \* nodes whose executor is currently between enter and exit
    tainted,    \* nodes whose next run needs no justification (a run was cut)
    viol,       \* sequence of violation records
    stats       \* counters of what was checked

obsVars == <<prog, inputs, pend, insess, refreshing, world, sample, pendSample,
             epoch, live, snap, lastRun, ran, running, tainted, viol, stats>>

N == Len(prog.nodes)
Ids == 1..N

NoneFn == [n \in Ids |-> None]

ZeroStats == [events |-> 0, queries |-> 0, reads |-> 0, execs |-> 0,
              sets |-> 0, commits |-> 0, restarts |-> 0, justified |-> 0,
              cyc |-> 0]

InitFor(p) ==
    /\ prog = p
    /\ inputs = [n \in 1..Len(p.nodes) |-> None]
    /\ pend = [n \in 1..Len(p.nodes) |-> None]
    /\ insess = FALSE
    /\ refreshing = FALSE
    /\ world = [n \in 1..Len(p.nodes) |-> 0]
    /\ sample = [n \in 1..Len(p.nodes) |-> None]
    /\ pendSample = [n \in 1..Len(p.nodes) |-> None]
    /\ epoch = 0
    /\ live = {}
    /\ snap = [t \in 0..3 |-> [n \in 1..Len(p.nodes) |-> None]]
    /\ lastRun = [n \in 1..Len(p.nodes) |-> [has |-> FALSE, reads |-> <<>>]]
    /\ ran = {}
    /\ running = {}
    /\ tainted = {}

(* Environment of source nodes under a given input snapshot.               *)
EnvOf(inp) ==
    [n \in Ids |-> IF prog.nodes[n].kind = "In" THEN inp[n]
                   ELSE IF prog.nodes[n].kind = "Ex" THEN sample[n]
                   ELSE None]

(* From-scratch values of every node under the committed inputs.           *)
ValNow == Valuation(prog, EnvOf(inputs))
ValAt(t) == Valuation(prog, EnvOf(snap[t]))

V(idx, kind, n, got, want) ==
    [at |-> idx, kind |-> kind, n |-> n, got |-> got, want |-> want, ep |-> epoch]

Bump(f) == [stats EXCEPT ![f] = @ + 1]

---------------------------------------------------------------------------
(* API-level actions.  `idx` is the position of the event (for reports).   *)

Begin(idx) ==
    /\ insess' = TRUE
    /\ pend' = NoneFn
    /\ pendSample' = NoneFn
    /\ viol' = IF insess THEN Append(viol, V(idx, "nested_session", 0, 0, 0))
               ELSE IF live # {} THEN Append(viol, V(idx, "session_with_live_reader", 0, 0, 0))
               ELSE viol
    /\ UNCHANGED <<prog, inputs, refreshing, world, sample, epoch, live, snap,
                   lastRun, ran, running, tainted, stats>>

(* C01: the result of set_input tells whether the stored value changed.    *)
SetResult(n, v) ==
    LET cur == IF pend[n] # None THEN pend[n] ELSE inputs[n]
    IN  IF cur = None THEN "Fresh" ELSE IF cur = v THEN "Unchanged" ELSE "Updated"

Set(idx, n, v, r) ==
    /\ pend' = [pend EXCEPT ![n] = v]
    /\ viol' = IF ~insess THEN Append(viol, V(idx, "set_outside_session", n, v, 0))
               ELSE IF r # SetResult(n, v)
                    THEN Append(viol, V(idx, "set_result", n, r, SetResult(n, v)))
               ELSE viol
    /\ stats' = Bump("sets")
    /\ UNCHANGED <<prog, inputs, insess, refreshing, world, sample, pendSample,
                   epoch, live, snap, lastRun, ran, running, tainted>>

World(idx, n, v) ==
    /\ world' = [world EXCEPT ![n] = v]
    /\ UNCHANGED <<prog, inputs, pend, insess, refreshing, sample, pendSample,
                   epoch, live, snap, lastRun, ran, running, tainted, viol, stats>>

RefreshStart(idx) ==
    /\ refreshing' = TRUE
    /\ UNCHANGED <<prog, inputs, pend, insess, world, sample, pendSample, epoch,
                   live, snap, lastRun, ran, running, tainted, viol, stats>>

(* After refresh() returned every external node that had been sampled      *)
(* before must have been re-sampled (its executor ran during the refresh).  *)
Refresh(idx) ==
    /\ refreshing' = FALSE
    /\ LET missed == {n \in Ids : prog.nodes[n].kind = "Ex" /\ sample[n] # None
                                  /\ pendSample[n] = None}
       IN viol' = IF missed # {}
                  THEN Append(viol, V(idx, "refresh_skipped_external", CHOOSE n \in missed : TRUE, 0, 0))
                  ELSE viol
    /\ UNCHANGED <<prog, inputs, pend, insess, world, sample, pendSample, epoch,
                   live, snap, lastRun, ran, running, tainted, stats>>

Commit(idx) ==
    /\ inputs' = [n \in Ids |-> IF pend[n] # None THEN pend[n] ELSE inputs[n]]
    /\ sample' = [n \in Ids |-> IF pendSample[n] # None THEN pendSample[n] ELSE sample[n]]
    /\ pend' = NoneFn
    /\ pendSample' = NoneFn
    /\ insess' = FALSE
    /\ refreshing' = FALSE
    /\ epoch' = epoch + 1
    /\ ran' = {}
    /\ viol' = IF ~insess THEN Append(viol, V(idx, "commit_outside_session", 0, 0, 0)) ELSE viol
    /\ stats' = Bump("commits")
    /\ UNCHANGED <<prog, world, live, snap, lastRun, running, tainted>>

Tracked(idx, t) ==
    /\ live' = live \cup {t}
    /\ snap' = [snap EXCEPT ![t] = inputs]
    /\ viol' = IF insess THEN Append(viol, V(idx, "reader_during_session", t, 0, 0)) ELSE viol
    /\ UNCHANGED <<prog, inputs, pend, insess, refreshing, world, sample,
                   pendSample, epoch, lastRun, ran, running, tainted, stats>>

DropTracked(idx, t) ==
    /\ live' = live \ {t}
    /\ UNCHANGED <<prog, inputs, pend, insess, refreshing, world, sample,
                   pendSample, epoch, snap, lastRun, ran, running, tainted, viol, stats>>

(* C01/C04: a value handed to the user equals the from-scratch value under *)
(* the inputs committed when the reader's tracked engine was handed out.   *)
Query(idx, t, n, v) ==
    /\ LET want == ValAt(t)[n] IN
       viol' = IF v # want THEN Append(viol, V(idx, "query_value", n, v, want)) ELSE viol
    /\ stats' = Bump("queries")
    /\ UNCHANGED <<prog, inputs, pend, insess, refreshing, world, sample,
                   pendSample, epoch, live, snap, lastRun, ran, running, tainted>>

(* C02: one query key is never executed by two executors at once.          *)
Enter(idx, n) ==
    /\ running' = running \cup {n}
    /\ viol' = IF n \in running THEN Append(viol, V(idx, "overlap", n, 0, 0)) ELSE viol
    /\ UNCHANGED <<prog, inputs, pend, insess, refreshing, world, sample,
                   pendSample, epoch, live, snap, lastRun, ran, stats, tainted>>

ReadsOf(n) == lastRun[n].reads

(* C03: a run is justified if the node never completed a run, or one of    *)
(* the dependency values it read last time is different now.               *)
Justified(n, val) ==
    \/ ~lastRun[n].has
    \/ n \in tainted
    \/ \E i \in 1..Len(ReadsOf(n)) : val[ReadsOf(n)[i][1]] # ReadsOf(n)[i][2]

BadReads(reads, val) ==
    {i \in 1..Len(reads) : val[reads[i][1]] # reads[i][2]}

(* A complete executor run of a non-external node.                         *)
ExecNormal(idx, n, reads, out) ==
    LET val == ValNow
        bad == BadReads(reads, val)
        v1  == IF bad # {}
               THEN LET i == CHOOSE i \in bad : \A j \in bad : i <= j
                    IN  Append(viol, V(idx, "read_value", reads[i][1], reads[i][2], val[reads[i][1]]))
               ELSE viol
        v2  == IF ~Justified(n, val) THEN Append(v1, V(idx, "unjustified_exec", n, 0, 0)) ELSE v1
        v3  == IF n \in ran THEN Append(v2, V(idx, "double_exec", n, 0, 0)) ELSE v2
        v4  == IF insess THEN Append(v3, V(idx, "exec_during_session", n, 0, 0)) ELSE v3
    IN  /\ viol' = v4
        /\ lastRun' = [lastRun EXCEPT ![n] = [has |-> TRUE, reads |-> reads]]
        /\ ran' = ran \cup {n}
        /\ running' = running \ {n}
        /\ tainted' = tainted \ {n}
        /\ stats' = [stats EXCEPT !.execs = @ + 1, !.reads = @ + Len(reads),
                                  !.justified = @ + (IF lastRun[n].has THEN 1 ELSE 0)]
        /\ UNCHANGED <<prog, inputs, pend, insess, refreshing, world, sample,
                       pendSample, epoch, live, snap>>

(* C03: an external-input executor runs only on first demand or refresh.   *)
ExecExternal(idx, n, out) ==
    /\ IF refreshing
       THEN /\ pendSample' = [pendSample EXCEPT ![n] = out]
            /\ sample' = sample
            /\ viol' = IF sample[n] = None
                       THEN Append(viol, V(idx, "refresh_of_unsampled_external", n, 0, 0))
                       ELSE IF out # world[n] THEN Append(viol, V(idx, "external_value", n, out, world[n]))
                       ELSE viol
       ELSE /\ sample' = [sample EXCEPT ![n] = out]
            /\ pendSample' = pendSample
            /\ viol' = IF sample[n] # None
                       THEN Append(viol, V(idx, "external_rerun_without_refresh", n, 0, 0))
                       ELSE IF out # world[n] THEN Append(viol, V(idx, "external_value", n, out, world[n]))
                       ELSE viol
    /\ running' = running \ {n}
    /\ stats' = Bump("execs")
    /\ UNCHANGED <<prog, inputs, pend, insess, refreshing, world, epoch, live,
                   snap, lastRun, ran, tainted>>

(* A run that was unwound (cycle payload, panic) or cancelled: it leaves   *)
(* no read-set behind, and the next run needs no justification.            *)
ExecCut(idx, n) ==
    /\ running' = running \ {n}
    /\ tainted' = tainted \cup {n}
    /\ lastRun' = [lastRun EXCEPT ![n] = [has |-> FALSE, reads |-> <<>>]]
    /\ stats' = Bump("cyc")
    /\ UNCHANGED <<prog, inputs, pend, insess, refreshing, world, sample,
                   pendSample, epoch, live, snap, ran, viol>>

(* C07: a clean restart changes nothing observable.                        *)
Restart(idx) ==
    /\ live' = {}
    /\ running' = {}
    /\ viol' = IF insess THEN Append(viol, V(idx, "restart_in_session", 0, 0, 0)) ELSE viol
    /\ stats' = Bump("restarts")
    /\ UNCHANGED <<prog, inputs, pend, insess, refreshing, world, sample,
                   pendSample, epoch, snap, lastRun, ran, tainted>>
=============================================================================
