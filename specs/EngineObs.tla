----------------------------- MODULE EngineObs -----------------------------
(***************************************************************************)
(* P-layer (observational) specification of the qbice engine.              *)
(*                                                                         *)
(* State is what a user of the public API can observe or controls:         *)
(* committed inputs, the writes of the open input session, the outside     *)
(* world read by external-input executors and the sample the engine holds  *)
(* of it, which tracked engines are alive, and for every query key the     *)
(* read-set of its last executor run.  The properties C01..C07 of          *)
(* /verif/properties.jsonl are stated over the API-level events only; any  *)
(* correct implementation, whatever its internals, refines this module.    *)
(*                                                                         *)
(* Every action is total: instead of being disabled when the observation   *)
(* contradicts the property it records a violation in `viol` and goes on,  *)
(* so that one trace yields all its violations (each carries the index of  *)
(* the event, the kind, and the expected/observed values).                 *)
(***************************************************************************)
EXTENDS Program, TLC

VARIABLES
    prog,       \* the program under test
    inputs,     \* node -> committed input value (None if never set)
    pend,       \* node -> value written by the open session (None if not)
    insess,     \* an input session is open
    refreshing, \* a refresh call is in progress
    world,      \* node -> outside-world value of external node
    sample,     \* node -> value the engine last sampled (None if never)
    pendSample, \* node -> sample taken by refresh in the open session
    epoch,      \* number of completed commits
    live,       \* tracked-engine slots alive
    snap,       \* slot -> inputs function when the slot was handed out
    lastRun,    \* node -> [has, reads] last complete executor run
    ran,        \* nodes executed since the last commit
    running,    \* nodes whose executor is currently between enter and exit
    tainted,    \* nodes whose next run needs no justification (a run was cut)
    outLast,    \* node -> output of its last complete run (None if none)
    outPrev,    \* node -> output of the complete run before that
    kfTaint,    \* node -> "" or the known finding that explains its stale value
                \* in this epoch
    nested,     \* nodes whose current/last run was entered inside another run
    topDone,    \* Fw/Pj nodes whose value-changing run completed at top level
                \* since the last user query returned
    kfHard,     \* node -> "" or the known finding that explains why its *stored*
                \* result is wrong: its last run consumed a stale value; this
                \* lasts until the node is re-executed
    spSeen,     \* projections that were stale-by-KF_PBP at some point of this epoch
    kfFw,       \* firewalls implicated in a KF_TFC root in this epoch
    mustCut,    \* nodes that the engine's own cycle search saw on the dependency cycle
                \* being closed: their executor run in progress must end cut short
    lagFw,      \* firewalls implicated in a KF_TFC_LAG root in this epoch
    ranAt,      \* node -> index of the event of its last complete run
    verAt,      \* node -> index of the event where it was last handed out
                \* (to the user or to an executor) or executed
    bpSkip,     \* Fw/Pj nodes whose last value change was not followed by
                \* backward projection propagation (KF_PBP call sites)
    armed,      \* node whose executor is armed to panic (None = none)
    fired,      \* the armed executor ran (and panicked) in the current request
    histIn,     \* sequence of committed input functions (one per commit)
    crashed,    \* the engine was reopened on a crash prefix of its store
    viol,       \* sequence of violation records
    stats       \* counters of what was checked

obsVars == <<prog, inputs, pend, insess, refreshing, world, sample, pendSample,
             epoch, live, snap, lastRun, ran, running, tainted, outLast, outPrev,
             kfTaint, nested, topDone, bpSkip, spSeen, kfFw, kfHard, mustCut, lagFw, ranAt, verAt, histIn, crashed,
             armed, fired,
             viol, stats>>

N == Len(prog.nodes)
Ids == 1..N

NoneFn == [n \in Ids |-> None]

ZeroStats == [events |-> 0, queries |-> 0, reads |-> 0, execs |-> 0,
              sets |-> 0, commits |-> 0, restarts |-> 0, justified |-> 0,
              cyc |-> 0, ambig |-> 0]

InitFor(p) ==
    /\ prog = p
    /\ inputs = [n \in 1..Len(p.nodes) |-> None]
    /\ pend = [n \in 1..Len(p.nodes) |-> None]
    /\ insess = FALSE
    /\ refreshing = FALSE
    /\ world = [n \in 1..Len(p.nodes) |-> 0]
    /\ sample = [n \in 1..Len(p.nodes) |-> None]
    /\ pendSample = [n \in 1..Len(p.nodes) |-> None]
    /\ epoch = 0
    /\ live = {}
    /\ snap = [t \in 0..15 |-> [n \in 1..Len(p.nodes) |-> None]]
    /\ lastRun = [n \in 1..Len(p.nodes) |-> [has |-> FALSE, reads |-> <<>>]]
    /\ ran = {}
    /\ running = {}
    /\ tainted = {}
    /\ outLast = [n \in 1..Len(p.nodes) |-> None]
    /\ outPrev = [n \in 1..Len(p.nodes) |-> None]
    /\ kfTaint = [n \in 1..Len(p.nodes) |-> ""]
    /\ nested = {}
    /\ topDone = {}
    /\ bpSkip = {}
    /\ spSeen = {}
    /\ kfFw = {}
    /\ kfHard = [n \in 1..Len(p.nodes) |-> ""]
    /\ lagFw = {}
    /\ mustCut = {}
    /\ ranAt = [n \in 1..Len(p.nodes) |-> 0]
    /\ verAt = [n \in 1..Len(p.nodes) |-> 0]
    /\ histIn = <<>>
    /\ crashed = FALSE
    /\ armed = None
    /\ fired = FALSE

(* Environment of source nodes under a given input snapshot.               *)
EnvOf(inp) ==
    [n \in Ids |-> IF prog.nodes[n].kind = "In" THEN inp[n]
                   ELSE IF prog.nodes[n].kind = "Ex" THEN sample[n]
                   ELSE None]

(* From-scratch values of every node under the committed inputs.           *)
ValFor(inp) == IF Acyclic(prog) THEN Valuation(prog, EnvOf(inp))
               ELSE CycValuation(prog, EnvOf(inp))
ValNow == ValFor(inputs)
ValAt(t) == ValFor(snap[t])
(* cyclic programs are judged only where the reference value is agreed (C06) *)
Judged(inp) == Acyclic(prog) \/ CycSimple(prog, EnvOf(inp))

VK(idx, kind, n, got, want, kf) ==
    [at |-> idx, kind |-> kind, n |-> n, got |-> got, want |-> want, ep |-> epoch, kf |-> kf,
     cr |-> crashed]
V(idx, kind, n, got, want) == VK(idx, kind, n, got, want, "")

(* ---- known-finding signatures (see /verif/known_findings.json) ---------*)
RECURSIVE Below(_, _)
Below(frontier, seen) ==
    LET nxt == (UNION {StaticDeps(prog, x) : x \in frontier}) \ seen
    IN  IF nxt = {} THEN seen ELSE Below(nxt, seen \cup nxt)
TransDeps(n) == Below({n}, {})

(* Firewalls that transitive-firewall repair did not bring up to date      *)
(* before executors started: either still out of date and not re-run in    *)
(* this epoch, or re-run (with a changed result) lazily from inside        *)
(* another executor's run.                                                 *)
PendingFirewalls(val) ==
    {f \in Ids : /\ prog.nodes[f].kind = "Fw" /\ outLast[f] # None
                 /\ \/ f \notin ran /\ outLast[f] # val[f]
                    \/ f \in ran /\ f \in nested /\ outPrev[f] # outLast[f]}

(* KF_TFC: a previously computed node d that was not re-executed in this   *)
(* epoch is handed, stale, to an *executing* query although a firewall     *)
(* below it has a pending change: query_for repairs transitive firewall    *)
(* callees only for user-level callers.                                    *)
KfTfc(d, val) ==
    /\ lastRun[d].has /\ d \notin ran
    /\ TransDeps(d) \cap PendingFirewalls(val) # {}

(* KF_PBP: a firewall/projection d was re-executed with a changed value by *)
(* a caller that is not a transitive-firewall repair (a direct user query  *)
(* of d, or a dependency read of an executing query): the pending backward *)
(* projection is recorded but never honoured (never in a later epoch), so  *)
(* a projection P that read d keeps its old result and the callers of P    *)
(* are never invalidated.                                                  *)
StaleProj(ranS, lastRunS, outLastS, bpSkipS) ==
    {P \in Ids : /\ prog.nodes[P].kind = "Pj" /\ P \notin ranS /\ lastRunS[P].has
                 /\ \E i \in 1..Len(lastRunS[P].reads) :
                       LET d == lastRunS[P].reads[i][1] IN
                       d \in bpSkipS /\ outLastS[d] # lastRunS[P].reads[i][2]}
(* spSeen accumulates StaleProj over the epoch (a projection may have been  *)
(* re-run by the time the stale value of a caller is handed out).           *)
KfPbp(x) == (TransDeps(x) \cup {x}) \cap spSeen # {}

(* Which known finding, if any, explains a stale value of node d handed to *)
(* an executing query (dependency read).                                   *)
Taint(y) == IF kfTaint[y] # "" THEN kfTaint[y] ELSE kfHard[y]
Inherited(d) ==
    LET tainted_below == {y \in TransDeps(d) : Taint(y) # ""}
    IN  \* d was verified against a dependency whose stored value is itself
        \* explained by a known finding
        IF tainted_below # {} THEN Taint(CHOOSE y \in tainted_below : TRUE) ELSE ""

(* d was verified unchanged in an operation that met a KF_TFC root below a *)
(* firewall it also depends on.                                            *)
KfTfcEpoch(d) == d \notin ran /\ TransDeps(d) \cap kfFw # {}

(* KF_TFC_LAG: the set of transitive firewall callees recorded for a node  *)
(* X is brought up to date only when X itself is re-verified.  If a node y *)
(* below X was re-executed after X was last verified and now reaches a     *)
(* firewall f (through the dependencies it read), f is missing from the    *)
(* set recorded at X until X is verified again: a user-level request of X  *)
(* does not repair f first and hands out X's old value although f has a    *)
(* pending change.                                                         *)
DynDeps(x) == IF lastRun[x].has THEN {lastRun[x].reads[i][1] : i \in 1..Len(lastRun[x].reads)}
              ELSE StaticDeps(prog, x)
RECURSIVE DynBelow(_, _)
DynBelow(frontier, seen) ==
    LET nxt == (UNION {DynDeps(x) : x \in frontier}) \ seen
    IN  IF nxt = {} THEN seen ELSE DynBelow(nxt, seen \cup nxt)
DynClosure(n) == DynBelow({n}, {})
LagFirewalls(x, val) ==
    UNION {(DynClosure(y) \cup {y}) \cap PendingFirewalls(val) :
           y \in {z \in DynClosure(x) : ranAt[z] > verAt[x]}}
KfTfcLag(x, val) ==
    /\ lastRun[x].has /\ x \notin ran
    /\ LagFirewalls(x, val) # {}
(* d was verified unchanged in an operation that met a KF_TFC_LAG root     *)
KfLagEpoch(d) == d \notin ran /\ TransDeps(d) \cap lagFw # {}

KfOf(d, val) ==
    IF Taint(d) # "" THEN Taint(d)
    ELSE IF KfTfc(d, val) THEN "KF_TFC"
    ELSE IF KfPbp(d) THEN "KF_PBP"
    ELSE IF KfTfcEpoch(d) THEN "KF_TFC"
    ELSE IF Inherited(d) # "" THEN Inherited(d)
    ELSE IF KfLagEpoch(d) THEN "KF_TFC_LAG"
    ELSE ""

(* ... and of a stale value handed to the user.  KF_TFC never applies to a *)
(* user-level request directly (user-level callers do repair transitive    *)
(* firewall callees): only through a node tainted earlier in the epoch.    *)
KfOfUser(d, val) ==
    IF Taint(d) # "" THEN Taint(d)
    ELSE IF KfPbp(d) THEN "KF_PBP"
    ELSE IF KfTfcEpoch(d) THEN "KF_TFC"
    ELSE IF Inherited(d) # "" THEN Inherited(d)
    ELSE IF KfTfcLag(d, val) \/ KfLagEpoch(d) THEN "KF_TFC_LAG"
    ELSE ""

(* KF_BP: backward projection propagation re-executes a projection         *)
(* unconditionally when a firewall/projection it read was re-run in this   *)
(* epoch with a result different from that callee's own previous run, even *)
(* if the value equals what the projection saw in its last run (A->B->A).  *)
KfBp(n) ==
    /\ prog.nodes[n].kind = "Pj"
    /\ \E i \in 1..Len(lastRun[n].reads) :
          LET d == lastRun[n].reads[i][1] IN
          d \in ran /\ outPrev[d] # outLast[d]

Bump(f) == [stats EXCEPT ![f] = @ + 1]

---------------------------------------------------------------------------
(* API-level actions.  `idx` is the position of the event (for reports).   *)

sessVars == <<inputs, pend, insess, refreshing, sample, pendSample, epoch>>
rdrVars  == <<live, snap>>
runVars  == <<lastRun, ran, running, tainted, outLast, outPrev>>
kfVars   == <<kfTaint, nested, topDone, bpSkip, spSeen, kfFw, kfHard, mustCut, lagFw, ranAt, verAt>>
crVars   == <<histIn, crashed, armed, fired>>

Begin(idx) ==
    /\ insess' = TRUE
    /\ pend' = NoneFn
    /\ pendSample' = NoneFn
    /\ viol' = IF insess THEN Append(viol, V(idx, "nested_session", 0, 0, 0))
               ELSE IF live # {} THEN Append(viol, V(idx, "session_with_live_reader", 0, 0, 0))
               ELSE viol
    /\ UNCHANGED <<prog, inputs, refreshing, world, sample, epoch, rdrVars,
                   runVars, kfVars, stats, crVars>>

(* C01: the result of set_input tells whether the stored value changed.    *)
SetResult(n, v) ==
    LET cur == IF pend[n] # None THEN pend[n] ELSE inputs[n]
    IN  IF cur = None THEN "Fresh" ELSE IF cur = v THEN "Unchanged" ELSE "Updated"

Set(idx, n, v, r) ==
    /\ pend' = [pend EXCEPT ![n] = v]
    /\ viol' = IF ~insess THEN Append(viol, V(idx, "set_outside_session", n, v, 0))
               \* (setting an executable node - "pinning" it as an input - reports relative to its stored
               \* result, which is mechanism state: only sets of declared inputs are judged)
               ELSE IF prog.nodes[n].kind = "In" /\ r # SetResult(n, v)
                    THEN Append(viol, V(idx, "set_result", n, r, SetResult(n, v)))
               ELSE viol
    /\ stats' = Bump("sets")
    /\ UNCHANGED <<prog, inputs, insess, refreshing, world, sample, pendSample,
                   epoch, rdrVars, runVars, kfVars, crVars>>

World(idx, n, v) ==
    /\ world' = [world EXCEPT ![n] = v]
    /\ UNCHANGED <<prog, sessVars, rdrVars, runVars, kfVars, viol, stats, crVars>>

RefreshStart(idx) ==
    /\ refreshing' = TRUE
    /\ UNCHANGED <<prog, inputs, pend, insess, world, sample, pendSample, epoch,
                   rdrVars, runVars, kfVars, viol, stats, crVars>>

(* After refresh() returned every external node that had been sampled      *)
(* before must have been re-sampled (its executor ran during the refresh).  *)
Refresh(idx) ==
    /\ refreshing' = FALSE
    /\ LET missed == {n \in Ids : prog.nodes[n].kind = "Ex" /\ sample[n] # None
                                  /\ pendSample[n] = None}
       IN viol' = IF missed # {}
                  THEN Append(viol, V(idx, "refresh_skipped_external", CHOOSE n \in missed : TRUE, 0, 0))
                  ELSE viol
    /\ UNCHANGED <<prog, inputs, pend, insess, world, sample, pendSample, epoch,
                   rdrVars, runVars, kfVars, stats, crVars>>

(* An executable node that was given a value in the session is an input from the commit on     *)
(* (set_input on a query that an executor computed so far): the program changes.                *)
Pinned(p, pe) ==
    [p EXCEPT !.nodes = [n \in DOMAIN p.nodes |->
        IF pe[n] # None /\ p.nodes[n].kind \notin {"In", "Ex"}
        THEN [p.nodes[n] EXCEPT !.kind = "In", !.code = <<>>] ELSE p.nodes[n]]]

Commit(idx) ==
    /\ prog' = IF \E n \in Ids : pend[n] # None /\ prog.nodes[n].kind \notin {"In", "Ex"} THEN Pinned(prog, pend) ELSE prog
    /\ inputs' = [n \in Ids |-> IF pend[n] # None THEN pend[n] ELSE inputs[n]]
    /\ sample' = [n \in Ids |-> IF pendSample[n] # None THEN pendSample[n] ELSE sample[n]]
    /\ pend' = NoneFn
    /\ pendSample' = NoneFn
    /\ insess' = FALSE
    /\ refreshing' = FALSE
    /\ epoch' = epoch + 1
    /\ ran' = {}
    /\ kfTaint' = [n \in Ids |-> ""]
    /\ viol' = IF ~insess THEN Append(viol, V(idx, "commit_outside_session", 0, 0, 0)) ELSE viol
    /\ stats' = Bump("commits")
    /\ spSeen' = StaleProj({}, lastRun, outLast, bpSkip)
    /\ kfFw' = {} /\ lagFw' = {}
    /\ histIn' = IF crashed THEN histIn
                 ELSE Append(histIn, [n \in Ids |-> IF pend[n] # None THEN pend[n] ELSE inputs[n]])
    /\ crashed' = crashed
    /\ mustCut' = {}      \* obligations do not outlive the epoch
    /\ UNCHANGED <<world, rdrVars, lastRun, running, tainted, outLast, outPrev,
                   nested, topDone, bpSkip, kfHard, ranAt, verAt, armed, fired>>

Tracked(idx, t) ==
    /\ live' = live \cup {t}
    /\ snap' = [snap EXCEPT ![t] = inputs]
    /\ viol' = IF insess THEN Append(viol, V(idx, "reader_during_session", t, 0, 0)) ELSE viol
    /\ UNCHANGED <<prog, sessVars, world, runVars, kfVars, stats, crVars>>

DropTracked(idx, t) ==
    /\ live' = live \ {t}
    /\ UNCHANGED <<prog, sessVars, world, snap, runVars, kfVars, viol, stats, crVars>>

(* C01/C04: a value handed to the user equals the from-scratch value under *)
(* the inputs committed when the reader's tracked engine was handed out.   *)
Query(idx, t, n, v) ==
    /\ LET want == ValAt(t)[n]
           label == IF v # want THEN KfOfUser(n, ValNow) ELSE ""
       IN /\ viol' = IF armed # None /\ fired
                     THEN Append(viol, V(idx, "panic_swallowed", n, 0, 0))
                     ELSE IF v # want /\ Judged(snap[t])
                     THEN Append(viol, VK(idx, "query_value", n, v, want, label))
                     ELSE viol
          \* n stays verified with this value for the rest of the epoch
          /\ kfTaint' = IF label # "" /\ kfTaint[n] = ""
                        THEN [kfTaint EXCEPT ![n] = label] ELSE kfTaint
    /\ stats' = [stats EXCEPT !.queries = @ + 1,
                              !.ambig = @ + (IF Judged(snap[t]) THEN 0 ELSE 1)]
    \* a firewall/projection whose changing run was the user's own direct
    \* query gets no backward projection propagation (KF_PBP call site)
    /\ bpSkip' = IF n \in topDone THEN bpSkip \cup {n} ELSE bpSkip
    /\ topDone' = {}
    /\ spSeen' = spSeen \cup StaleProj(ran, lastRun, outLast, bpSkip')
    /\ verAt' = [verAt EXCEPT ![n] = idx]
    /\ lagFw' = IF v # ValAt(t)[n] /\ KfTfcLag(n, ValNow) THEN lagFw \cup LagFirewalls(n, ValNow) ELSE lagFw
    /\ UNCHANGED <<prog, sessVars, world, rdrVars, runVars, nested, kfFw, kfHard, mustCut, ranAt, crVars>>

(* C02: one query key is never executed by two executors at once.          *)
Enter(idx, n) ==
    /\ running' = running \cup {n}
    /\ viol' = IF n \in running THEN Append(viol, V(idx, "overlap", n, 0, 0)) ELSE viol
    /\ nested' = IF running # {} THEN nested \cup {n} ELSE nested \ {n}
    /\ UNCHANGED <<prog, sessVars, world, rdrVars, lastRun, ran, tainted,
                   outLast, outPrev, kfTaint, topDone, bpSkip, spSeen, kfFw, kfHard, mustCut, lagFw, ranAt, verAt, stats, crVars>>

ReadsOf(n) == lastRun[n].reads

(* C03: a run is justified if the node never completed a run, or one of    *)
(* the dependency values it read last time is different now.               *)
Justified(n, val) ==
    \/ ~lastRun[n].has
    \/ n \in tainted
    \* cyclic program whose reference valuation is not defined (not CycSimple): `val` says
    \* nothing about the values the engine legitimately hands out, the run is not judged
    \/ ~Judged(inputs)
    \/ \E i \in 1..Len(ReadsOf(n)) : val[ReadsOf(n)[i][1]] # ReadsOf(n)[i][2]

BadReads(reads, val) ==
    {i \in 1..Len(reads) : val[reads[i][1]] # reads[i][2]}

(* C01: a dependency read hands the executor the from-scratch value.  The  *)
(* check is made the moment the value is handed over.                      *)
Read(idx, n, d, v) ==
    LET val == ValNow
        bad == v # val[d] /\ Judged(inputs)
        label == IF bad THEN KfOf(d, val) ELSE ""
    IN  /\ viol' = IF bad THEN Append(viol, VK(idx, "read_value", d, v, val[d], label)) ELSE viol
        /\ kfTaint' = IF bad /\ label # ""
                      THEN [x \in Ids |-> IF x \in {n, d} /\ kfTaint[x] = "" THEN label ELSE kfTaint[x]]
                      ELSE kfTaint
        /\ kfFw' = IF bad /\ KfTfc(d, val)
                    THEN kfFw \cup (TransDeps(d) \cap PendingFirewalls(val)) ELSE kfFw
        /\ stats' = Bump("reads")
        /\ verAt' = [verAt EXCEPT ![d] = idx]
        /\ UNCHANGED <<prog, sessVars, world, rdrVars, runVars, nested, topDone, bpSkip, spSeen, kfHard, mustCut, lagFw, ranAt, crVars>>

(* A complete executor run of a non-external node.                         *)
ExecNormal(idx, n, reads, out) ==
    LET val == ValNow
        changed == lastRun[n].has /\ outLast[n] # out
        isFw == prog.nodes[n].kind \in {"Fw", "Pj"}
        v2  == IF ~Justified(n, val)
               THEN Append(viol, VK(idx, "unjustified_exec", n, 0, 0,
                                  IF KfBp(n) THEN "KF_BP"
                                  ELSE kfTaint[n]))  \* re-run caused by a stale read
               ELSE viol
        v3  == IF n \in ran THEN Append(v2, V(idx, "double_exec", n, 0, 0)) ELSE v2
        v4  == IF insess THEN Append(v3, V(idx, "exec_during_session", n, 0, 0)) ELSE v3
        \* a node that was committed as an input is never executed again
        v5  == IF prog.nodes[n].kind = "In"
               THEN Append(v4, V(idx, "read_value", n, out, val[n]))
               ELSE IF BadReads(reads, val) = {} /\ out # Eval(prog, n, val).out
               THEN Append(v4, V(idx, "harness_executor_output", n, out, Eval(prog, n, val).out)) ELSE v4
        \* C06: the cycle search saw this node on the cycle that was being closed, yet its
        \* executor run completed and published an ordinary result
        v6  == IF n \in mustCut THEN Append(v5, V(idx, "cycle_member_completed", n, out, 0)) ELSE v5
    IN  /\ viol' = v6
        /\ mustCut' = mustCut \ {n}
        /\ lastRun' = [lastRun EXCEPT ![n] = [has |-> TRUE, reads |-> reads]]
        /\ ran' = ran \cup {n}
        /\ running' = running \ {n}
        /\ tainted' = tainted \ {n}
        /\ outPrev' = [outPrev EXCEPT ![n] = outLast[n]]
        /\ outLast' = [outLast EXCEPT ![n] = out]
        /\ bpSkip' = IF isFw /\ changed
                     THEN (IF n \in nested THEN bpSkip \cup {n} ELSE bpSkip \ {n})
                     ELSE bpSkip
        /\ topDone' = IF isFw /\ changed /\ n \notin nested THEN topDone \cup {n} ELSE topDone
        /\ spSeen' = spSeen \cup StaleProj(ran', lastRun', outLast', bpSkip')
        /\ stats' = [stats EXCEPT !.execs = @ + 1,
                                  !.justified = @ + (IF lastRun[n].has THEN 1 ELSE 0)]
        \* the run consumed a stale value (marked by Read) or not
        /\ kfHard' = [kfHard EXCEPT ![n] = IF BadReads(reads, val) # {} THEN kfTaint[n] ELSE ""]
        /\ ranAt' = [ranAt EXCEPT ![n] = idx]
        /\ verAt' = [verAt EXCEPT ![n] = idx]
        /\ UNCHANGED <<prog, sessVars, world, rdrVars, kfTaint, nested, kfFw, lagFw, crVars>>

(* C03: an external-input executor runs only on first demand or refresh.   *)
ExecExternal(idx, n, out) ==
    /\ IF refreshing
       THEN /\ pendSample' = [pendSample EXCEPT ![n] = out]
            /\ sample' = sample
            /\ viol' = IF sample[n] = None
                       THEN Append(viol, V(idx, "refresh_of_unsampled_external", n, 0, 0))
                       ELSE IF out # world[n] THEN Append(viol, V(idx, "external_value", n, out, world[n]))
                       ELSE viol
       ELSE /\ sample' = [sample EXCEPT ![n] = out]
            /\ pendSample' = pendSample
            /\ viol' = IF sample[n] # None
                       THEN Append(viol, V(idx, "external_rerun_without_refresh", n, 0, 0))
                       ELSE IF out # world[n] THEN Append(viol, V(idx, "external_value", n, out, world[n]))
                       ELSE viol
    /\ running' = running \ {n}
    /\ stats' = Bump("execs")
    /\ UNCHANGED <<prog, inputs, pend, insess, refreshing, world, epoch, rdrVars,
                   lastRun, ran, tainted, outLast, outPrev, kfVars, crVars>>

(* A run that was unwound (cycle payload, panic) or cancelled: it leaves   *)
(* no read-set behind, and the next run needs no justification.            *)
ExecCut(idx, n) ==
    /\ running' = running \ {n}
    /\ tainted' = tainted \cup {n}
    /\ lastRun' = [lastRun EXCEPT ![n] = [has |-> FALSE, reads |-> <<>>]]
    /\ stats' = Bump("cyc")
    /\ fired' = (fired \/ n = armed)
    /\ mustCut' = mustCut \ {n}
    /\ UNCHANGED <<prog, sessVars, world, rdrVars, ran, outLast, outPrev, kfTaint, nested, topDone, bpSkip,
                   spSeen, kfFw, kfHard, lagFw, ranAt, verAt, viol, histIn, crashed, armed>>

(* C07: a clean restart changes nothing observable.                        *)
Restart(idx) ==
    /\ live' = {}
    /\ running' = {}
    /\ viol' = IF insess THEN Append(viol, V(idx, "restart_in_session", 0, 0, 0)) ELSE viol
    /\ stats' = Bump("restarts")
    /\ UNCHANGED <<prog, sessVars, world, snap, lastRun, ran, tainted, outLast,
                   outPrev, kfVars, crVars>>
(* C08: the process died; a new engine was opened on a prefix of the       *)
(* physical commits.  Nothing is known about what it remembers, so every   *)
(* executor run is justified from here on.                                 *)
Crash(idx) ==
    /\ crashed' = TRUE
    /\ histIn' = histIn
    /\ armed' = None /\ fired' = FALSE
    /\ insess' = FALSE /\ refreshing' = FALSE
    /\ pend' = NoneFn /\ pendSample' = NoneFn
    /\ sample' = NoneFn
    /\ live' = {} /\ running' = {} /\ ran' = {}
    /\ tainted' = Ids
    /\ lastRun' = [n \in Ids |-> [has |-> FALSE, reads |-> <<>>]]
    /\ outLast' = NoneFn /\ outPrev' = NoneFn
    /\ kfTaint' = [n \in Ids |-> ""] /\ kfHard' = [n \in Ids |-> ""]
    /\ nested' = {} /\ topDone' = {} /\ bpSkip' = {} /\ spSeen' = {} /\ kfFw' = {}
    /\ ranAt' = [n \in Ids |-> 0] /\ verAt' = [n \in Ids |-> 0] /\ lagFw' = {} /\ mustCut' = {}
    /\ stats' = Bump("restarts")
    /\ UNCHANGED <<prog, inputs, world, epoch, snap, viol>>

Absent == -100

(* The inputs the reopened engine shows must be those of some committed    *)
(* session (or nothing at all, before the first session became durable).   *)
Recovered(idx, obs) ==
    LET f == [n \in Ids |-> IF \E i \in 1..Len(obs) : obs[i][1] = n
                            THEN obs[CHOOSE i \in 1..Len(obs) : obs[i][1] = n][2]
                            ELSE None]
        present == {n \in Ids : f[n] # None /\ f[n] # Absent}
        \* an absent input was probed by the harness, which makes the engine
        \* remember the probe's placeholder value for it
        asInputs == [n \in Ids |-> IF n \in present THEN f[n]
                                   ELSE IF prog.nodes[n].kind = "In" THEN Absent ELSE None]
        asCommitted == [n \in Ids |-> IF n \in present THEN f[n] ELSE None]
        ok == \/ present = {}
              \/ \E e \in 1..Len(histIn) : histIn[e] = asCommitted
    IN  /\ inputs' = asInputs
        /\ viol' = IF ok THEN viol
                   ELSE Append(viol, V(idx, "recovered_inputs_not_a_committed_state", 0, 0, 0))
        /\ UNCHANGED <<prog, pend, insess, refreshing, world, sample, pendSample, epoch,
                       rdrVars, runVars, kfVars, crVars, stats>>

(* C06: the engine's cycle search (observed through the cfg-guarded hook:   *)
(* the computing queries reachable from `callee`, each with the callees it  *)
(* had registered, and the answer).  `target` requesting `callee` closes a  *)
(* dependency cycle iff `callee` reaches `target` in that graph; the        *)
(* answer must say so, and then every recorded query that reaches `target`  *)
(* (and `target` itself) lies on the cycle: its executor run in progress    *)
(* must be cut short (it evaluates to its cycle default), whatever order    *)
(* the search visited them in.                                              *)
CycEdgeFn(edges) == [x \in {edges[i][1] : i \in 1..Len(edges)} |->
                        LET i == CHOOSE j \in 1..Len(edges) : edges[j][1] = x
                        IN  {edges[i][2][k] : k \in 1..Len(edges[i][2])}]
RECURSIVE CycReach(_, _, _)
CycReach(ef, frontier, seen) ==
    LET nxt == (UNION {IF x \in DOMAIN ef THEN ef[x] ELSE {} : x \in frontier}) \ seen
    IN  IF nxt = {} THEN seen ELSE CycReach(ef, nxt, seen \cup nxt)
CycProbe(idx, callee, target, edges, found) ==
    LET ef == CycEdgeFn(edges)
        onPath == {x \in DOMAIN ef : target \in CycReach(ef, {x}, {})}
        cyc == callee \in onPath
    IN  /\ viol' = IF found # cyc
                   THEN Append(viol, V(idx, "cycle_search_wrong_answer", callee, IF found THEN 1 ELSE 0, IF cyc THEN 1 ELSE 0))
                   ELSE viol
        \* the obligation is attached to the executor runs in flight: a query on the path that is only being
        \* re-verified (repair) has no executor to cut, and if the request is abandoned it never gets one
        /\ mustCut' = IF cyc THEN mustCut \cup ((onPath \cup {target}) \cap running) ELSE mustCut
        /\ UNCHANGED <<prog, sessVars, world, rdrVars, runVars, kfTaint, nested, topDone, bpSkip, spSeen, kfFw,
                       kfHard, lagFw, ranAt, verAt, crVars, stats>>

(* C02/C04/C05/C06: every request completes.                              *)
Hang(idx) ==
    /\ viol' = Append(viol, V(idx, "no_progress", 0, 0, 0))
    /\ UNCHANGED <<prog, sessVars, world, rdrVars, runVars, kfVars, crVars, stats>>

(* C05: a panic reaches the caller only if an executor panicked.            *)
QueryPanicked(idx, n) ==
    /\ viol' = IF armed # None /\ fired THEN viol
               ELSE Append(viol, V(idx, "query_panicked", n, 0, 0))
    /\ fired' = FALSE
    /\ UNCHANGED <<prog, sessVars, world, rdrVars, runVars, kfVars, histIn, crashed, armed, stats>>

Arm(idx, n) ==
    /\ armed' = n /\ fired' = FALSE
    /\ UNCHANGED <<prog, sessVars, world, rdrVars, runVars, kfVars, histIn, crashed, viol, stats>>

Disarm(idx) ==
    /\ armed' = None /\ fired' = FALSE
    /\ UNCHANGED <<prog, sessVars, world, rdrVars, runVars, kfVars, histIn, crashed, viol, stats>>

(* the user dropped a request (or commit) future before it completed        *)
Cancelled(idx) ==
    /\ stats' = Bump("restarts")
    /\ UNCHANGED <<prog, sessVars, world, rdrVars, runVars, kfVars, crVars, viol>>

CrashPanic(idx) ==
    /\ viol' = Append(viol, V(idx, "crash_open_panic", 0, 0, 0))
    /\ UNCHANGED <<prog, sessVars, world, rdrVars, runVars, kfVars, crVars, stats>>
=============================================================================
