--------------------------- MODULE StableHashLenTrace ---------------------------
(***************************************************************************)
(* C13 - trace validation of the bytes the REAL code writes for length     *)
(* prefixes and for composite values (recorded by harness/src/bin/         *)
(* hash_replay.rs --lens with the recording StableHasher, which does NOT   *)
(* override `write_length_prefix`: the bytes come out of the trait's       *)
(* default method of the tree under test).                                 *)
(*                                                                         *)
(* The trace (ndjson, environment variable TRACE) has two kinds of events: *)
(*   {"e":"len","n":"255","src":"call","enc":[255,0,0,0,0,0,0,0]}         *)
(*       the bytes written for the length n (decimal string: 2^32 does not *)
(*       fit TLC's integers; lengths are only compared for equality).      *)
(*       src = call: a bare write_length_prefix(n); vec_u8 / string /      *)
(*       vec_u16: stream of a real value of n elements minus its payload   *)
(*   {"e":"val","ty":"len:pair_vec_u8","abs":"<content>","s":[...]}        *)
(*       the whole byte stream of a real composite value; `abs` is its     *)
(*       content (equal abs <=> equal value)                               *)
(*                                                                         *)
(* One event is consumed per step and compared with ALL earlier events of  *)
(* its kind, so every pair is looked at once.  Requirements (the ones of   *)
(* StableHashLenCode.tla, now on recorded bytes):                          *)
(*   not_prefix_code       Enc(n) is a prefix of Enc(m), n # m             *)
(*                         (`short` / `long` = trace indices)              *)
(*   length_not_a_function two recordings of one n differ                  *)
(*   ambiguous_stream      two different values of one type, one stream    *)
(*   unstable_stream       one value, two streams                          *)
(*   stream_prefix         the stream of a value is a proper prefix of the *)
(*                         stream of another value of the type             *)
(*   malformed             not a byte                                      *)
(* Every step is total: violations are collected, the trace is always      *)
(* consumed; the result goes to env OUT as JSON.  checks/c13.py turns      *)
(* `ambiguous_stream` into a VIOLATION (two unequal real values, one byte  *)
(* stream, equal 128-bit hashes); `not_prefix_code` is the mechanism-level *)
(* cause for which the harness constructs the colliding values.            *)
(***************************************************************************)
EXTENDS Integers, Sequences, FiniteSets, TLC, Json, IOUtils

VARIABLES l, viol, stats, done
vars == <<l, viol, stats, done>>

Rec == ndJsonDeserialize(IOEnv.TRACE)
N == Len(Rec)

IsPrefix(s, t) == Len(s) <= Len(t) /\ SubSeq(t, 1, Len(s)) = s
Bytes(s) == \A i \in DOMAIN s : s[i] \in 0..255

Init == /\ l = 1
        /\ viol = {}
        /\ stats = [lens |-> 0, vals |-> 0, len_pairs |-> 0, val_pairs |-> 0]
        /\ done = FALSE

Ev == Rec[l]
Earlier(kind) == {k \in 1..(l - 1) : Rec[k].e = kind}

LenStep ==
    /\ l <= N /\ Ev.e = "len"
    /\ LET prev == Earlier("len")
           same == {k \in prev : Rec[k].n = Ev.n}
           diff == prev \ same
       IN /\ viol' = viol
                \cup {[kind |-> "length_not_a_function", short |-> k, long |-> l] :
                          k \in {k \in same : Rec[k].enc # Ev.enc}}
                \cup {[kind |-> "not_prefix_code", short |-> k, long |-> l] :
                          k \in {k \in diff : IsPrefix(Rec[k].enc, Ev.enc)}}
                \cup {[kind |-> "not_prefix_code", short |-> l, long |-> k] :
                          k \in {k \in diff : IsPrefix(Ev.enc, Rec[k].enc) /\ Ev.enc # Rec[k].enc}}
                \cup (IF Bytes(Ev.enc) THEN {} ELSE {[kind |-> "malformed", short |-> l, long |-> l]})
          /\ stats' = [stats EXCEPT !.lens = @ + 1, !.len_pairs = @ + Cardinality(diff)]
    /\ l' = l + 1 /\ UNCHANGED done

ValStep ==
    /\ l <= N /\ Ev.e = "val"
    /\ LET prev == {k \in Earlier("val") : Rec[k].ty = Ev.ty}
           other == {k \in prev : Rec[k].abs # Ev.abs}
       IN /\ viol' = viol
                \cup {[kind |-> "ambiguous_stream", short |-> k, long |-> l] :
                          k \in {k \in other : Rec[k].s = Ev.s}}
                \cup {[kind |-> "unstable_stream", short |-> k, long |-> l] :
                          k \in {k \in prev \ other : Rec[k].s # Ev.s}}
                \cup {[kind |-> "stream_prefix", short |-> k, long |-> l] :
                          k \in {k \in other : Rec[k].s # Ev.s /\ IsPrefix(Rec[k].s, Ev.s)}}
                \cup {[kind |-> "stream_prefix", short |-> l, long |-> k] :
                          k \in {k \in other : Rec[k].s # Ev.s /\ IsPrefix(Ev.s, Rec[k].s)}}
                \cup (IF Bytes(Ev.s) THEN {} ELSE {[kind |-> "malformed", short |-> l, long |-> l]})
          /\ stats' = [stats EXCEPT !.vals = @ + 1, !.val_pairs = @ + Cardinality(other)]
    /\ l' = l + 1 /\ UNCHANGED done

Unknown ==
    /\ l <= N /\ Ev.e \notin {"len", "val"}
    /\ viol' = viol \cup {[kind |-> "malformed", short |-> l, long |-> l]}
    /\ l' = l + 1 /\ UNCHANGED <<stats, done>>

Finish ==
    /\ l = N + 1 /\ ~done
    /\ JsonSerialize(IOEnv.OUT, [events |-> N, stats |-> stats, viol |-> viol])
    /\ done' = TRUE
    /\ UNCHANGED <<l, viol, stats>>

Next == LenStep \/ ValStep \/ Unknown \/ Finish
TraceSpec == Init /\ [][Next]_vars

TraceAccepted ==
    LET d == TLCGet("stats").diameter IN
    IF d >= N + 2 THEN TRUE
    ELSE Print(<<"TRACE NOT CONSUMED: stopped before event", d, "of", N>>, FALSE)
=============================================================================
