\* C14 AS CODED: same-named types local to two functions of one module share their leaf (KF_C14_LOCAL_TYPES) - FAILS
SPECIFICATION Spec
CONSTANTS
  Symbols <- LocalSymbols
  Profiles <- LocalProfiles
  Combine = "free"
  Forget <- NoForget
  Flatten = FALSE
  IgnoreSize = FALSE
  Emit = FALSE
INVARIANTS Injective
ALIAS Shown
CHECK_DEADLOCK FALSE
