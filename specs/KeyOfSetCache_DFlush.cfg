\* only FlushMax as coded (fold repaired): retained operations are harmless, all invariants hold
SPECIFICATION Spec
CONSTANTS
  Keys = {k1}
  Elems = {1, 2}
  Clients = {c1, c2}
  MaxBatches = 3
  MaxOps = 2
  T = 1
  LostInsert = FALSE
  FlushMax = TRUE
  FoldCancel = FALSE
  SpillCut = FALSE
  LateSnapshot = FALSE
  LateSnapFetch = FALSE
  SplitAppend = FALSE
  Gen = FALSE
  PrintCex = FALSE
SYMMETRY Sym
VIEW view
INVARIANTS ReadYourWrites SetMatchesRef RememberedAbsence LogPinned
CHECK_DEADLOCK FALSE
