----------------------------- MODULE EngineCycMC -----------------------------
(***************************************************************************)
(* Model checking of the cycle mechanism model EngineCyc against the       *)
(* P-level statement of C06 over a family of small, possibly cyclic        *)
(* programs (env FAMILY, ndjson, tools/gen_cyc.py) and all bounded         *)
(* histories of sessions and user queries: every value handed to the user  *)
(* equals the from-scratch valuation that substitutes the cycle defaults   *)
(* (Program.tla CycValuation), judged where that reference is defined      *)
(* (acyclic, or CycSimple under the committed inputs); and the mechanism   *)
(* never deadlocks, runs out of fuel or unwinds a query that is not        *)
(* marked.                                                                 *)
(*                                                                         *)
(* Emitting = "terminal" turns the module into a behaviour generator:      *)
(* every terminal history is printed with what the model predicts for it - *)
(* the value of every user query and the complete list of executor runs    *)
(* (node, reads, output or "cut") - and is then replayed on the real       *)
(* engine (checks/c06.py): values AND executor runs must agree one by one. *)
(* Emitting = "bad" prints the histories on which the model hands out a    *)
(* wrong value instead (one per distinct model state): with SccFix set to  *)
(* a variant the code does NOT implement these are directed tests for      *)
(* exactly that slip.                                                      *)
(***************************************************************************)
EXTENDS EngineCyc, Json, IOUtils

CONSTANTS MaxEpochs, MaxSets, MaxQueries, Emitting

Family == ndJsonDeserialize(IOEnv.FAMILY)
Shard == atoi(IOEnv.SHARD)
Shards == atoi(IOEnv.SHARDS)

VARIABLES pi, S, inputs, insess, batch, epoch, nsets, nq, bad, hist, qres, snaps, done

vars == <<pi, S, inputs, insess, batch, epoch, nsets, nq, bad, hist, qres, snaps, done>>

P == Family[pi].prog
Nodes == 1..Len(P.nodes)
Inputs == {n \in Nodes : P.nodes[n].kind = "In"}

RECURSIVE SetAll(_, _, _)
SetAll(p, St, todo) ==
    IF todo = {} THEN St
    ELSE LET n == CHOOSE n \in todo : \A y \in todo : n <= y
         IN SetAll(p, SessSet(p, St, n, 0).S, todo \ {n})

RECURSIVE InitOps(_, _)
InitOps(p, i) ==
    IF i > Len(p.nodes) THEN <<>>
    ELSE (IF p.nodes[i].kind = "In" THEN <<[a |-> "set", n |-> i, v |-> 0]>> ELSE <<>>) \o InitOps(p, i + 1)

(* the persisted mechanism state as Engine::verif_dump shows it (harness --dump 1): per node the age of   *)
(* last_verified, the forward edge order, the callees behind dirty edges, the callers                  *)
Snap(St) ==
    [n \in DOMAIN St.lv |->
        [age |-> IF St.lv[n] = None THEN -1 ELSE St.ts - St.lv[n],
         fwd |-> St.fwd[n],
         dirty |-> {d \in DOMAIN St.lv : <<n, d>> \in St.dirty},
         back |-> St.back[n],
         tfc |-> St.tfc[n]]]

Init ==
    /\ pi \in {i \in 1..Len(Family) : i % Shards = Shard}
    /\ LET p == Family[pi].prog
           ins == {n \in 1..Len(p.nodes) : p.nodes[n].kind = "In"}
       IN /\ S = SessCommit(SetAll(p, SessBegin(InitState(p)), ins), {})
          /\ snaps = <<Snap(SessCommit(SetAll(p, SessBegin(InitState(p)), ins), {}))>>
          /\ hist = <<[a |-> "begin"]>> \o InitOps(p, 1) \o <<[a |-> "commit"]>>
    /\ inputs = [n \in 1..Len(Family[pi].prog.nodes) |-> 0]
    /\ insess = FALSE /\ batch = {} /\ epoch = 0 /\ nsets = 0 /\ nq = 0
    /\ bad = FALSE /\ qres = <<>> /\ done = FALSE

Env == [n \in Nodes |-> IF P.nodes[n].kind = "In" THEN inputs[n] ELSE None]
Judged == Acyclic(P) \/ CycSimple(P, Env)
Want(n) == IF Acyclic(P) THEN Valuation(P, Env)[n] ELSE CycValuation(P, Env)[n]

Query(n) ==
    /\ ~insess /\ nq < MaxQueries /\ ~bad /\ ~done
    /\ LET r == UserQuery(P, S, n)
       IN /\ S' = r.S
          /\ bad' = ((Judged /\ r.v # Want(n)) \/ r.S.err # "" \/ r.err)
          /\ qres' = Append(qres, [n |-> n, v |-> r.v, judged |-> Judged])
          /\ snaps' = Append(snaps, Snap(r.S))
    /\ hist' = Append(hist, [a |-> "query", t |-> 0, n |-> n])
    /\ nq' = nq + 1
    /\ UNCHANGED <<pi, inputs, insess, batch, epoch, nsets, done>>

Begin ==
    /\ ~insess /\ epoch < MaxEpochs /\ ~bad /\ ~done
    /\ S' = SessBegin(S)
    /\ insess' = TRUE /\ batch' = {} /\ nsets' = 0
    /\ hist' = Append(hist, [a |-> "begin"])
    /\ UNCHANGED <<pi, inputs, epoch, nq, bad, qres, snaps, done>>

Set(n, v) ==
    /\ insess /\ nsets < MaxSets
    /\ LET r == SessSet(P, S, n, v) IN
       /\ S' = r.S
       /\ batch' = IF r.changed THEN batch \cup {n} ELSE batch
    /\ inputs' = [inputs EXCEPT ![n] = v]
    /\ nsets' = nsets + 1
    /\ hist' = Append(hist, [a |-> "set", n |-> n, v |-> v])
    /\ UNCHANGED <<pi, insess, epoch, nq, bad, qres, snaps, done>>

Commit ==
    /\ insess
    /\ S' = SessCommit(S, batch)
    /\ insess' = FALSE /\ epoch' = epoch + 1 /\ nq' = 0
    /\ hist' = Append(hist, [a |-> "commit"])
    /\ snaps' = Append(snaps, Snap(SessCommit(S, batch)))
    /\ UNCHANGED <<pi, inputs, batch, nsets, bad, qres, done>>

Terminal == ~insess /\ epoch = MaxEpochs /\ nq = MaxQueries

Emit ==
    /\ \/ Emitting = "terminal" /\ Terminal
       \/ Emitting = "bad" /\ bad        \* counterexample generator (-continue not needed: `bad` is no invariant here)
    /\ ~done
    /\ done' = TRUE
    /\ PrintT(ToJson([prog |-> P, actions |-> hist, queries |-> qres, runs |-> S.log, snaps |-> snaps, err |-> S.err]))
    /\ UNCHANGED <<pi, S, inputs, insess, batch, epoch, nsets, nq, bad, hist, qres, snaps>>

Next ==
    \/ \E n \in Nodes : Query(n)
    \/ Begin
    \/ \E n \in Inputs, v \in 0..(P.m - 1) : Set(n, v)
    \/ Commit
    \/ Emit

Spec == Init /\ [][Next]_vars

(* C06 on the model *)
Correct == ~bad
(* ... its termination part alone: the mechanism never deadlocks, never runs out of fuel (unbounded recursion)  *)
(* and never unwinds a query that is not marked                                                                *)
Terminates == S.err = ""

(* hist / qres are bookkeeping for counterexamples and the generator        *)
View == <<pi, [S EXCEPT !.log = <<>>], inputs, insess, batch, epoch, nsets, nq, bad, done>>
=============================================================================
