\* MUTATION (not the code as shipped): consume_serialization_buffer appends the operations of a buffer
\* in an arbitrary order
\* -> two writes to one cell in one buffer can be applied backwards: ReadsLastCommitted / ScansExactMembers violated
SPECIFICATION Spec
CONSTANTS
  WCols = {"W1"}
  SCols = {"S1"}
  Keys = {"K1"}
  VTypes = {"V1"}
  Vals = {1, 2}
  Elems = {"E1"}
  MaxBatches = 1
  MaxBufs = 1
  MaxIters = 0
  MaxOps = 3
  AtomicCommit = TRUE
  SnapshotScan = TRUE
  Alias = {}
  TrackTouch = FALSE
  MisTag = {}
  BufOrder = "any"
INVARIANTS TypeOK ReadsLastCommitted ScansExactMembers
CHECK_DEADLOCK FALSE
