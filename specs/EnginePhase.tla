----------------------------- MODULE EnginePhase -----------------------------
(***************************************************************************)
(* M-layer specification of the phase protocol of the engine:              *)
(*   Engine::tracked()        (database/sync.rs acquire_active_computation_ *)
(*                             guard: read-lock the phase lock, THEN load   *)
(*                             the global timestamp)                        *)
(*   Engine::input_session()  (acquire_active_input_session_guard: create   *)
(*                             the session's write batch, bump the          *)
(*                             timestamp, THEN write-lock the phase lock)   *)
(*   set_input / commit / drop of the session, queries of a reader.        *)
(*                                                                         *)
(* One input A and one query X = A stand for the whole program; values are *)
(* input versions.  The P-level property (C04) is ReaderSeesSnap: every    *)
(* value a reader obtains is the version committed when its tracked engine *)
(* was handed out.                                                         *)
(*                                                                         *)
(* LockBeforeBump = FALSE models the code before the fix (bump first, lock *)
(* second); TRUE models the repaired order.                                *)
(*                                                                         *)
(* The module is also the schedule generator for schedule replay: `hist`   *)
(* records the (task, step) sequence; each maximal behaviour is printed    *)
(* as JSON and executed step by step on the real engine by                 *)
(* harness/src/bin/eng_phase.rs through the cfg-guarded points             *)
(* tracked_after_lock / session_after_bump / session_after_lock.           *)
(***************************************************************************)
EXTENDS Integers, Sequences, FiniteSets, TLC, Json

CONSTANTS Readers,        \* set of reader task ids (integers 1..)
          MaxSessions,    \* sessions the writer performs
          QueriesPerReader,
          LockBeforeBump, \* TRUE = repaired order
          DropSessions,   \* TRUE = the writer may also simply drop a session (Drop for InputSession:
                          \* the commit runs in a spawned task that owns the phase guard)
          EarlyRelease,   \* mutation the code does NOT have (selftest): the spawned commit of a dropped session
                          \* gives the phase guard back BEFORE it propagates
          Emit            \* TRUE = print maximal behaviours (generator mode)

W == 0  \* the writer task id

VARIABLES
    ts,        \* global timestamp
    lockR,     \* readers holding the phase lock shared
    lockW,     \* writer holds it exclusively
    wq,        \* writer is queued for it (tokio's RwLock is fair: new readers wait)
    inVal,     \* stored value (version) of input A
    committed, \* version of A as of the last completed commit
    changed,   \* the open session changed A
    xval, xlv, xdirty,   \* stored state of X: value (0 = never computed), last verified, dirty edge X->A
    rpc, rts, rsnap, rq, \* per reader: pc, sampled timestamp, expected version, queries done
    wpc, sess,           \* writer pc, sessions done
    spawned,   \* a dropped session's commit is still to be run by its spawned task (it holds lockW)
    bad,       \* a reader obtained a value that is not its snapshot's
    hist, done

vars == <<ts, lockR, lockW, wq, inVal, committed, changed, xval, xlv, xdirty,
          rpc, rts, rsnap, rq, wpc, sess, spawned, bad, hist, done>>

Init ==
    /\ ts = 0 /\ lockR = {} /\ lockW = FALSE /\ wq = FALSE
    /\ inVal = 1 /\ committed = 1 /\ changed = FALSE
    /\ xval = 0 /\ xlv = -1 /\ xdirty = FALSE
    /\ rpc = [r \in Readers |-> "idle"]
    /\ rts = [r \in Readers |-> -1]
    /\ rsnap = [r \in Readers |-> 0]
    /\ rq = [r \in Readers |-> 0]
    /\ wpc = "idle" /\ sess = 0 /\ spawned = FALSE
    /\ bad = FALSE
    /\ hist = <<>> /\ done = FALSE

Step(t, s) == hist' = Append(hist, [t |-> t, s |-> s])

---------------------------------------------------------------------------
(* reader *)

TrackedLock(r) ==       \* read_owned().await returned
    /\ rpc[r] = "idle" /\ ~lockW /\ ~wq
    /\ lockR' = lockR \cup {r}
    /\ rpc' = [rpc EXCEPT ![r] = "locked"]
    /\ Step(r, "tracked_lock")
    /\ UNCHANGED <<ts, lockW, wq, inVal, committed, changed, xval, xlv, xdirty, rts, rsnap, rq, wpc, sess, spawned, bad, done>>

TrackedSample(r) ==     \* timestamp.load(): the tracked engine is handed out
    /\ rpc[r] = "locked"
    /\ rts' = [rts EXCEPT ![r] = ts]
    /\ rsnap' = [rsnap EXCEPT ![r] = committed]
    /\ rpc' = [rpc EXCEPT ![r] = "ready"]
    /\ Step(r, "tracked_sample")
    /\ UNCHANGED <<ts, lockR, lockW, wq, inVal, committed, changed, xval, xlv, xdirty, rq, wpc, sess, spawned, bad, done>>

(* query X with the reader's timestamp: fast path / repair / compute        *)
QueryX(r) ==
    /\ rpc[r] = "ready" /\ rq[r] < QueriesPerReader
    /\ LET fresh == xval = 0
           hit == ~fresh /\ xlv = rts[r]
           recompute == fresh \/ (~hit /\ xdirty /\ xval # inVal)
           newval == IF recompute THEN inVal ELSE xval
       IN /\ xval' = newval
          /\ xlv' = IF hit THEN xlv ELSE rts[r]
          /\ xdirty' = IF hit THEN xdirty ELSE FALSE
          /\ bad' = (bad \/ newval # rsnap[r])
    /\ rq' = [rq EXCEPT ![r] = @ + 1]
    /\ Step(r, "query")
    /\ UNCHANGED <<ts, lockR, lockW, wq, inVal, committed, changed, rpc, rts, rsnap, wpc, sess, spawned, done>>

DropTracked(r) ==
    /\ rpc[r] = "ready" /\ rq[r] >= 1
    /\ lockR' = lockR \ {r}
    /\ rpc' = [rpc EXCEPT ![r] = "done"]
    /\ Step(r, "drop")
    /\ UNCHANGED <<ts, lockW, wq, inVal, committed, changed, xval, xlv, xdirty, rts, rsnap, rq, wpc, sess, spawned, bad, done>>

---------------------------------------------------------------------------
(* writer *)

(* as coded: new write batch + timestamp bump happen before the lock        *)
SessBump ==
    /\ ~LockBeforeBump
    /\ wpc = "idle" /\ sess < MaxSessions
    /\ ts' = ts + 1
    /\ wpc' = "bumped"
    /\ Step(W, "session_bump")
    /\ UNCHANGED <<lockR, lockW, wq, inVal, committed, changed, xval, xlv, xdirty, rpc, rts, rsnap, rq, sess, spawned, bad, done>>

SessRequest ==          \* write_owned() is called: the writer queues
    /\ \/ ~LockBeforeBump /\ wpc = "bumped"
       \/ LockBeforeBump /\ wpc = "idle" /\ sess < MaxSessions
    /\ wq' = TRUE
    /\ wpc' = "waiting"
    /\ Step(W, "session_request")
    /\ UNCHANGED <<ts, lockR, lockW, inVal, committed, changed, xval, xlv, xdirty, rpc, rts, rsnap, rq, sess, spawned, bad, done>>

SessLocked ==           \* write_owned().await returned
    /\ wpc = "waiting" /\ lockR = {} /\ ~lockW
    /\ lockW' = TRUE /\ wq' = FALSE
    /\ ts' = IF LockBeforeBump THEN ts + 1 ELSE ts
    /\ wpc' = "locked"
    /\ changed' = FALSE
    /\ Step(W, "session_locked")
    /\ UNCHANGED <<lockR, inVal, committed, xval, xlv, xdirty, rpc, rts, rsnap, rq, sess, spawned, bad, done>>

SetInput ==
    /\ wpc = "locked"
    /\ inVal' = inVal + 1
    /\ changed' = TRUE
    /\ wpc' = "set"
    /\ Step(W, "set")
    /\ UNCHANGED <<ts, lockR, lockW, wq, committed, xval, xlv, xdirty, rpc, rts, rsnap, rq, sess, spawned, bad, done>>

Commit ==               \* commit(): dirty propagation, submit, release the lock
    /\ wpc \in {"locked", "set"}
    /\ xdirty' = (xdirty \/ (changed /\ xval # 0))
    /\ committed' = inVal
    /\ lockW' = FALSE
    /\ sess' = sess + 1
    /\ wpc' = "idle"
    /\ Step(W, "commit")
    /\ UNCHANGED <<ts, lockR, wq, inVal, changed, xval, xlv, rpc, rts, rsnap, rq, spawned, bad, done>>

(* the session is dropped without commit(): Drop spawns a task that takes the  *)
(* transaction and the guard out of the session, runs commit_internal and only *)
(* then releases the guard; the writer itself goes on at once                  *)
DropSession ==
    /\ DropSessions
    /\ wpc \in {"locked", "set"}
    /\ spawned' = TRUE
    /\ sess' = sess + 1
    /\ wpc' = "idle"
    /\ Step(W, "drop_session")
    /\ UNCHANGED <<ts, lockR, lockW, wq, inVal, committed, changed, xval, xlv, xdirty, rpc, rts, rsnap, rq, bad, done>>

SpawnedRelease ==       \* (mutation) the guard is dropped first
    /\ EarlyRelease /\ spawned /\ lockW
    /\ lockW' = FALSE
    /\ Step(W, "spawned_release")
    /\ UNCHANGED <<ts, lockR, wq, inVal, committed, changed, xval, xlv, xdirty, rpc, rts, rsnap, rq, wpc, sess, spawned, bad, done>>

SpawnedCommit ==        \* the spawned task: dirty propagation, submit, release the lock
    /\ spawned /\ (EarlyRelease => ~lockW)
    /\ xdirty' = (xdirty \/ (changed /\ xval # 0))
    /\ committed' = inVal
    /\ lockW' = FALSE
    /\ spawned' = FALSE
    /\ Step(W, "spawned_commit")
    /\ UNCHANGED <<ts, lockR, wq, inVal, changed, xval, xlv, rpc, rts, rsnap, rq, wpc, sess, bad, done>>

---------------------------------------------------------------------------
Terminal ==
    /\ \A r \in Readers : rpc[r] = "done"
    /\ wpc = "idle" /\ sess = MaxSessions /\ ~spawned

Finish ==
    /\ Terminal /\ ~done
    /\ done' = TRUE
    /\ IF Emit THEN PrintT(ToJson([steps |-> hist, bad |-> bad])) ELSE TRUE
    /\ UNCHANGED <<ts, lockR, lockW, wq, inVal, committed, changed, xval, xlv, xdirty,
                   rpc, rts, rsnap, rq, wpc, sess, spawned, bad, hist>>

Next ==
    \/ \E r \in Readers : TrackedLock(r) \/ TrackedSample(r) \/ QueryX(r) \/ DropTracked(r)
    \/ SessBump \/ SessRequest \/ SessLocked \/ SetInput \/ Commit
    \/ DropSession \/ SpawnedCommit \/ SpawnedRelease
    \/ Finish

Spec == Init /\ [][Next]_vars
FairSpec == Spec /\ WF_vars(Next)

(* C04 *)
ReaderSeesSnap == ~bad
(* no reader holds the lock while the writer does *)
Exclusion == ~(lockW /\ lockR # {})
(* a dropped session stays exclusive until its spawned commit has run: nobody is handed a tracked     *)
(* engine, and no new session is entered, between the drop and the end of the propagation            *)
DroppedStaysExclusive == spawned => (lockW /\ lockR = {} /\ wpc \in {"idle", "bumped", "waiting"})
(* every mix makes progress *)
Progress == <>done

(* hist is bookkeeping for the generator: not part of the model state *)
View == <<ts, lockR, lockW, wq, inVal, committed, changed, xval, xlv, xdirty,
          rpc, rts, rsnap, rq, wpc, sess, spawned, bad, done>>
=============================================================================
