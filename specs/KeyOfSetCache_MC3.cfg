\* exhaustive, all repairs on (1 key, 2 elements, T = 1, 3 batches, 2 clients x 2 ops): all invariants hold (about 2 min)
SPECIFICATION Spec
CONSTANTS
  Keys = {k1}
  Elems = {1, 2}
  Clients = {c1, c2}
  MaxBatches = 3
  MaxOps = 2
  T = 1
  LostInsert = FALSE
  FlushMax = FALSE
  FoldCancel = FALSE
  SpillCut = FALSE
  LateSnapshot = FALSE
  LateSnapFetch = FALSE
  SplitAppend = FALSE
  Gen = FALSE
  PrintCex = FALSE
SYMMETRY Sym
VIEW view
INVARIANTS ReadYourWrites SetMatchesRef RememberedAbsence LogPinned
CHECK_DEADLOCK FALSE
