----------------------------- MODULE StableHashGen -----------------------------
(***************************************************************************)
(* C13 - behaviour generator for spec -> implementation replay.            *)
(*                                                                         *)
(* One value is built through a construction history; `hist` is part of    *)
(* the state, so exhaustive exploration enumerates every bounded history   *)
(* (with -simulate: seeded random longer ones).  Every history is printed  *)
(* once, as one JSON line                                                  *)
(*   {"ty":..,"hist":[ops],"abs":<abstract value>,"tok":<model stream>}    *)
(* when the step that completes it is generated.  harness/src/bin/         *)
(* hash_replay.rs performs the same operations on real Rust values and     *)
(* records the stream and the 128-bit hashes; checks/c13.py groups the     *)
(* records by (ty, abs) - the abstract value computed HERE is the identity *)
(* of the value - and decides the property.  `tok` (StableHashFraming,     *)
(* with LenW = DiscW = 8 it is the exact byte stream) is compared with     *)
(* the recorded stream as model drift only.                                *)
(*                                                                         *)
(* Operations (what the replay does for them):                             *)
(*   push x / pop           Vec::push/pop, String::push/pop                *)
(*   ins x / rem k          insert / remove (maps: x = <<k, v>>);          *)
(*                          BinaryHeap: push / pop() while max = k         *)
(*   set x                  products: construct the value                  *)
(*   reserve shrink clone roundtrip rehash                                 *)
(*                          reserve(n) / shrink_to_fit / clone / qbice     *)
(*                          encode+decode / rebuild with another           *)
(*                          BuildHasher seed - the content is unchanged    *)
(*   make c                 leaf catalogue: value of class c of a leaf     *)
(*                          type; the replay observes it through every     *)
(*                          storage form (&T, Box, Rc, Arc, Cow, decode)   *)
(***************************************************************************)
EXTENDS StableHashFraming, Json

CONSTANTS GenTypes,   \* type names to generate histories for
          MaxOps,     \* bound on Len(hist)
          MaxFlav,    \* bound on content-preserving operations per history
          WithLeaves  \* TRUE: also enumerate the leaf catalogue

VARIABLES ty, c, hist, nflav
vars == <<ty, c, hist, nflav>>

(* Leaf catalogue: every remaining `impl StableHash` of lib.rs; w = width  *)
(* in bytes of the stream (-1: length-prefixed, variable).  Classes are    *)
(* concretised by the replay; different classes are different values,      *)
(* except the "nan*" classes which are ONE abstract value (write_f32/f64   *)
(* normalise NaN by design).                                               *)
IntCls == {"zero", "one", "max", "min", "lowbyte", "highbyte", "rnd1", "rnd2"}
FloatCls == {"zero", "negzero", "one", "inf", "neginf", "nan", "nan_payload", "nan_neg", "subnormal", "rnd1"}
StrCls == {"empty", "a", "ab", "a_b", "nul", "rnd1"}
Leaves == {
    [ty |-> "i8", w |-> 1, cls |-> IntCls], [ty |-> "u16", w |-> 2, cls |-> IntCls],
    [ty |-> "i16", w |-> 2, cls |-> IntCls], [ty |-> "u32", w |-> 4, cls |-> IntCls],
    [ty |-> "i32", w |-> 4, cls |-> IntCls], [ty |-> "u64", w |-> 8, cls |-> IntCls],
    [ty |-> "i64", w |-> 8, cls |-> IntCls], [ty |-> "u128", w |-> 16, cls |-> IntCls],
    [ty |-> "i128", w |-> 16, cls |-> IntCls], [ty |-> "usize", w |-> 8, cls |-> IntCls],
    [ty |-> "isize", w |-> 8, cls |-> IntCls], [ty |-> "u8full", w |-> 1, cls |-> IntCls],
    [ty |-> "bool", w |-> 1, cls |-> {"zero", "one"}],
    [ty |-> "char", w |-> 4, cls |-> {"zero", "one", "max", "rnd1", "rnd2"}],
    [ty |-> "f32", w |-> 4, cls |-> FloatCls], [ty |-> "f64", w |-> 8, cls |-> FloatCls],
    [ty |-> "nonzero", w |-> 0, cls |-> {"one", "max", "min", "rnd1"}],
    [ty |-> "atomic", w |-> 0, cls |-> {"zero", "one", "max", "rnd1"}],
    [ty |-> "duration", w |-> 12, cls |-> {"zero", "one", "lowbyte", "max", "rnd1"}],
    [ty |-> "path", w |-> -1, cls |-> StrCls], [ty |-> "cstr", w |-> -1, cls |-> StrCls \ {"nul"}],
    [ty |-> "string", w |-> -1, cls |-> StrCls],
    [ty |-> "ranges", w |-> 0, cls |-> {"zero", "one", "rnd1"}],
    [ty |-> "tuples", w |-> 0, cls |-> {"zero", "one", "rnd1"}],
    [ty |-> "zerowidth", w |-> 0, cls |-> {"zero"}],
    [ty |-> "compact128", w |-> 16, cls |-> IntCls \ {"min"}],
    [ty |-> "discriminant", w |-> 8, cls |-> {"zero", "one", "max"}],
    [ty |-> "interned", w |-> -1, cls |-> StrCls],
    [ty |-> "derived", w |-> 0, cls |-> {"zero", "one", "rnd1"}] }
LeafNames == IF WithLeaves THEN {l.ty : l \in Leaves} ELSE {}
LeafOf(n) == CHOOSE l \in Leaves : l.ty = n

IsLeaf == ty \in LeafNames
T == TypeDef[ty]
ElemOf == [n \in GenTypes |-> ElemUniv(TypeDef[n])]
UnivOf == [n \in GenTypes |-> Univ(TypeDef[n])]

KeyAbs(x) == CASE T.k = "set" -> Abs(T.a[1], x)
               [] T.k \in {"map", "bmap"} -> Abs(T.a[1], x[1])
               [] OTHER -> x
KeyOf(x) == IF T.k \in {"map", "bmap"} THEN x[1] ELSE x
Idx(r, x) == {i \in DOMAIN r : KeyAbs(r[i]) = KeyAbs(x)}

Line(h, cc) == ToJson([ty |-> ty, hist |-> h, abs |-> Abs(T, cc), tok |-> Tok(T, cc, TRUE)])

Step(op, cc, fl) ==
    /\ Len(hist) < MaxOps
    /\ hist' = Append(hist, op)
    /\ c' = cc
    /\ nflav' = nflav + fl
    /\ ty' = ty
    /\ PrintT(Line(hist', cc))

Init == /\ ty \in GenTypes \cup LeafNames
        /\ c = IF ty \in GenTypes THEN Default(TypeDef[ty]) ELSE "none"
        /\ hist = <<>>
        /\ nflav = 0

Push == /\ ~IsLeaf /\ T.k \in {"vec", "str"} /\ Len(c) < MaxLen
        /\ \E x \in ElemOf[ty] : Step([op |-> "push", x |-> x], Append(c, x), 0)

Pop == /\ ~IsLeaf /\ T.k \in {"vec", "str"} /\ c # <<>>
       /\ Step([op |-> "pop"], SubSeq(c, 1, Len(c) - 1), 0)

(* insert: a new key is appended, an existing map key gets the new value,  *)
(* an existing set element is a no-op (still a different history)          *)
Ins == /\ ~IsLeaf /\ T.k \in {"set", "map", "heap", "bmap"}
       /\ \E x \in ElemOf[ty] :
            LET at == IF T.k = "heap" THEN {} ELSE Idx(c, x)
                cc == IF at = {} THEN Append(c, x)
                      ELSE [c EXCEPT ![CHOOSE i \in at : TRUE] = x]
                \* BTreeMap keeps key order: the rep is sorted
                srt == IF T.k # "bmap" THEN cc
                       ELSE CHOOSE q \in PermsOf(cc) :
                              \A i, j \in DOMAIN q : i < j => q[i][1] < q[j][1]
            IN /\ Len(cc) <= MaxLen
               /\ Step([op |-> "ins", x |-> x], srt, 0)

Rem == /\ ~IsLeaf /\ T.k \in {"set", "map", "bmap"}
       /\ \E i \in DOMAIN c :
            Step([op |-> "rem", x |-> KeyOf(c[i])], RemoveAt(c, i), 0)

(* BinaryHeap::pop removes the maximum (elements are u8)                   *)
HeapPop == /\ ~IsLeaf /\ T.k = "heap" /\ c # <<>>
           /\ LET i == CHOOSE i \in DOMAIN c : \A j \in DOMAIN c : c[j] <= c[i]
              IN Step([op |-> "popmax"], RemoveAt(c, i), 0)

Assign == /\ ~IsLeaf /\ ~IsCollection(T) /\ hist = <<>>
          /\ \E x \in UnivOf[ty] : Step([op |-> "set", x |-> x], x, 0)

Flavour == /\ ~IsLeaf /\ nflav < MaxFlav
           /\ ~(~IsCollection(T) /\ hist = <<>>)
           /\ \E f \in (IF IsUnordered(T) THEN {"reserve", "shrink", "clone", "roundtrip", "rehash"}
                        ELSE IF T.k \in {"vec", "str"} THEN {"reserve", "shrink", "clone", "roundtrip"}
                        ELSE {"clone", "roundtrip"}) :
                Step([op |-> f], c, 1)

Leaf == /\ IsLeaf /\ hist = <<>>
        /\ \E cl \in LeafOf(ty).cls :
             /\ hist' = <<[op |-> "make", x |-> cl]>>
             /\ c' = cl /\ UNCHANGED <<ty, nflav>>
             /\ PrintT(ToJson([ty |-> ty, hist |-> hist', abs |-> cl, tok |-> LeafOf(ty).w]))

Next == Push \/ Pop \/ Ins \/ Rem \/ HeapPop \/ Assign \/ Flavour \/ Leaf

Spec == Init /\ [][Next]_vars
=============================================================================
