-------------------------- MODULE TinyLFUObsTrace --------------------------
(***************************************************************************)
(* Property-level (observational) trace validation for C16.                *)
(*                                                                         *)
(* State: what a user of the cache controls or observes - a reference map  *)
(* `ref` (0 = absent), the owner's pin counts `pin`, the keys the cache    *)
(* explicitly refused to evict because their owner reported them pinned    *)
(* (`linger`), the notifications the owner still owes (`owed`).  Events    *)
(* are ordered by a sequence number taken inside the entry's critical      *)
(* section, which is a linearisation of the storage map (single- and       *)
(* multi-threaded runs).  The exact eviction victim is NOT part of the     *)
(* property: any `ask … pinned=false` is an acceptable eviction.           *)
(*                                                                         *)
(* Every action is total: violations are collected in `viol`, the result   *)
(* is written to env OUT.  Kinds:                                          *)
(*   pinned_entry_lost / entry_lost   a resident entry vanished without    *)
(*        an eviction or removal event (PinnedNeverEvicted /               *)
(*        ReadableUntilGone)                                               *)
(*   pinned_evicted    an eviction although the owner's count is > 0       *)
(*   stale_value / stale_pin / phantom_entry   a read, update, listener    *)
(*        call or observation saw something else than the latest write     *)
(*   bound_instant     resident > max_capacity + lingering + batch + 1     *)
(*   bound_strict      after ONE complete maintenance round:               *)
(*        resident > max_capacity + currently pinned (+ leaked by panics)  *)
(*   bound_final       the same after pinned+2 rounds (quiescence)         *)
(*   panic             a panic of the code under test (NoPanic)            *)
(***************************************************************************)
EXTENDS Integers, Sequences, FiniteSets, TLC, Json, IOUtils

VARIABLES l, done, hdr, ref, pin, since, linger, owed, nres, kfp, deadMaint, viol, stats

Rec == ndJsonDeserialize(IOEnv.TRACE)
vars == <<l, done, hdr, ref, pin, since, linger, owed, nres, kfp, deadMaint, viol, stats>>

Ev == Rec[l]
IsEvent(e) == l <= Len(Rec) /\ Ev.e = e
Has(f) == f \in DOMAIN Ev

ZeroStats == [runs |-> 0, puts |-> 0, gets |-> 0, hits |-> 0, rems |-> 0, pins |-> 0,
              unpins |-> 0, notifies |-> 0, evictions |-> 0, refusals |-> 0, obs |-> 0,
              panics |-> 0, maxres |-> 0, maxexcess |-> 0, maxlinger |-> 0, finals |-> 0,
              strict_checks |-> 0]

V(kind, k, a, b) == [at |-> l, kind |-> kind, k |-> k, a |-> a, b |-> b, run |-> hdr.case,
                     strat |-> hdr.strat, mode |-> hdr.mode, kf |-> ""]
VK(kind, k, a, b, kf) == [V(kind, k, a, b) EXCEPT !.kf = kf]

DummyHdr == [case |-> 0, cap |-> 1, win |-> 1, prot |-> 0, mainlim |-> 1, strat |-> "Poll",
             keys |-> 1, batch |-> 32, mode |-> "seq", maint |-> "Piggyback"]

MaxCap == hdr.win + hdr.mainlim
Bump(f) == [stats EXCEPT ![f] = @ + 1]
Max(a, b) == IF a > b THEN a ELSE b

Init ==
    /\ l = 1 /\ done = FALSE
    /\ hdr = DummyHdr
    /\ ref = <<0>> /\ pin = <<0>> /\ since = <<0>>
    /\ linger = {} /\ owed = {} /\ nres = 0 /\ kfp = 0 /\ deadMaint = FALSE
    /\ viol = <<>> /\ stats = ZeroStats

Consume == l' = l + 1 /\ done' = done

Run ==
    /\ IsEvent("run")
    /\ hdr' = [case |-> Ev.case, cap |-> Ev.cap, win |-> Ev.win, prot |-> Ev.prot,
               mainlim |-> Ev.mainlim, strat |-> Ev.strat, keys |-> Ev.keys,
               batch |-> Ev.batch, mode |-> Ev.mode, maint |-> Ev.maint]
    /\ ref' = [k \in 1..Ev.keys |-> 0]
    /\ pin' = [k \in 1..Ev.keys |-> 0]
    /\ since' = [k \in 1..Ev.keys |-> 0]
    /\ linger' = {} /\ owed' = {} /\ nres' = 0 /\ kfp' = 0 /\ deadMaint' = FALSE
    /\ viol' = viol
    /\ stats' = Bump("runs")
    /\ Consume

(* the entry of key k vanished although nothing evicted or removed it      *)
Lost(k) == IF pin[k] > 0 THEN V("pinned_entry_lost", k, ref[k], pin[k])
           ELSE V("entry_lost", k, ref[k], 0)

Forget(k) ==
    /\ ref' = [ref EXCEPT ![k] = 0]
    /\ pin' = [pin EXCEPT ![k] = 0]
    /\ linger' = linger \ {k}
    /\ nres' = IF ref[k] # 0 THEN nres - 1 ELSE nres

(* instantaneous bound, judged in single-threaded runs (multi-threaded:    *)
(* recorded as a statistic, the write buffer has no fixed length there)    *)
InstantViol(n, ling) ==
    IF hdr.mode = "seq" /\ n > MaxCap + ling + hdr.batch + 1
    THEN <<V("bound_instant", 0, n, MaxCap + ling + hdr.batch + 1)>> ELSE <<>>

Put ==
    /\ IsEvent("put")
    /\ LET k == Ev.k IN
       IF Ev.res = "ins"
       THEN /\ ref' = [ref EXCEPT ![k] = Ev.v]
            /\ pin' = [pin EXCEPT ![k] = Ev.p]
            /\ since' = [since EXCEPT ![k] = Ev.s]
            /\ linger' = linger \ {k}
            /\ nres' = IF ref[k] = 0 THEN nres + 1 ELSE nres
            /\ viol' = viol \o (IF ref[k] # 0 THEN <<Lost(k)>> ELSE <<>>)
                            \o InstantViol(nres + 1, Cardinality(linger \ {k}))
            /\ stats' = [stats EXCEPT !.puts = @ + 1, !.maxres = Max(@, nres + 1),
                            !.maxexcess = Max(@, nres + 1 - MaxCap - Cardinality(linger))]
       ELSE /\ ref' = [ref EXCEPT ![k] = Ev.v]
            /\ nres' = IF ref[k] = 0 THEN nres + 1 ELSE nres
            /\ viol' = viol \o (IF ref[k] = 0 THEN <<V("phantom_entry", k, Ev.old, 0)>>
                                ELSE IF Ev.old # ref[k] THEN <<V("stale_value", k, Ev.old, ref[k])>>
                                ELSE <<>>)
            /\ stats' = Bump("puts")
            /\ UNCHANGED <<pin, since, linger>>
    /\ UNCHANGED <<hdr, owed, kfp, deadMaint>>
    /\ Consume

Get ==
    /\ IsEvent("get")
    /\ LET k == Ev.k IN
       IF Ev.hit
       THEN /\ viol' = viol \o (IF ref[k] = 0 THEN <<V("phantom_entry", k, Ev.v, 0)>>
                                ELSE IF Ev.v # ref[k] THEN <<V("stale_value", k, Ev.v, ref[k])>>
                                ELSE IF Ev.n # pin[k] THEN <<V("stale_pin", k, Ev.n, pin[k])>>
                                ELSE <<>>)
            /\ stats' = [stats EXCEPT !.gets = @ + 1, !.hits = @ + 1]
            /\ UNCHANGED <<ref, pin, linger, nres>>
       ELSE \* a miss is legal iff the key was absent at some instant of the call
            IF ref[k] # 0 /\ since[k] < Ev.s0
            THEN /\ viol' = Append(viol, Lost(k))
                 /\ Forget(k)
                 /\ stats' = Bump("gets")
            ELSE /\ viol' = viol /\ stats' = Bump("gets")
                 /\ UNCHANGED <<ref, pin, linger, nres>>
    /\ UNCHANGED <<hdr, since, owed, kfp, deadMaint>>
    /\ Consume

Rem ==
    /\ IsEvent("rem")
    /\ LET k == Ev.k IN
       IF Ev.res = "rem"
       THEN /\ viol' = viol \o (IF ref[k] = 0 THEN <<V("phantom_entry", k, Ev.old, 0)>>
                                ELSE IF Ev.old # ref[k] THEN <<V("stale_value", k, Ev.old, ref[k])>>
                                ELSE <<>>)
            /\ Forget(k)
       ELSE IF ref[k] # 0
            THEN viol' = Append(viol, Lost(k)) /\ Forget(k)
            ELSE viol' = viol /\ UNCHANGED <<ref, pin, linger, nres>>
    /\ stats' = Bump("rems")
    /\ UNCHANGED <<hdr, since, owed, kfp, deadMaint>>
    /\ Consume

PinEv ==
    /\ IsEvent("pin")
    /\ LET k == Ev.k IN
       IF Ev.res = "ok"
       THEN /\ viol' = viol \o (IF ref[k] = 0 THEN <<V("phantom_entry", k, 0, 0)>>
                                ELSE IF Ev.n # pin[k] + 1 THEN <<V("stale_pin", k, Ev.n, pin[k] + 1)>>
                                ELSE <<>>)
            /\ pin' = [pin EXCEPT ![k] = Ev.n]
            /\ UNCHANGED <<ref, linger, nres>>
       ELSE IF ref[k] # 0
            THEN viol' = Append(viol, Lost(k)) /\ Forget(k)
            ELSE viol' = viol /\ UNCHANGED <<ref, pin, linger, nres>>
    /\ stats' = Bump("pins")
    /\ UNCHANGED <<hdr, since, owed, kfp, deadMaint>>
    /\ Consume

Unpin ==
    /\ IsEvent("unpin")
    /\ LET k == Ev.k IN
       CASE Ev.res = "ok" ->
              /\ viol' = viol \o (IF ref[k] = 0 THEN <<V("phantom_entry", k, 0, 0)>>
                                  ELSE IF Ev.n # pin[k] - 1 THEN <<V("stale_pin", k, Ev.n, pin[k] - 1)>>
                                  ELSE <<>>)
              /\ pin' = [pin EXCEPT ![k] = Ev.n]
              /\ owed' = IF Ev.n = 0 /\ hdr.strat = "Notify" THEN owed \cup {k} ELSE owed
              /\ UNCHANGED <<ref, linger, nres>>
         [] Ev.res = "zero" ->
              /\ viol' = viol \o (IF ref[k] = 0 THEN <<V("phantom_entry", k, 0, 0)>>
                                  ELSE IF pin[k] # 0 THEN <<V("stale_pin", k, 0, pin[k])>>
                                  ELSE <<>>)
              /\ pin' = [pin EXCEPT ![k] = 0]
              /\ UNCHANGED <<ref, linger, nres, owed>>
         [] OTHER ->
              /\ IF ref[k] # 0
                 THEN viol' = Append(viol, Lost(k)) /\ Forget(k)
                 ELSE viol' = viol /\ UNCHANGED <<ref, pin, linger, nres>>
              /\ owed' = owed
    /\ stats' = Bump("unpins")
    /\ UNCHANGED <<hdr, since, kfp, deadMaint>>
    /\ Consume

NotifyEv ==
    /\ IsEvent("notify")
    /\ owed' = owed \ {Ev.k}
    /\ stats' = Bump("notifies")
    /\ UNCHANGED <<hdr, ref, pin, since, linger, nres, kfp, deadMaint, viol>>
    /\ Consume

(* the lifecycle listener was consulted under the entry's write lock       *)
Ask ==
    /\ IsEvent("ask")
    /\ LET k == Ev.k
           pre == (IF ref[k] = 0 THEN <<V("phantom_entry", k, Ev.v, 0)>>
                   ELSE IF Ev.v # ref[k] THEN <<V("stale_value", k, Ev.v, ref[k])>>
                   ELSE IF Ev.n # pin[k] THEN <<V("stale_pin", k, Ev.n, pin[k])>>
                   ELSE <<>>)
       IN
       IF Ev.pinned
       THEN /\ linger' = IF ref[k] # 0 THEN linger \cup {k} ELSE linger
            /\ viol' = viol \o pre
            /\ stats' = [stats EXCEPT !.refusals = @ + 1,
                            !.maxlinger = Max(@, Cardinality(linger) + 1)]
            /\ UNCHANGED <<ref, pin, nres>>
       ELSE \* eviction
            /\ viol' = viol \o pre \o (IF pin[k] > 0 THEN <<V("pinned_evicted", k, ref[k], pin[k])>> ELSE <<>>)
            /\ Forget(k)
            /\ stats' = Bump("evictions")
    /\ UNCHANGED <<hdr, since, owed, kfp, deadMaint>>
    /\ Consume

ToSet(s) == {s[i] : i \in 1..Len(s)}

(* complete observation of the resident set through the entry API          *)
ObsViol ==
    LET R == ToSet(Ev.res)
        lost == {k \in DOMAIN ref : ref[k] # 0 /\ k \notin R}
        phantom == {k \in R : ref[k] = 0}
        stale == {i \in 1..Len(Ev.res) : ref[Ev.res[i]] # 0 /\ ref[Ev.res[i]] # Ev.vals[i]}
        P == ToSet(Ev.pins)
        pinbad == {k \in R : ref[k] # 0 /\ ((pin[k] > 0) # (k \in P))}
    IN  (IF lost # {} THEN <<Lost(CHOOSE k \in lost : TRUE)>> ELSE <<>>)
     \o (IF phantom # {} THEN <<V("phantom_entry", CHOOSE k \in phantom : TRUE, 0, 0)>> ELSE <<>>)
     \o (IF stale # {} THEN LET i == CHOOSE i \in stale : TRUE IN
                            <<V("stale_value", Ev.res[i], Ev.vals[i], ref[Ev.res[i]])>> ELSE <<>>)
     \o (IF pinbad # {} THEN <<V("stale_pin", CHOOSE k \in pinbad : TRUE, 0, 0)>> ELSE <<>>)

(* the literal bound after complete maintenance: resident <= max_capacity  *)
(* + currently pinned; under Notify each earlier panic of Policy::unpin    *)
(* may have swallowed one notification (that entry is leaked); a dead      *)
(* maintenance thread stops eviction altogether                            *)
ExactViol(kind, R, P) ==
    LET n == Cardinality(R)
        allowed == MaxCap + Cardinality(P)
        stale == (linger \cap R) \ P
    IN IF n <= allowed THEN <<>>
       ELSE IF deadMaint THEN <<VK(kind, 0, n, allowed, "KF_UNPIN")>>
       ELSE IF hdr.strat = "Notify" /\ kfp > 0 /\ n <= allowed + kfp
            THEN <<VK(kind, 0, n, allowed, "KF_UNPIN")>>
       ELSE IF kind = "bound_strict" /\ hdr.strat = "Poll" /\ n - allowed <= Cardinality(stale)
            THEN <<VK(kind, 0, n, allowed, "KF_POLL_LINGER")>>
       ELSE <<V(kind, 0, n, allowed)>>

(* Single-threaded runs: the observation is atomic and complete, it is     *)
(* compared with the reference.  Multi-threaded runs: a maintenance thread *)
(* may still be evicting, so every key was judged by its own `probe` event *)
(* and the bounds are evaluated on the reference state.                    *)
Obs ==
    /\ l <= Len(Rec) /\ Ev.e \in {"obs", "obs1", "final"}
    /\ LET seq == hdr.mode = "seq"
           R == IF seq THEN ToSet(Ev.res) ELSE {k \in DOMAIN ref : ref[k] # 0}
           P == IF seq THEN ToSet(Ev.pins) ELSE {k \in DOMAIN pin : pin[k] > 0}
       IN
       /\ viol' = viol \o (IF seq THEN ObsViol ELSE <<>>)
                       \o InstantViol(Cardinality(R), Cardinality(linger \cap R))
                       \o (IF Ev.e = "obs1" /\ owed = {} THEN ExactViol("bound_strict", R, P) ELSE <<>>)
                       \o (IF Ev.e = "final" /\ owed = {} THEN ExactViol("bound_final", R, P) ELSE <<>>)
       \* resynchronise the reference with what was observed
       /\ IF seq
          THEN /\ ref' = [k \in DOMAIN ref |->
                            IF k \in R THEN Ev.vals[CHOOSE i \in 1..Len(Ev.res) : Ev.res[i] = k] ELSE 0]
               /\ pin' = [k \in DOMAIN pin |-> IF k \in R /\ k \in P THEN Max(pin[k], 1) ELSE 0]
               /\ linger' = linger \cap R
               /\ nres' = Cardinality(R)
          ELSE UNCHANGED <<ref, pin, linger, nres>>
       /\ stats' = [stats EXCEPT !.obs = @ + 1,
                        !.finals = IF Ev.e = "final" THEN @ + 1 ELSE @,
                        !.strict_checks = IF Ev.e = "obs1" THEN @ + 1 ELSE @]
    /\ UNCHANGED <<hdr, since, owed, kfp, deadMaint>>
    /\ Consume

(* one key probed through the entry API (exclusive entry lock: exact)      *)
Probe ==
    /\ IsEvent("probe")
    /\ LET k == Ev.k IN
       IF Ev.hit
       THEN /\ viol' = viol \o (IF ref[k] = 0 THEN <<V("phantom_entry", k, Ev.v, 0)>>
                                ELSE IF Ev.v # ref[k] THEN <<V("stale_value", k, Ev.v, ref[k])>>
                                ELSE IF Ev.n # pin[k] THEN <<V("stale_pin", k, Ev.n, pin[k])>>
                                ELSE <<>>)
            /\ ref' = [ref EXCEPT ![k] = Ev.v]
            /\ pin' = [pin EXCEPT ![k] = Ev.n]
            /\ nres' = IF ref[k] = 0 THEN nres + 1 ELSE nres
            /\ linger' = linger
       ELSE IF ref[k] # 0
            THEN viol' = Append(viol, Lost(k)) /\ Forget(k)
            ELSE viol' = viol /\ UNCHANGED <<ref, pin, linger, nres>>
    /\ stats' = stats
    /\ UNCHANGED <<hdr, since, owed, kfp, deadMaint>>
    /\ Consume

Panic ==
    /\ IsEvent("panic")
    /\ viol' = Append(viol, [V("panic", 0, 0, 0) EXCEPT !.kf = Ev.loc \o "|" \o Ev.msg \o "|" \o Ev.thread])
    /\ kfp' = kfp + 1
    /\ deadMaint' = (deadMaint \/ Ev.thread = "tiny_lfu_maintenance")
    /\ stats' = Bump("panics")
    /\ UNCHANGED <<hdr, ref, pin, since, linger, owed, nres>>
    /\ Consume

Skip ==
    /\ l <= Len(Rec) /\ Ev.e \in {"flush", "quiesce", "rounds", "reset"}
    /\ UNCHANGED <<hdr, ref, pin, since, linger, owed, nres, kfp, deadMaint, viol, stats>>
    /\ Consume

Known == {"probe", "run", "put", "get", "rem", "pin", "unpin", "notify", "ask", "obs", "obs1", "final",
          "panic", "flush", "quiesce", "rounds", "reset"}

Unknown ==
    /\ l <= Len(Rec) /\ Ev.e \notin Known
    /\ viol' = Append(viol, V("harness_unknown_event", 0, 0, 0))
    /\ UNCHANGED <<hdr, ref, pin, since, linger, owed, nres, kfp, deadMaint, stats>>
    /\ Consume

Finish ==
    /\ l = Len(Rec) + 1 /\ ~done
    /\ JsonSerialize(IOEnv.OUT, [events |-> Len(Rec), stats |-> stats, viol |-> viol])
    /\ done' = TRUE /\ l' = l
    /\ UNCHANGED <<hdr, ref, pin, since, linger, owed, nres, kfp, deadMaint, viol, stats>>

Next == Probe \/ Run \/ Put \/ Get \/ Rem \/ PinEv \/ Unpin \/ NotifyEv \/ Ask \/ Obs \/ Panic \/ Skip
        \/ Unknown \/ Finish

Spec == Init /\ [][Next]_vars

TraceAccepted ==
    LET d == TLCGet("stats").diameter IN
    IF d >= Len(Rec) + 2 THEN TRUE
    ELSE Print(<<"TRACE NOT CONSUMED: stopped before event", d, "of", Len(Rec)>>, FALSE)
=============================================================================
