SPECIFICATION Spec
CONSTANTS
  Nodes = {1, 2}
  NoVisited = TRUE
  SingleSweep = FALSE
  Budget = 40
INVARIANT Terminates
CHECK_DEADLOCK FALSE
