\* as coded, replayable interleavings only: prints the history of every state
\* that violates ReadYourWrites (run with -continue)
SPECIFICATION Spec
CONSTANTS
  Keys = {0, 1}
  Vals = {1, 2}
  Clients = {1, 2}
  MaxBatches = 2
  MaxOps = 3
  StaleFill = TRUE
  FillOverwrite = FALSE
  NoNegativeEntry = FALSE
  Gen = TRUE
VIEW view
INVARIANTS RYWPrint
CHECK_DEADLOCK FALSE
