\* exhaustive, all repairs on (2 keys, 2 elements, T = 1, 2 batches, 2 clients x 2 ops): all invariants hold
SPECIFICATION Spec
CONSTANTS
  Keys = {k1, k2}
  Elems = {1, 2}
  Clients = {c1, c2}
  MaxBatches = 2
  MaxOps = 2
  T = 1
  LostInsert = FALSE
  FlushMax = FALSE
  FoldCancel = FALSE
  SpillCut = FALSE
  LateSnapshot = FALSE
  LateSnapFetch = FALSE
  SplitAppend = FALSE
  Gen = FALSE
  PrintCex = FALSE
SYMMETRY Sym
VIEW view
INVARIANTS ReadYourWrites SetMatchesRef RememberedAbsence LogPinned
CHECK_DEADLOCK FALSE
