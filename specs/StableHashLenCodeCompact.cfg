\* C13 length-code design check: compact with escape byte, correct threshold (n < Esc)
SPECIFICATION Spec
CONSTANTS
  B = 3
  W = 2
  MaxLen = 3
  MaxOuter = 2
  Shapes = {"pair", "nested"}
  Enc <- EncCompact
INVARIANTS TypeOK DecoderSound PrefixCode UniquelyDecodable StreamPrefixFree Derivation
ALIAS Show
CHECK_DEADLOCK FALSE
