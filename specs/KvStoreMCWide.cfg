\* exhaustive: one wide column, 2 keys x 2 value types x 2 values, <= 3 ops (put/del/put chains across batches)
SPECIFICATION Spec
CONSTANTS
  WCols = {"W1"}
  SCols = {}
  Keys = {"K1", "K2"}
  VTypes = {"V1", "V2"}
  Vals = {1, 2}
  Elems = {}
  MaxBatches = 2
  MaxBufs = 1
  MaxIters = 0
  MaxOps = 3
  AtomicCommit = TRUE
  SnapshotScan = TRUE
  Alias = {}
  TrackTouch = FALSE
  MisTag = {}
  BufOrder = "seq"
INVARIANTS TypeOK ReadsLastCommitted ScansExactMembers IterSound ResultsIgnoreTouched OwnFamilyOnly BufferIsSequence
PROPERTY OnlyCommitChanges
CHECK_DEADLOCK FALSE
