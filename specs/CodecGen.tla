----------------------------- MODULE CodecGen -----------------------------
(***************************************************************************)
(* C12 - enumeration of STRUCTURE: type terms closed under the provided    *)
(* constructors, with one abstract class per node.                         *)
(*                                                                         *)
(* A state is one case: a term  <<ctor, class, kid, ...>>  grown outwards  *)
(* from a leaf by Wrap actions (unary constructor, binary constructor with *)
(* a fixed partner on the other side, tuple of arity n with partners in    *)
(* the other positions) until the chosen nesting budget is reached; TLC's  *)
(* reachable states ARE the closure.  Classes: at most one node of a case  *)
(* carries a non-default class (each-choice coverage: every class of every *)
(* position of every term occurs, all other positions at their default).   *)
(*                                                                         *)
(* The tables of leaves / constructors / classes are not written here: the *)
(* harness prints them (codec_replay --mode universe), the check selects   *)
(* the per-budget subsets and passes them as JSON (env GENCFG), so the     *)
(* names can never disagree with the Rust side.  TLC cannot evaluate the   *)
(* codec (varints, zig-zag, 128-bit arithmetic): the class names are       *)
(* concretised by codec_replay, e.g. <<"U64", "b3m1">> = 2^21 - 1,         *)
(* <<"I32", "b2">> = the value whose zig-zag image is 2^14.                *)
(*                                                                         *)
(* Every emitted case is one JSON line; codec_replay places consecutive    *)
(* cases into the pools of the FIFO shapes generated from Codec.tla.       *)
(***************************************************************************)
EXTENDS Naturals, Sequences, FiniteSets, TLC, Json, IOUtils

Cfg == JsonDeserialize(IOEnv.GENCFG)
(* Cfg.budgets : sequence of [b      |-> nesting depth of the cases of this budget,                 *)
(*                            leaves |-> sequence of [n, classes, def],                            *)
(*                            wraps  |-> sequence (per depth 1..b) of                               *)
(*                                       [un |-> seq of [n, classes, def], bin |-> same,           *)
(*                                        tup |-> seq of arities]]                                  *)
(*                            partners |-> default leaf terms used for the other argument positions *)
(*                            tupclasses |-> (optional) classes of tuples, default <<"-">>]         *)
Budget == atoi(IOEnv.BUDGET)     \* index into Cfg.budgets (one TLC run per budget)
B == Cfg.budgets[Budget]

VARIABLES term, depth, focus, done
vars == <<term, depth, focus, done>>

Range(s) == {s[i] : i \in DOMAIN s}

Init ==
    /\ \E l \in Range(B.leaves) : \E c \in Range(l.classes) :
          /\ term = <<l.n, c>>
          /\ focus = (c # l.def)
    /\ depth = 0
    /\ done = FALSE

ClassOk(k, c) == c = k.def \/ ~focus

WrapUn ==
    /\ ~done /\ depth < B.b
    /\ \E k \in Range(B.wraps[depth + 1].un) : \E c \in Range(k.classes) :
          /\ ClassOk(k, c)
          /\ term' = <<k.n, c, term>>
          /\ focus' = (focus \/ c # k.def)
    /\ depth' = depth + 1
    /\ UNCHANGED done

WrapBin ==
    /\ ~done /\ depth < B.b
    /\ \E k \in Range(B.wraps[depth + 1].bin) : \E c \in Range(k.classes) :
       \E p \in Range(B.partners) : \E side \in {1, 2} :
          /\ ClassOk(k, c)
          /\ term' = IF side = 1 THEN <<k.n, c, term, p>> ELSE <<k.n, c, p, term>>
          /\ focus' = (focus \/ c # k.def)
    /\ depth' = depth + 1
    /\ UNCHANGED done

(* tuple of arity n with the current term first or last.  Tuple classes    *)
(* (optional field of the budget): "-" = every position gets its own       *)
(* neighbouring value, "eq" = all positions are concretised from the SAME  *)
(* perturbation, so that equal classes of different leaf types carry equal *)
(* content (Interned<str> "x" next to Interned<String> "x").               *)
TupClasses == IF "tupclasses" \in DOMAIN B THEN Range(B.tupclasses) ELSE {"-"}
WrapTup ==
    /\ ~done /\ depth < B.b
    /\ \E n \in Range(B.wraps[depth + 1].tup) : \E first \in BOOLEAN : \E c \in TupClasses :
          LET P == B.partners
              others == [i \in 1..(n - 1) |-> P[((i - 1) % Len(P)) + 1]]
          IN term' = IF first THEN <<"Tuple", c, term>> \o others
                              ELSE <<"Tuple", c>> \o others \o <<term>>
    /\ depth' = depth + 1
    /\ UNCHANGED <<focus, done>>

Emit ==
    /\ ~done /\ depth = B.b
    /\ done' = TRUE
    /\ PrintT(ToJson(term))
    /\ UNCHANGED <<term, depth, focus>>

Next == WrapUn \/ WrapBin \/ WrapTup \/ Emit

Spec == Init /\ [][Next]_vars

(* sanity invariants of the enumeration itself                              *)
DepthOk == depth <= B.b
=============================================================================
