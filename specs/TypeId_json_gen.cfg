\* C14 generator only (no design invariants): prints the universe of env C14_SIG.
SPECIFICATION Spec
CONSTANTS
  Symbols <- JsonSymbols
  Profiles <- JsonProfiles
  Combine = "free"
  Forget <- NoForget
  Flatten = FALSE
  IgnoreSize = FALSE
  Emit = TRUE
INVARIANTS TypeOK
POSTCONDITION Stats
ALIAS Shown
CHECK_DEADLOCK FALSE
