\* S->I generator, plain operations: 2 types x 2 values, 2 handle variables,
\* every history of MaxOps operations (41336 for MaxOps = 5)
SPECIFICATION GSpec
CONSTANTS
  Threads = {1}
  Types = {1, 2}
  Values = {1, 2}
  Allocs = {1, 2, 3, 4}
  IntAllocs = TRUE
  MaxHandles = 2
  PerValueShard = FALSE
  Mutation = "none"
  VacuumOn = TRUE
  CodecSeqs <- NoShapes
  CodecThreads = {1}
  Shapes <- NoShapes
  MaxOps = 5
INVARIANT GenOK
CHECK_DEADLOCK FALSE
