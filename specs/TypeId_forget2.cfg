\* C14 mutation (b'): Result<T, E> forgets E - must FAIL
SPECIFICATION Spec
CONSTANTS
  Symbols <- SmallSymbols
  Profiles <- SmallProfiles
  Combine = "free"
  Forget <- ForgetResultErr
  Flatten = FALSE
  IgnoreSize = FALSE
  Emit = FALSE
INVARIANTS Injective
ALIAS Shown
CHECK_DEADLOCK FALSE
