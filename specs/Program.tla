------------------------------ MODULE Program ------------------------------
(***************************************************************************)
(* The query-program DSL shared with the Rust harness (harness/src/dsl.rs) *)
(* and its from-scratch semantics.                                         *)
(*                                                                         *)
(* A program is a record [m |-> modulus, nodes |-> <<node_1 .. node_N>>].  *)
(* node = [kind |-> "In"|"Nm"|"Fw"|"Pj"|"Ex", init, code, post, panic_if]  *)
(* item = [g, gc, mode, deps, w, c]: if the guard holds on the accumulator *)
(*   read deps[1..] in order and fold them into the accumulator.           *)
(* Node ids are 1-based.  In acyclic programs every dependency of node n   *)
(* has a smaller id, so a valuation is computed by one left-to-right pass. *)
(***************************************************************************)
EXTENDS Integers, Sequences, FiniteSets

None == -1   \* "no value" for integer-valued cells

NodeIds(p) == 1..Len(p.nodes)

IsSource(nd) == nd.kind \in {"In", "Ex"}

Guard(it, acc) ==
    CASE it.g = 0 -> TRUE
      [] it.g = 1 -> acc = it.gc
      [] OTHER    -> acc # it.gc

StepV(p, it, i, acc, v) == (acc + (it.w + (i - 1)) * v + it.c) % p.m

Post(nd, acc) == IF nd.post = 0 THEN acc ELSE IF acc >= nd.post THEN 1 ELSE 0

SccDefault(nd) ==
    CASE nd.kind = "Nm" -> 7
      [] nd.kind = "Fw" -> 8
      [] nd.kind = "Pj" -> 9
      [] OTHER -> 0

RECURSIVE RunDeps(_, _, _, _, _, _)
RunDeps(p, it, i, acc, reads, val) ==
    IF i > Len(it.deps) THEN [acc |-> acc, reads |-> reads]
    ELSE LET d == it.deps[i]
             v == val[d]
         IN  RunDeps(p, it, i + 1, StepV(p, it, i, acc, v),
                     Append(reads, <<d, v>>), val)

RECURSIVE RunItems(_, _, _, _, _, _)
RunItems(p, nd, k, acc, reads, val) ==
    IF k > Len(nd.code) THEN [acc |-> acc, reads |-> reads]
    ELSE LET it == nd.code[k] IN
         IF Guard(it, acc)
         THEN LET r == RunDeps(p, it, 1, acc, reads, val)
              IN  RunItems(p, nd, k + 1, r.acc, r.reads, val)
         ELSE RunItems(p, nd, k + 1, acc, reads, val)

(* The result of running node n's executor when every dependency read d    *)
(* yields val[d]: its output and the ordered list of <<dep, value>> reads. *)
Eval(p, n, val) ==
    LET nd == p.nodes[n]
        r  == RunItems(p, nd, 1, nd.init, <<>>, val)
    IN  [out |-> Post(nd, r.acc), reads |-> r.reads]

(* From-scratch valuation of an acyclic program (deps < n) under env,      *)
(* env[n] being the value of source node n (input or external sample).     *)
RECURSIVE ValUpTo(_, _, _)
ValUpTo(p, env, n) ==
    IF n = 0 THEN <<>>
    ELSE LET prev == ValUpTo(p, env, n - 1)
             nd   == p.nodes[n]
         IN  Append(prev, IF IsSource(nd) THEN env[n]
                          ELSE Eval(p, n, prev).out)

Valuation(p, env) == ValUpTo(p, env, Len(p.nodes))

Acyclic(p) ==
    \A n \in NodeIds(p) : \A k \in 1..Len(p.nodes[n].code) :
        \A i \in 1..Len(p.nodes[n].code[k].deps) : p.nodes[n].code[k].deps[i] < n

(* Static dependency targets of node n (all items, guard ignored).         *)
StaticDeps(p, n) ==
    UNION { { p.nodes[n].code[k].deps[i] : i \in 1..Len(p.nodes[n].code[k].deps) }
            : k \in 1..Len(p.nodes[n].code) }
=============================================================================
