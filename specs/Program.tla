------------------------------ MODULE Program ------------------------------
(***************************************************************************)
(* The query-program DSL shared with the Rust harness (harness/src/dsl.rs) *)
(* and its from-scratch semantics.                                         *)
(*                                                                         *)
(* A program is a record [m |-> modulus, nodes |-> <<node_1 .. node_N>>].  *)
(* node = [kind |-> "In"|"Nm"|"Fw"|"Pj"|"Ex", init, code, post, panic_if]  *)
(* item = [g, gc, mode, deps, w, c]: if the guard holds on the accumulator *)
(*   read deps[1..] in order and fold them into the accumulator.           *)
(* Node ids are 1-based.  In acyclic programs every dependency of node n   *)
(* has a smaller id, so a valuation is computed by one left-to-right pass. *)
(***************************************************************************)
EXTENDS Integers, Sequences, FiniteSets

None == -1   \* "no value" for integer-valued cells

NodeIds(p) == 1..Len(p.nodes)

IsSource(nd) == nd.kind \in {"In", "Ex"}

Guard(it, acc) ==
    CASE it.g = 0 -> TRUE
      [] it.g = 1 -> acc = it.gc
      [] OTHER    -> acc # it.gc

StepV(p, it, i, acc, v) == (acc + (it.w + (i - 1)) * v + it.c) % p.m

Post(nd, acc) == IF nd.post = 0 THEN acc ELSE IF acc >= nd.post THEN 1 ELSE 0

SccDefault(nd) ==
    CASE nd.kind = "Nm" -> 7
      [] nd.kind = "Fw" -> 8
      [] nd.kind = "Pj" -> 9
      [] OTHER -> 0

RECURSIVE RunDeps(_, _, _, _, _, _)
RunDeps(p, it, i, acc, reads, val) ==
    IF i > Len(it.deps) THEN [acc |-> acc, reads |-> reads]
    ELSE LET d == it.deps[i]
             v == val[d]
             \* mode 4 (hedged read): the first dependency never contributes to the result
             acc2 == IF it.mode = 4 /\ i = 1 THEN acc ELSE StepV(p, it, i, acc, v)
         IN  RunDeps(p, it, i + 1, acc2, Append(reads, <<d, v>>), val)

RECURSIVE RunItems(_, _, _, _, _, _)
RunItems(p, nd, k, acc, reads, val) ==
    IF k > Len(nd.code) THEN [acc |-> acc, reads |-> reads]
    ELSE LET it == nd.code[k] IN
         IF Guard(it, acc)
         THEN LET r == RunDeps(p, it, 1, acc, reads, val)
              IN  RunItems(p, nd, k + 1, r.acc, r.reads, val)
         ELSE RunItems(p, nd, k + 1, acc, reads, val)

(* The result of running node n's executor when every dependency read d    *)
(* yields val[d]: its output and the ordered list of <<dep, value>> reads. *)
Eval(p, n, val) ==
    LET nd == p.nodes[n]
        r  == RunItems(p, nd, 1, nd.init, <<>>, val)
    IN  [out |-> Post(nd, r.acc), reads |-> r.reads]

(* From-scratch valuation of an acyclic program (deps < n) under env,      *)
(* env[n] being the value of source node n (input or external sample).     *)
RECURSIVE ValUpTo(_, _, _)
ValUpTo(p, env, n) ==
    IF n = 0 THEN <<>>
    ELSE LET prev == ValUpTo(p, env, n - 1)
             nd   == p.nodes[n]
         IN  Append(prev, IF IsSource(nd) THEN env[n]
                          ELSE Eval(p, n, prev).out)

Valuation(p, env) == ValUpTo(p, env, Len(p.nodes))

Acyclic(p) ==
    \A n \in NodeIds(p) : \A k \in 1..Len(p.nodes[n].code) :
        \A i \in 1..Len(p.nodes[n].code[k].deps) : p.nodes[n].code[k].deps[i] < n

(* Static dependency targets of node n (all items, guard ignored).         *)
StaticDeps(p, n) ==
    UNION { { p.nodes[n].code[k].deps[i] : i \in 1..Len(p.nodes[n].code[k].deps) }
            : k \in 1..Len(p.nodes[n].code) }
---------------------------------------------------------------------------
(* Cyclic programs (C06).                                                  *)
(*                                                                         *)
(* Family restriction (checked by CycWellFormed): in every executable node *)
(* all items but the last read source nodes or gates only, so whether the  *)
(* last item (the only one that may read other executable nodes) is        *)
(* executed is decided by input values alone.  The active dependency graph is then     *)
(* well defined; a node lies on a cycle iff it reaches itself.  Nodes on a *)
(* cycle evaluate to their executor's cycle default, all others normally.  *)
(* CycSimple additionally requires every node on a cycle to have exactly   *)
(* one active successor on a cycle, in which case the engine's depth-first *)
(* discovery marks the whole cycle whatever the entry point (see           *)
(* DESIGN.md 5/C06); only such (program, inputs) pairs are judged.         *)

IsSrc(p, d) == IsSource(p.nodes[d])

(* A gate is an executable node (typically a firewall) all of whose reads   *)
(* are sources: its value is a function of the inputs alone, it can lie on  *)
(* no cycle, and it may therefore guard cycle edges just like an input      *)
(* ("a cycle switched on and off by a firewall next to it").                *)
IsGate(p, d) ==
    /\ ~IsSrc(p, d)
    /\ \A k \in 1..Len(p.nodes[d].code) : \A i \in 1..Len(p.nodes[d].code[k].deps) :
          IsSrc(p, p.nodes[d].code[k].deps[i])
(* env extended by the values of the gates *)
GateEnv(p, env) ==
    [d \in NodeIds(p) |-> IF IsSrc(p, d) THEN env[d]
                          ELSE IF IsGate(p, d) THEN Eval(p, d, env).out ELSE None]

CycWellFormed(p) ==
    \A n \in NodeIds(p) : \A k \in 1..Len(p.nodes[n].code) :
        k < Len(p.nodes[n].code) =>
            \A i \in 1..Len(p.nodes[n].code[k].deps) :
                IsSrc(p, p.nodes[n].code[k].deps[i]) \/ IsGate(p, p.nodes[n].code[k].deps[i])

(* accumulator of node n after its source/gate-only prefix; ge = GateEnv *)
RECURSIVE PrefixAccG(_, _, _, _, _)
PrefixAccG(p, ge, nd, k, acc) ==
    IF k >= Len(nd.code) THEN acc
    ELSE LET it == nd.code[k] IN
         IF Guard(it, acc)
         THEN PrefixAccG(p, ge, nd, k + 1, RunDeps(p, it, 1, acc, <<>>, ge).acc)
         ELSE PrefixAccG(p, ge, nd, k + 1, acc)

(* executable nodes that n actively reads in its last item, given the gate environment *)
ActiveExecDepsG(p, ge, n) ==
    LET nd == p.nodes[n] IN
    IF IsSource(nd) \/ Len(nd.code) = 0 THEN {}
    ELSE LET last == nd.code[Len(nd.code)]
             acc  == PrefixAccG(p, ge, nd, 1, nd.init)
         IN  IF Guard(last, acc)
             THEN {last.deps[i] : i \in 1..Len(last.deps)} \ {d \in NodeIds(p) : IsSrc(p, d)}
             ELSE {}
ActiveExecDeps(p, env, n) == ActiveExecDepsG(p, GateEnv(p, env), n)

(* the active dependency graph under env as a function, computed once per valuation *)
ActiveFn(p, env) ==
    LET ge == GateEnv(p, env) IN [n \in NodeIds(p) |-> ActiveExecDepsG(p, ge, n)]

RECURSIVE ReachFn(_, _, _)
ReachFn(ad, frontier, seen) ==
    LET nxt == (UNION {ad[x] : x \in frontier}) \ seen
    IN  IF nxt = {} THEN seen ELSE ReachFn(ad, nxt, seen \cup nxt)

CycleNodesF(p, ad) == {n \in NodeIds(p) : ~IsSrc(p, n) /\ n \in ReachFn(ad, ad[n], ad[n])}
CycleNodes(p, env) == CycleNodesF(p, ActiveFn(p, env))
OnCycle(p, env, n) == n \in CycleNodes(p, env)

CycSimple(p, env) ==
    LET ad == ActiveFn(p, env)
        C == CycleNodesF(p, ad)
    IN  \A n \in C : Cardinality(ad[n] \cap C) = 1

(* valuation by rounds: sources, gates and cycle members first, then every  *)
(* node all of whose active dependencies are known                          *)
RECURSIVE CycRounds(_, _, _, _, _)
CycRounds(p, env, ad, val, k) ==
    IF k = 0 THEN val
    ELSE LET ready(n) == val[n] = None /\ \A d \in ad[n] : val[d] # None
             full == [d \in NodeIds(p) |-> IF IsSrc(p, d) THEN env[d] ELSE val[d]]
             nv == [n \in NodeIds(p) |-> IF ready(n) THEN Eval(p, n, full).out ELSE val[n]]
         IN  IF nv = val THEN val ELSE CycRounds(p, env, ad, nv, k - 1)

CycValuation(p, env) ==
    LET ge == GateEnv(p, env)
        ad == [n \in NodeIds(p) |-> ActiveExecDepsG(p, ge, n)]
        C == CycleNodesF(p, ad)
        v0 == [n \in NodeIds(p) |-> IF IsSrc(p, n) THEN env[n]
                                    ELSE IF n \in C THEN SccDefault(p.nodes[n])
                                    ELSE IF IsGate(p, n) THEN ge[n] ELSE None]
    IN  CycRounds(p, env, ad, v0, Len(p.nodes))
=============================================================================
