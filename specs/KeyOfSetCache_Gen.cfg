\* behaviour generator (use with -simulate): as coded, replayable interleavings
SPECIFICATION Spec
CONSTANTS
  Keys = {0, 1}
  Elems = {1, 2, 3}
  Clients = {1, 2}
  MaxBatches = 4
  MaxOps = 6
  T = 9
  LostInsert = TRUE
  FlushMax = TRUE
  FoldCancel = TRUE
  SpillCut = TRUE
  LateSnapshot = FALSE
  LateSnapFetch = FALSE
  SplitAppend = FALSE
  Gen = TRUE
  PrintCex = FALSE
CHECK_DEADLOCK FALSE
