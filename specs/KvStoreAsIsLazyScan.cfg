\* AS-IS (fjall iterators are not pinned): still inside the must/may envelope -> all invariants hold
SPECIFICATION Spec
CONSTANTS
  WCols = {}
  SCols = {"S1"}
  Keys = {"K1", "K2"}
  VTypes = {}
  Vals = {}
  Elems = {"E1", "E2"}
  MaxBatches = 2
  MaxBufs = 0
  MaxIters = 1
  MaxOps = 3
  AtomicCommit = TRUE
  SnapshotScan = FALSE
  Alias = {}
  TrackTouch = FALSE
  MisTag = {}
  BufOrder = "seq"
INVARIANTS TypeOK ReadsLastCommitted ScansExactMembers IterSound
PROPERTY OnlyCommitChanges
CHECK_DEADLOCK FALSE
