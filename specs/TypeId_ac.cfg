\* C14 mutation (a): combine associative-commutative (xor/add style mixing) - must FAIL
SPECIFICATION Spec
CONSTANTS
  Symbols <- SmallSymbols
  Profiles <- SmallProfiles
  Combine = "ac"
  Forget <- NoForget
  Flatten = FALSE
  IgnoreSize = FALSE
  Emit = FALSE
INVARIANTS Injective
ALIAS Shown
CHECK_DEADLOCK FALSE
