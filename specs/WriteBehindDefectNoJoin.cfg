SPECIFICATION Spec
CONSTANTS
  Threads = {t1, t2}
  Sers = {s1, s2}
  MaxBatch = 2
  Keys = {k1, k2}
  MaxFill = 1
  MaxGroup = 2
  Gated = TRUE
  AllowGap = FALSE
  AllowPass = FALSE
  AbortOnGap = TRUE
  DefectTakeAny = FALSE
  DefectNoJoin = TRUE
INVARIANTS
  TypeOK
  NoLossNoDup
  CommitOrder
  ExactlyOnce
  GroupIsContiguous
  DbIsFoldOfPrefix
  FinalContent
  DropDrains
  DropDrainsStrict
  NotifyAfterDurable
  StallOnlyBehindGap
  HeldBackBehindGap
  NoCrashWithoutGap
CHECK_DEADLOCK FALSE
