SPECIFICATION Spec
CONSTANTS
  Pool <- PoolX
  Kids <- KidsX
  TypeOf <- TypeX
  HashOf <- HashX
  MaxEnc = 3
  Aux = TRUE
  AllowUnregistered = FALSE
  PinDecoded = FALSE
  SeenByHashOnly = FALSE
  Emitting = TRUE
CHECK_DEADLOCK FALSE
