\* only SpillCut as coded: TLC must report ReadYourWrites violated (truncated Spilled iteration)
SPECIFICATION Spec
CONSTANTS
  Keys = {k1}
  Elems = {1, 2}
  Clients = {c1, c2}
  MaxBatches = 3
  MaxOps = 2
  T = 1
  LostInsert = FALSE
  FlushMax = FALSE
  FoldCancel = FALSE
  SpillCut = TRUE
  LateSnapshot = FALSE
  LateSnapFetch = FALSE
  SplitAppend = FALSE
  Gen = FALSE
  PrintCex = FALSE
SYMMETRY Sym
VIEW view
INVARIANTS ReadYourWrites
CHECK_DEADLOCK FALSE
