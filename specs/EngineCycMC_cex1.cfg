SPECIFICATION Spec
CONSTANTS
  SccFix = "retain"
  MaxEpochs = 2
  MaxSets = 1
  MaxQueries = 1
  Emitting = "bad"
VIEW View
CHECK_DEADLOCK FALSE
