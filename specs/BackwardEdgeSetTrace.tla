----------------------- MODULE BackwardEdgeSetTrace -----------------------
(***************************************************************************)
(* Trace validation for recorded executions of the real                    *)
(* CompressedBackwardEdgeSet (and of the other ConcurrentSet               *)
(* implementations) against the sequential meaning of a set: an iteration  *)
(* that starts after an insert completed (and before a remove of the same  *)
(* element started) sees the element.  Events carry a global order taken   *)
(* by the harness: `ins_end` is logged after insert_element returned,      *)
(* `iter` carries the elements seen and is logged with the position at     *)
(* which the iteration *started* (`iter_start` event), so a reported miss  *)
(* is a real one.                                                          *)
(***************************************************************************)
EXTENDS Integers, Sequences, FiniteSets, TLC, Json, IOUtils

VARIABLES l, completed, atStart, viol, nIter, done

Rec == ndJsonDeserialize(IOEnv.TRACE)
Ev == Rec[l]
Is(e) == l <= Len(Rec) /\ Ev.e = e
SeqToSet(s) == {s[i] : i \in 1..Len(s)}

Init == l = 1 /\ completed = {} /\ atStart = {} /\ viol = <<>> /\ nIter = 0 /\ done = FALSE

Reset == Is("reset") /\ completed' = {} /\ atStart' = {} /\ l' = l + 1 /\ UNCHANGED <<viol, nIter, done>>
InsEnd == Is("ins_end") /\ completed' = completed \cup {Ev.x} /\ l' = l + 1 /\ UNCHANGED <<atStart, viol, nIter, done>>
Other == l <= Len(Rec) /\ Ev.e \in {"ins_start", "prefill", "drift"} /\ l' = l + 1
         /\ UNCHANGED <<completed, atStart, viol, nIter, done>>
IterStart == Is("iter_start") /\ atStart' = completed /\ l' = l + 1 /\ UNCHANGED <<completed, viol, nIter, done>>
Iter ==
    /\ Is("iter")
    /\ LET seen == SeqToSet(Ev.seen)
           missing == atStart \ seen
       IN viol' = IF missing # {} THEN Append(viol, [at |-> l, kind |-> "lost_insert",
                                                    missing |-> Cardinality(missing)])
                  ELSE viol
    /\ nIter' = nIter + 1
    /\ l' = l + 1
    /\ UNCHANGED <<completed, atStart, done>>
Finish ==
    /\ l = Len(Rec) + 1 /\ ~done
    /\ JsonSerialize(IOEnv.OUT, [events |-> Len(Rec), iters |-> nIter, viol |-> viol])
    /\ done' = TRUE
    /\ UNCHANGED <<l, completed, atStart, viol, nIter>>

Next == Reset \/ InsEnd \/ Other \/ IterStart \/ Iter \/ Finish
Spec == Init /\ [][Next]_<<l, completed, atStart, viol, nIter, done>>
Accepted == TLCGet("stats").diameter >= Len(Rec) + 2
=============================================================================
