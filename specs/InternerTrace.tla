--------------------------- MODULE InternerTrace ---------------------------
(***************************************************************************)
(* Trace validation (I->S) for property C15: recorded executions of the    *)
(* real qbice_storage::intern::Interner, judged with the P-layer           *)
(* definitions of InternerObs.tla.                                         *)
(*                                                                         *)
(* The harness (harness/src/bin/intern_replay.rs) runs 1..16 OS threads    *)
(* against one interner.  Every event draws a sequence number from one     *)
(* global atomic counter; the trace (ndjson, env TRACE) is sorted by it.   *)
(*   acq  t h ty v p ok via   thread t holds handle h for (ty, v) pointing *)
(*                            at allocation p; drawn AFTER the call that   *)
(*                            produced the handle returned                 *)
(*   rel  t h                 drawn BEFORE the handle is dropped           *)
(*   gs   t ty v              drawn BEFORE a get_from_hash(ty, v) call     *)
(*   gn   t                   that call returned None; drawn AFTER it      *)
(*   panic t msg              a call into the interner panicked            *)
(*   codec t variant src out  one decode(encode(x)): the leaves of x and   *)
(*                            of the result as [ty, v, p], traversal order *)
(*   decfail t variant msg    decoding failed (panic or error)             *)
(*   run / reset              start / end of one run (fresh interner)      *)
(* Hence the recorded holding interval of a handle lies inside its real    *)
(* lifetime, and the set `held` of a state of this specification is a      *)
(* subset of the handles that really coexisted at the instant the event's  *)
(* sequence number was drawn.  CanonicalHandles must hold for it.          *)
(* A get_from_hash that returns None is explainable only if at some moment *)
(* of the call no handle for the value was alive: `cover[t]` is the set of *)
(* handles recorded as held from before the call's start until now.        *)
(*                                                                         *)
(* One event per step, every action total: the whole trace is consumed and *)
(* all violations are collected in `viol`, written as JSON to env OUT.     *)
(***************************************************************************)
EXTENDS InternerObs, TLC, Json, IOUtils

VARIABLES l, done, held, cover, viol, stats

Rec == ndJsonDeserialize(IOEnv.TRACE)

tvars == <<l, done, held, cover, viol, stats>>

ZeroStats == [runs |-> 0, acq |-> 0, rel |-> 0, joined |-> 0, joined_other_thread |-> 0,
              get_none |-> 0, get_none_while_other_held_part |-> 0, maxheld |-> 0,
              codec |-> 0, codec_shared |-> 0]
NoCover == [on |-> FALSE, ty |-> 0, v |-> 0, hs |-> {}]

Init ==
    /\ l = 1 /\ done = FALSE
    /\ held = {}          \* records [h, t, p, ty, v]
    /\ cover = <<>>       \* thread -> pending get_from_hash
    /\ viol = <<>>
    /\ stats = ZeroStats

Ev == Rec[l]
IsEvent(e) == l <= Len(Rec) /\ Ev.e = e
Consume == l' = l + 1 /\ done' = done

V(kind, e, other) == [at |-> l, kind |-> kind, ev |-> e, other |-> other]

Obs(H) == {[p |-> x.p, ty |-> x.ty, v |-> x.v] : x \in H}
CoverOf(t) == IF t \in DOMAIN cover THEN cover[t] ELSE NoCover
SetCover(t, c) == [x \in DOMAIN cover \cup {t} |-> IF x = t THEN c ELSE cover[x]]

StartRun ==
    /\ IsEvent("run")
    /\ held' = {} /\ cover' = <<>>
    /\ viol' = viol
    /\ stats' = [stats EXCEPT !.runs = @ + 1]
    /\ Consume

EndRun ==
    /\ IsEvent("reset")
    /\ viol' = IF held # {} THEN Append(viol, V("harness_handles_left", Ev, Cardinality(held))) ELSE viol
    /\ held' = {} /\ cover' = <<>>
    /\ stats' = stats
    /\ Consume

Acquire ==
    /\ IsEvent("acq")
    /\ LET h == [p |-> Ev.p, ty |-> Ev.ty, v |-> Ev.v]
           same == {x \in held : x.ty = Ev.ty /\ x.v = Ev.v}
           two == {x \in same : x.p # Ev.p}
           shared == {x \in held : x.p = Ev.p /\ ~(x.ty = Ev.ty /\ x.v = Ev.v)}
           dup == {x \in held : x.h = Ev.h}
           v1 == IF two # {} THEN <<V("two_allocations", Ev, CHOOSE x \in two : TRUE)>> ELSE <<>>
           v2 == IF shared # {} THEN <<V("shared_allocation", Ev, CHOOSE x \in shared : TRUE)>> ELSE <<>>
           v3 == IF ~Ev.ok THEN <<V("content", Ev, 0)>> ELSE <<>>
           v4 == IF dup # {} THEN <<V("harness_duplicate_handle", Ev, 0)>> ELSE <<>>
           \* the classification above must agree with the P-layer predicate
           v5 == IF Joinable(Obs(held), h) # (two = {} /\ shared = {})
                 THEN <<V("harness_spec_inconsistent", Ev, 0)>> ELSE <<>>
       IN  /\ viol' = viol \o v1 \o v2 \o v3 \o v4 \o v5
           /\ held' = held \cup {[h |-> Ev.h, t |-> Ev.t, p |-> Ev.p, ty |-> Ev.ty, v |-> Ev.v]}
           /\ stats' = [stats EXCEPT !.acq = @ + 1,
                                     !.joined = @ + (IF same # {} THEN 1 ELSE 0),
                                     !.joined_other_thread = @ + (IF \E x \in same : x.t # Ev.t THEN 1 ELSE 0),
                                     !.maxheld = IF Cardinality(held) + 1 > @ THEN Cardinality(held) + 1 ELSE @]
    /\ cover' = IF Ev.via = "get" THEN SetCover(Ev.t, NoCover) ELSE cover
    /\ Consume

Release ==
    /\ IsEvent("rel")
    /\ LET X == {x \in held : x.h = Ev.h} IN
        /\ viol' = IF X = {} THEN Append(viol, V("harness_unknown_handle", Ev, 0)) ELSE viol
        /\ held' = held \ X
    /\ cover' = [t \in DOMAIN cover |-> [cover[t] EXCEPT !.hs = @ \ {Ev.h}]]
    /\ stats' = [stats EXCEPT !.rel = @ + 1]
    /\ Consume

GetStart ==
    /\ IsEvent("gs")
    /\ cover' = SetCover(Ev.t, [on |-> TRUE, ty |-> Ev.ty, v |-> Ev.v,
                                hs |-> {x.h : x \in {y \in held : y.ty = Ev.ty /\ y.v = Ev.v}}])
    /\ UNCHANGED <<held, viol, stats>>
    /\ Consume

GetNone ==
    /\ IsEvent("gn")
    /\ LET c == CoverOf(Ev.t) IN
        /\ viol' = IF ~c.on THEN Append(viol, V("harness_get_without_start", Ev, 0))
                   ELSE IF c.hs # {} THEN Append(viol, V("lookup_missed_live", Ev, [ty |-> c.ty, v |-> c.v, h |-> CHOOSE x \in c.hs : TRUE]))
                   ELSE viol
        /\ stats' = [stats EXCEPT !.get_none = @ + 1,
                                  !.get_none_while_other_held_part = @ +
                                      (IF c.on /\ \E x \in held : x.ty = c.ty /\ x.v = c.v THEN 1 ELSE 0)]
    /\ cover' = SetCover(Ev.t, NoCover)
    /\ held' = held
    /\ Consume

Panic ==
    /\ IsEvent("panic")
    /\ viol' = Append(viol, V("panic", Ev, 0))
    /\ UNCHANGED <<held, cover, stats>>
    /\ Consume

(* decode(encode(src)) = out, leaves in traversal order                     *)
Codec ==
    /\ IsEvent("codec")
    /\ viol' = IF SamePattern(Ev.src, Ev.out) THEN viol ELSE Append(viol, V("decode_pattern", [e |-> "codec", t |-> Ev.t, variant |-> Ev.variant], 0))
    /\ stats' = [stats EXCEPT !.codec = @ + 1,
                              !.codec_shared = @ + (IF \E i, j \in 1..Len(Ev.src) : i < j /\ Ev.src[i].p = Ev.src[j].p THEN 1 ELSE 0)]
    /\ UNCHANGED <<held, cover>>
    /\ Consume

DecFail ==
    /\ IsEvent("decfail")
    /\ viol' = Append(viol, V("decode_failed", Ev, 0))
    /\ UNCHANGED <<held, cover, stats>>
    /\ Consume

Known == {"run", "reset", "acq", "rel", "gs", "gn", "panic", "codec", "decfail"}

Unknown ==
    /\ l <= Len(Rec) /\ Ev.e \notin Known
    /\ viol' = Append(viol, V("harness_unknown_event", Ev, 0))
    /\ UNCHANGED <<held, cover, stats>>
    /\ Consume

Finish ==
    /\ l = Len(Rec) + 1 /\ ~done
    /\ JsonSerialize(IOEnv.OUT, [events |-> Len(Rec), stats |-> stats, viol |-> viol])
    /\ done' = TRUE
    /\ UNCHANGED <<l, held, cover, viol, stats>>

Next == StartRun \/ EndRun \/ Acquire \/ Release \/ GetStart \/ GetNone \/ Panic \/ Codec \/ DecFail \/ Unknown \/ Finish

Spec == Init /\ [][Next]_tvars

(* While no violation has been recorded, the recorded live set is          *)
(* canonical (the property, as an invariant of the recorded execution).    *)
CanonicalWhileClean == viol = <<>> => CanonicalHandles(Obs(held))

TraceAccepted ==
    LET d == TLCGet("stats").diameter IN
    IF d >= Len(Rec) + 2 THEN TRUE
    ELSE Print(<<"TRACE NOT CONSUMED: stopped before event", d, "of", Len(Rec)>>, FALSE)
=============================================================================
