SPECIFICATION Spec
CONSTANTS
  MaxEpochs = 4
  MaxSets = 2
  MaxQueries = 3
  Restarts = TRUE
CHECK_DEADLOCK FALSE
