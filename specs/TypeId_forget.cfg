\* C14 mutation (b): Option<T> forgets .combine(T::STABLE_TYPE_ID) - must FAIL
SPECIFICATION Spec
CONSTANTS
  Symbols <- SmallSymbols
  Profiles <- SmallProfiles
  Combine = "free"
  Forget <- ForgetOption
  Flatten = FALSE
  IgnoreSize = FALSE
  Emit = FALSE
INVARIANTS Injective
ALIAS Shown
CHECK_DEADLOCK FALSE
