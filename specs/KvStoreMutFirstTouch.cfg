\* MUTATION (not the code as shipped): a member delete staged in a serialization buffer carries the wrong kind and,
\* as the first touch of its column in a session, opens the column's other family -> a scan returns something else
\* than the committed members (ScansExactMembers is violated; the trace needs a Reopen)
SPECIFICATION Spec
CONSTANTS
  WCols = {"W1"}
  SCols = {"S1"}
  Keys = {"K1"}
  VTypes = {"V1"}
  Vals = {1}
  Elems = {"E1", "E2"}
  MaxBatches = 2
  MaxBufs = 1
  MaxIters = 1
  MaxOps = 3
  AtomicCommit = TRUE
  SnapshotScan = TRUE
  Alias = {}
  TrackTouch = TRUE
  MisTag = {"sb_rem"}
  BufOrder = "seq"
INVARIANTS TypeOK ReadsLastCommitted ScansExactMembers IterSound
CHECK_DEADLOCK FALSE
