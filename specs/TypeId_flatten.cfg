\* C14 mutation (d): nested tuples are flattened ((A,B),C) = (A,B,C) - must FAIL
SPECIFICATION Spec
CONSTANTS
  Symbols <- SmallSymbols
  Profiles <- SmallProfiles
  Combine = "free"
  Forget <- NoForget
  Flatten = TRUE
  IgnoreSize = FALSE
  Emit = FALSE
INVARIANTS Injective
ALIAS Shown
CHECK_DEADLOCK FALSE
