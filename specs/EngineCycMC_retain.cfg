SPECIFICATION Spec
CONSTANTS
  SccFix = "retain"
  TfcChain = TRUE
  MaxEpochs = 2
  MaxSets = 1
  MaxQueries = 2
  Emitting = "no"
INVARIANT Correct
VIEW View
CHECK_DEADLOCK FALSE
