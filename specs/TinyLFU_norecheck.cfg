SPECIFICATION Spec
CONSTANTS
  FixUnpin = TRUE
  Recheck = FALSE
  Concurrent = TRUE
  DuelChoices <- Both
  MaxW = 2
  MaxVal = 1
  MaxPin = 1
  TrackRounds = FALSE
  Confs <- C1P
CONSTRAINT Constraint
INVARIANTS TypeOK PinnedNeverEvicted
CHECK_DEADLOCK FALSE
