------------------------------ MODULE TinyLFU ------------------------------
(***************************************************************************)
(* Mechanism specification of qbice_storage::tiny_lfu::TinyLFU (C16).      *)
(*                                                                         *)
(* Written in the shape of the code:                                       *)
(*   store            TinyLFUInner.storage (scc::HashMap), value 0 = absent*)
(*   pins             what the owner's LifecycleListener::is_pinned reads  *)
(*                    from the value (a pin count, as WideColumnCache)     *)
(*   wbuf             write_buffer (FIFO of Insert/Removed/Unpinned)       *)
(*   rbuf             read_buffer (bounded, lossy: a push on a full shard  *)
(*                    is dropped)                                          *)
(*   pol.w/pb/pt/pn   Lru regions window/probation/protected/pinned as     *)
(*                    sequences, index 1 = head (most recent), Len = tail  *)
(*   maint            the policy mutex: "idle" = free, otherwise the phase *)
(*                    of process_policy_message                            *)
(* One action per critical section: every public operation is one step     *)
(* (entry/read_sync hold the bucket lock and push the message inside it),  *)
(* maintenance is one step per popped message (each calls remove_closure   *)
(* at most once, which is atomic under the victim's entry lock), one step  *)
(* for the read-buffer drain and one per iteration of                      *)
(* attempt_to_trim_overflowing_pinned.                                     *)
(*                                                                         *)
(* Deliberate abstractions: the frequency sketch is a nondeterministic     *)
(* comparison (DuelChoices); the intrusive list is a sequence; the         *)
(* dedicated-thread mode differs from piggyback only in who runs the       *)
(* maintenance steps (Concurrent = TRUE covers it); a panic is the         *)
(* absorbing state failed # "".                                            *)
(*                                                                         *)
(* Switches: FixUnpin = FALSE is the code as it is (Policy::unpin unwraps  *)
(* peek_least_recent(Probation)); Recheck = TRUE is the code as it is      *)
(* (remove_closure asks is_pinned again under the entry lock), FALSE is a  *)
(* seeded mutation used by the self-test.                                  *)
(***************************************************************************)
EXTENDS Integers, Sequences, FiniteSets, TLC

CONSTANTS FixUnpin,     \* FALSE = as coded
          Recheck,      \* TRUE = as coded
          Concurrent,   \* TRUE: operations interleave with maintenance steps
          DuelChoices,  \* subset of BOOLEAN: may the challenger win a duel
          MaxW,         \* state constraint on Len(wbuf) (concurrent mode)
          MaxVal,       \* values written by Put (model checking only)
          MaxPin,       \* bound of the pin count (model checking only)
          TrackRounds,  \* count quiet maintenance rounds (BoundedAfterRounds)
          Confs         \* configurations chosen in Init

VARIABLES conf, store, pins, wbuf, rbuf, pol, maint, force, failed, pinSnap,
          ref, gone, badEvict, owed, quiet

mvars == <<conf, store, pins, wbuf, rbuf, pol, maint, force, failed, pinSnap>>
hvars == <<ref, gone, badEvict, owed, quiet>>
vars == <<mvars, hvars>>

(* conf = [cap, win, prot, mainlim, batch, rcap, strat, keys]: the numbers  *)
(* of Policy::new (window_capacity, protected_capacity, max_capacity -     *)
(* window_capacity), MAINTENANCE_BATCH_SIZE, the read-buffer shard size.   *)
K == 1..conf.keys
MaxCap == conf.win + conf.mainlim

(* Policy::new for capacities 1..100 in integer arithmetic.                *)
ConfOf(cap, strat, keys, batch, rcap) ==
    LET win == (cap + 99) \div 100
        main == cap - win
        prot == (4 * main + 4) \div 5
        prob == IF main - prot > 1 THEN main - prot ELSE 1
    IN [cap |-> cap, win |-> win, prot |-> prot, mainlim |-> prot + prob,
        batch |-> batch, rcap |-> rcap, strat |-> strat, keys |-> keys]

InSeq(s, k) == \E i \in 1..Len(s) : s[i] = k
Without(s, k) == SelectSeq(s, LAMBDA x : x # k)
Last(s) == s[Len(s)]
Front(s) == SubSeq(s, 1, Len(s) - 1)
Push(s, k) == <<k>> \o s
ToSet(s) == {s[i] : i \in 1..Len(s)}

Tracked(p, k) == InSeq(p.w, k) \/ InSeq(p.pb, k) \/ InSeq(p.pt, k) \/ InSeq(p.pn, k)

Msg(t, k) == [t |-> t, k |-> k]
Resident == {k \in K : store[k] # 0}
PinnedNow == {k \in K : pins[k] > 0}

(* remove_closure: TRUE = "the storage confirmed removal" (or the key was  *)
(* already gone).                                                          *)
PinView == IF Recheck THEN PinnedNow ELSE pinSnap
CanRemove(k) == store[k] = 0 \/ k \notin PinView

Res(p, a, f) == [p |-> p, ask |-> a, fail |-> f]

(* Lru::hit *)
Hit(p, k) ==
    IF InSeq(p.w, k) THEN [p EXCEPT !.w = Push(Without(p.w, k), k)]
    ELSE IF InSeq(p.pb, k) THEN
        LET pt1 == Push(p.pt, k)
            pb1 == Without(p.pb, k)
        IN IF Len(pt1) > conf.prot
           THEN [p EXCEPT !.pt = Front(pt1), !.pb = Push(pb1, Last(pt1))]
           ELSE [p EXCEPT !.pt = pt1, !.pb = pb1]
    ELSE IF InSeq(p.pt, k) THEN [p EXCEPT !.pt = Push(Without(p.pt, k), k)]
    ELSE p   \* pinned region or untracked: nothing

(* Policy::on_write; cw = "candidate_freq > victim_freq"                   *)
OnWrite(p, k, cw) ==
    IF Tracked(p, k) THEN Res(Hit(p, k), 0, "")
    ELSE
      LET p1 == [p EXCEPT !.w = Push(p.w, k)] IN
      IF Len(p1.w) <= conf.win THEN Res(p1, 0, "")
      ELSE IF Len(p1.pb) + Len(p1.pt) < conf.mainlim
      THEN Res([p1 EXCEPT !.w = Front(p1.w), !.pb = Push(p1.pb, Last(p1.w))], 0, "")
      ELSE IF p1.pb = <<>> THEN Res(p, 0, "on_write_probation_empty")
      ELSE
        LET c == Last(p1.w)
            v == Last(p1.pb)
        IN IF cw
           THEN LET p2 == IF CanRemove(v)
                          THEN [p1 EXCEPT !.pb = Front(p1.pb)]
                          ELSE [p1 EXCEPT !.pb = Front(p1.pb), !.pn = Push(p1.pn, v)]
                IN Res([p2 EXCEPT !.w = Front(p2.w), !.pb = Push(p2.pb, c)], v, "")
           ELSE Res(IF CanRemove(c)
                    THEN [p1 EXCEPT !.w = Front(p1.w)]
                    ELSE [p1 EXCEPT !.w = Front(p1.w), !.pn = Push(p1.pn, c)], c, "")

(* Policy::unpin; cw = "pinned_frequency > victim_frequency"               *)
Unpin(p, k, cw) ==
    IF ~InSeq(p.pn, k) THEN Res(p, 0, "")
    ELSE IF p.pb = <<>> THEN
        IF FixUnpin
        THEN Res([p EXCEPT !.pn = Without(p.pn, k), !.pb = Push(p.pb, k)], 0, "")
        ELSE Res(p, 0, "unpin_probation_empty")   \* .unwrap() on None
    ELSE
      LET v == Last(p.pb) IN
      IF cw
      THEN LET p2 == IF CanRemove(v)
                     THEN [p EXCEPT !.pb = Front(p.pb)]
                     ELSE [p EXCEPT !.pb = Front(p.pb), !.pn = Push(p.pn, v)]
           IN Res([p2 EXCEPT !.pn = Without(p2.pn, k), !.pb = Push(p2.pb, k)], v, "")
      ELSE Res(IF CanRemove(k) THEN [p EXCEPT !.pn = Without(p.pn, k)] ELSE p, k, "")

(* Policy::on_removed *)
OnRemoved(p, k) ==
    [w |-> Without(p.w, k), pb |-> Without(p.pb, k),
     pt |-> Without(p.pt, k), pn |-> Without(p.pn, k)]

Proc(m, cw) ==
    CASE m.t = "I" -> OnWrite(pol, m.k, cw)
      [] m.t = "U" -> Unpin(pol, m.k, cw)
      [] m.t = "R" -> Res(OnRemoved(pol, m.k), 0, "")

(* one iteration of attempt_to_trim_overflowing_pinned                     *)
TrimStep ==
    LET t == Last(pol.pn) IN
    IF CanRemove(t) THEN [p |-> [pol EXCEPT !.pn = Front(pol.pn)], ask |-> t, more |-> TRUE]
    ELSE [p |-> [pol EXCEPT !.pn = Push(Front(pol.pn), t)], ask |-> t, more |-> FALSE]

RECURSIVE HitAll(_, _)
HitAll(p, s) == IF s = <<>> THEN p ELSE HitAll(Hit(p, Head(s)), Tail(s))

(* The storage side of remove_closure(a): evict a resident, removable key. *)
Evicts(a) == a # 0 /\ store[a] # 0 /\ CanRemove(a)

ApplyAsk(a) ==
    IF Evicts(a)
    THEN /\ store' = [store EXCEPT ![a] = 0]
         /\ pins' = [pins EXCEPT ![a] = 0]
         /\ gone' = [gone EXCEPT ![a] = TRUE]
         /\ ref' = [ref EXCEPT ![a] = 0]
         /\ badEvict' = (badEvict \/ pins[a] > 0)
    ELSE UNCHANGED <<store, pins, gone, ref, badEvict>>

---------------------------------------------------------------------------
NeedMaint == force \/ Len(wbuf) > conf.batch \/ Len(rbuf) > conf.batch

(* Public operations. Single-threaded use (Concurrent = FALSE): piggyback   *)
(* maintenance runs to completion inside the call that crossed the         *)
(* threshold, so no operation starts while maintenance is due or running.  *)
OpEnabled == failed = "" /\ (Concurrent \/ (maint = "idle" /\ ~NeedMaint))

InitFor(c) ==
    /\ conf = c
    /\ store = [k \in 1..c.keys |-> 0]
    /\ pins = [k \in 1..c.keys |-> 0]
    /\ wbuf = <<>>
    /\ rbuf = <<>>
    /\ pol = [w |-> <<>>, pb |-> <<>>, pt |-> <<>>, pn |-> <<>>]
    /\ maint = "idle"
    /\ force = FALSE
    /\ failed = ""
    /\ pinSnap = {}
    /\ ref = [k \in 1..c.keys |-> 0]
    /\ gone = [k \in 1..c.keys |-> FALSE]
    /\ badEvict = FALSE
    /\ owed = {}
    /\ quiet = 0

Init == \E c \in Confs : InitFor(c)

(* completed maintenance rounds since the last operation (saturating)      *)
Round(q) == IF ~TrackRounds \/ q > conf.keys THEN q ELSE q + 1

PushRead(k) == rbuf' = IF Len(rbuf) < conf.rcap THEN Append(rbuf, k) ELSE rbuf

(* entry(k, Vacant -> insert(v) with initial pin count p | Occupied -> *get_mut() = v) *)
Put(k, v, p) ==
    /\ OpEnabled
    /\ IF store[k] = 0
       THEN /\ pins' = [pins EXCEPT ![k] = p]
            /\ wbuf' = Append(wbuf, Msg("I", k))
            /\ gone' = [gone EXCEPT ![k] = FALSE]
       ELSE UNCHANGED <<pins, wbuf, gone>>
    /\ store' = [store EXCEPT ![k] = v]
    /\ ref' = [ref EXCEPT ![k] = v]
    /\ quiet' = 0
    /\ UNCHANGED <<conf, rbuf, pol, maint, force, failed, pinSnap, badEvict, owed>>

(* get / get_map: result store[k]; a ReadHit is pushed even on a miss       *)
Get(k) ==
    /\ OpEnabled
    /\ PushRead(k)
    /\ quiet' = 0
    /\ UNCHANGED <<conf, store, pins, wbuf, pol, maint, force, failed, pinSnap, ref, gone, badEvict, owed>>

(* entry(k, Occupied -> remove()) *)
Rem(k) ==
    /\ OpEnabled
    /\ IF store[k] # 0
       THEN /\ store' = [store EXCEPT ![k] = 0]
            /\ pins' = [pins EXCEPT ![k] = 0]
            /\ wbuf' = Append(wbuf, Msg("R", k))
            /\ gone' = [gone EXCEPT ![k] = TRUE]
            /\ ref' = [ref EXCEPT ![k] = 0]
       ELSE UNCHANGED <<store, pins, wbuf, gone, ref>>
    /\ quiet' = 0
    /\ UNCHANGED <<conf, rbuf, pol, maint, force, failed, pinSnap, badEvict, owed>>

(* owner pins a resident entry (entry API, under the entry lock)           *)
Pin(k) ==
    /\ OpEnabled
    /\ store[k] # 0
    /\ pins' = [pins EXCEPT ![k] = @ + 1]
    /\ quiet' = 0
    /\ UNCHANGED <<conf, store, wbuf, rbuf, pol, maint, force, failed, pinSnap, ref, gone, badEvict, owed>>

(* owner drops one pin; viaGet: inside get_map as WideColumnCache does.    *)
(* Under Notify the owner then owes a call of TinyLFU::unpin.              *)
UnpinOwner(k, viaGet) ==
    /\ OpEnabled
    /\ store[k] # 0 /\ pins[k] > 0
    /\ pins' = [pins EXCEPT ![k] = @ - 1]
    /\ owed' = IF pins[k] = 1 /\ conf.strat = "Notify" THEN owed \cup {k} ELSE owed
    /\ IF viaGet THEN PushRead(k) ELSE rbuf' = rbuf
    /\ quiet' = 0
    /\ UNCHANGED <<conf, store, wbuf, pol, maint, force, failed, pinSnap, ref, gone, badEvict>>

(* TinyLFU::unpin(k): public under both strategies, any key                *)
Notify(k) ==
    /\ OpEnabled
    /\ wbuf' = Append(wbuf, Msg("U", k))
    /\ owed' = owed \ {k}
    /\ quiet' = 0
    /\ UNCHANGED <<conf, store, pins, rbuf, pol, maint, force, failed, pinSnap, ref, gone, badEvict>>

(* A user-level way to force one complete maintenance run: enough          *)
(* TinyLFU::unpin calls for a key that is never cached (each is a no-op    *)
(* for the policy) to cross the threshold.                                 *)
Flush ==
    /\ OpEnabled /\ ~Concurrent
    /\ force' = TRUE
    /\ UNCHANGED <<conf, store, pins, wbuf, rbuf, pol, maint, failed, pinSnap, hvars>>

---------------------------------------------------------------------------
(* process_policy_message under the policy mutex                           *)
MaintStart ==
    /\ failed = "" /\ maint = "idle" /\ NeedMaint
    /\ maint' = "write"
    /\ force' = FALSE
    /\ pinSnap' = IF Recheck THEN {} ELSE PinnedNow
    /\ UNCHANGED <<conf, store, pins, wbuf, rbuf, pol, failed, hvars>>

MaintWrite(cw) ==
    /\ failed = "" /\ maint = "write" /\ wbuf # <<>>
    /\ LET r == Proc(Head(wbuf), cw) IN
       /\ wbuf' = Tail(wbuf)
       /\ IF r.fail # ""
          THEN /\ failed' = r.fail
               /\ maint' = "idle"       \* the guard is released by unwinding
               /\ UNCHANGED <<pol, store, pins, gone, ref, badEvict>>
          ELSE /\ pol' = r.p
               /\ ApplyAsk(r.ask)
               /\ UNCHANGED <<failed, maint>>
    /\ UNCHANGED <<conf, rbuf, force, pinSnap, owed, quiet>>

MaintRead ==
    /\ failed = "" /\ maint = "write" /\ wbuf = <<>>
    /\ pol' = HitAll(pol, rbuf)
    /\ rbuf' = <<>>
    /\ maint' = IF conf.strat = "Poll" THEN "trim" ELSE "idle"
    /\ quiet' = IF conf.strat = "Poll" THEN quiet ELSE Round(quiet)
    /\ UNCHANGED <<conf, store, pins, wbuf, force, failed, pinSnap, ref, gone, badEvict, owed>>

MaintTrim ==
    /\ failed = "" /\ maint = "trim"
    /\ IF pol.pn = <<>>
       THEN /\ maint' = "idle"
            /\ quiet' = Round(quiet)
            /\ UNCHANGED <<pol, store, pins, gone, ref, badEvict>>
       ELSE LET r == TrimStep IN
            /\ pol' = r.p
            /\ ApplyAsk(r.ask)
            /\ maint' = IF r.more THEN "trim" ELSE "idle"
            /\ quiet' = IF r.more THEN quiet ELSE Round(quiet)
    /\ UNCHANGED <<conf, wbuf, rbuf, force, failed, pinSnap, owed>>

(* named disjuncts so that TLC's coverage reports every action            *)
DoPut == \E k \in K, v \in 1..MaxVal, p \in 0..1 : Put(k, v, p)
DoGet == \E k \in K : Get(k)
DoRem == \E k \in K : Rem(k)
DoNotify == \E k \in K : Notify(k)
DoPin == \E k \in K : pins[k] < MaxPin /\ Pin(k)
DoUnpinOwner == \E k \in K, g \in BOOLEAN : UnpinOwner(k, g)
DoMaintWrite == \E cw \in DuelChoices : MaintWrite(cw)

Next ==
    \/ DoPut \/ DoGet \/ DoRem \/ DoNotify \/ DoPin \/ DoUnpinOwner \/ Flush
    \/ MaintStart \/ DoMaintWrite \/ MaintRead \/ MaintTrim

Spec == Init /\ [][Next]_vars

Constraint == Len(wbuf) <= MaxW

---------------------------------------------------------------------------
(* Properties                                                              *)

NoPanic == failed = ""

(* An entry that its owner reports as pinned at the instant of the         *)
(* eviction decision is never evicted.                                     *)
PinnedNeverEvicted == ~badEvict

(* An entry stays readable with its latest value until evicted or removed. *)
ReadableUntilGone ==
    \A k \in K : /\ gone[k] => store[k] = 0
                 /\ store[k] = ref[k]

NumI == Cardinality({i \in 1..Len(wbuf) : wbuf[i].t = "I"})
PendingU == {k \in K : \E i \in 1..Len(wbuf) : wbuf[i] = Msg("U", k)}

RegionInv ==
    LET all == pol.w \o pol.pb \o pol.pt \o pol.pn IN
    /\ Cardinality(ToSet(all)) = Len(all)
    /\ Len(pol.w) <= conf.win
    /\ Len(pol.pb) + Len(pol.pt) <= conf.mainlim
    /\ Len(pol.pt) <= conf.prot

(* no resident entry is unknown to the policy (that would be a leak)       *)
NoLeak ==
    \A k \in Resident : Tracked(pol, k) \/ \E i \in 1..Len(wbuf) : wbuf[i] = Msg("I", k)

(* what the mechanism guarantees at every instant                          *)
BoundedM ==
    Cardinality(Resident) <= MaxCap + Cardinality(ToSet(pol.pn) \cap Resident) + NumI

(* Notify, owner keeps the contract: resident <= max_capacity + pinned (or *)
(* owed / buffered notification) + buffered inserts; max_capacity is       *)
(* capacity or capacity+1, the write buffer holds <= batch+1 messages in   *)
(* single-threaded use: fixed slack = batch + 2 = 34.                      *)
BoundedNotify ==
    (conf.strat = "Notify" /\ failed = "") =>
        Cardinality(Resident) <=
            MaxCap + Cardinality((PinnedNow \cup owed \cup PendingU) \cap Resident) + NumI

SlackOK == ~Concurrent => Len(wbuf) <= conf.batch + 1

(* Poll has no notification: stale entries leave the pinned region one run *)
(* per maintenance round, a round ends at the first still-pinned entry.    *)
(* After pinned+1 complete rounds without owner activity nothing stale is  *)
(* left (Notify: after one round with all notifications delivered).        *)
BoundedAfterRounds ==
    (~Concurrent /\ failed = "" /\ maint = "idle" /\ ~NeedMaint /\ wbuf = <<>>) =>
        LET need == IF conf.strat = "Poll" THEN Cardinality(PinnedNow) + 1 ELSE 1 IN
        (quiet >= need /\ owed = {}) =>
            Cardinality(Resident) <= MaxCap + Cardinality(PinnedNow)

(* The literal reading of the property ("capacity + currently pinned +     *)
(* fixed slack" right after ONE complete maintenance round).  Holds for    *)
(* Notify, does not hold for Poll (KF_POLL_LINGER): kept as a separate     *)
(* invariant so that TLC exhibits the counterexample.                      *)
BoundedStrict ==
    (~Concurrent /\ failed = "" /\ maint = "idle" /\ ~NeedMaint /\ wbuf = <<>>
        /\ quiet >= 1 /\ owed = {}) =>
        Cardinality(Resident) <= MaxCap + Cardinality(PinnedNow)

TypeOK ==
    /\ maint \in {"idle", "write", "read", "trim"}
    /\ failed \in {"", "unpin_probation_empty", "on_write_probation_empty"}
    /\ \A k \in K : pins[k] > 0 => store[k] # 0
    /\ Len(rbuf) <= conf.rcap
=============================================================================
