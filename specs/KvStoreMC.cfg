\* exhaustive: all four columns, 2 batches + 1 serialization buffer + 1 iterator, <= 2 ops
SPECIFICATION Spec
CONSTANTS
  WCols = {"W1", "W2"}
  SCols = {"S1", "S2"}
  Keys = {"K1", "K2"}
  VTypes = {"V1", "V2"}
  Vals = {1, 2}
  Elems = {"E1", "E2"}
  MaxBatches = 2
  MaxBufs = 1
  MaxIters = 1
  MaxOps = 2
  AtomicCommit = TRUE
  SnapshotScan = TRUE
  Alias = {}
  TrackTouch = FALSE
  MisTag = {}
  BufOrder = "seq"
INVARIANTS TypeOK ReadsLastCommitted ScansExactMembers IterSound ResultsIgnoreTouched OwnFamilyOnly BufferIsSequence
PROPERTY OnlyCommitChanges
CHECK_DEADLOCK FALSE
