SPECIFICATION Spec
CONSTANTS
  Keys = {"K1", "K2"}
  VTypes = {"V1", "V2"}
  Vals = {1, 2}
  Elems = {"E1", "E2"}
  MaxBatches = 2
  MaxBufs = 1
  MaxIters = 1
  MaxOps = 3
  AtomicCommit = TRUE
  SnapshotScan = TRUE
  Alias = {}
INVARIANTS TypeOK ReadsLastCommitted ScansExactMembers IterSound
PROPERTY OnlyCommitChanges
CHECK_DEADLOCK FALSE
