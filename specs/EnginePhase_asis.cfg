SPECIFICATION Spec
CONSTANTS
  Readers = {1, 2, 3}
  MaxSessions = 2
  QueriesPerReader = 2
  LockBeforeBump = FALSE
  DropSessions = TRUE
  EarlyRelease = FALSE
  Emit = FALSE
INVARIANT ReaderSeesSnap
INVARIANT Exclusion
INVARIANT DroppedStaysExclusive
VIEW View
CHECK_DEADLOCK FALSE
