\* exhaustive enumeration of the "a serialization buffer is a sequence" behaviours (breadth-first, one JSON line per behaviour)
SPECIFICATION BOSpec
CONSTANTS
  WCols = {"W1", "W2"}
  SCols = {"S1", "S2"}
  Keys <- GenKeys
  VTypes <- GenVTypes
  Elems <- GenElems
  Vals = {1, 2}
  MaxBatches = 1
  MaxBufs = 2
  MaxIters = 0
  MaxOps = 1000000
  AtomicCommit = TRUE
  SnapshotScan = TRUE
  Alias = {}
  TrackTouch = FALSE
  MisTag = {}
  BufOrder = "seq"
INVARIANTS TypeOK ReadsLastCommitted ScansExactMembers BufferIsSequence
CHECK_DEADLOCK FALSE
