------------------------- MODULE KeyOfSetCacheTrace -------------------------
(***************************************************************************)
(* Validation of ONE recorded run of the real CacheKeyOfSetMap (ndjson,    *)
(* env TRACE) against the mechanism spec KeyOfSetCache *as coded* (all     *)
(* defect switches TRUE).  Used to classify a run in which CacheObsTrace   *)
(* found a wrong read; the run is explained by known findings only if      *)
(*   (i)  the as-coded model can produce every observed iteration result   *)
(*        and store-scan count, and                                        *)
(*   (ii) every element that is wrong for the reference set carries a      *)
(*        signature tag at that read: KF5 (set installed from a snapshot   *)
(*        that misses a later append), KF6 / FOLD (staging overlay whose   *)
(*        fold is not last-write-wins, with / without a retained committed *)
(*        operation), SPILL (Spilled iterator cut short).                  *)
(* Operations are start / end events; the model's internal steps are       *)
(* hidden and placed by TLC inside the operation's interval.  Acceptance = *)
(* `done` reachable (reported through the invariant NotDone); the tags are *)
(* written to env OUT.                                                     *)
(***************************************************************************)
EXTENDS KeyOfSetCache, IOUtils, SequencesExt

Rec == ndJsonDeserialize(IOEnv.TRACE)

(* keys and clients that occur in the trace (constant: evaluated once) *)
TKeys == {Rec[i].k : i \in {j \in 1..Len(Rec) : Rec[j].e = "gs" \/ Rec[j].e = "ws"}}
TClients == {Rec[i].c : i \in {j \in 1..Len(Rec) : Rec[j].e = "gs" \/ Rec[j].e = "ws" \/ Rec[j].e = "new"}}
TElems == {}

VARIABLES l, done,
          wpend,          \* [c -> pending write [b, k, op, lo, hi, started]]
          callow,
          pmust, pmay,    \* P-layer by events (as CacheObsTrace)
          pgmu, pgma,
          hk,             \* [c -> 0 no store scan pending / 1 scan done, `db` event due / 2 inside the hook]
          tagsSeen,
          runTags         \* one record [id, tags] per finished run

tvars == <<vars, l, done, wpend, callow, pmust, pmay, pgmu, pgma, hk, tagsSeen, runTags>>
tview == <<view, l, done, wpend, callow, pmust, pmay, pgmu, pgma, hk, tagsSeen, runTags>>

NoW == [b |-> -1, k |-> 0, op |-> "", lo |-> 0, hi |-> 0, started |-> TRUE]

TInit ==
    /\ InitWith(Keys, Clients)
    /\ l = 1 /\ done = FALSE
    /\ wpend = [c \in Clients |-> NoW]
    /\ callow = 0
    /\ pmust = [k \in Keys |-> {}]
    /\ pmay = [k \in Keys |-> {}]
    /\ pgmu = [c \in Clients |-> {}]
    /\ pgma = [c \in Clients |-> {}]
    /\ hk = [c \in Clients |-> 0]
    /\ tagsSeen = {}
    /\ runTags = <<>>

Ev == Rec[l]
Is(e) == l <= Len(Rec) /\ Ev.e = e
Consume == l' = l + 1 /\ UNCHANGED done
TFrame == UNCHANGED <<l, done, wpend, callow, pmust, pmay, pgmu, pgma, hk, tagsSeen, runTags>>


RECURSIVE GeFrom(_, _)
GeFrom(c, j) == IF j > Len(Rec) \/ Rec[j].e = "reset" THEN [db |-> 0, r |-> <<>>]
                ELSE IF Rec[j].e = "ge" /\ Rec[j].c = c THEN Rec[j] ELSE GeFrom(c, j + 1)

TRun ==
    /\ Is("run")
    /\ ResetWith(Keys, Clients)
    /\ wpend' = [c \in Clients |-> NoW]
    /\ callow' = 0
    /\ pmust' = [k \in Keys |-> {}]
    /\ pmay' = [k \in Keys |-> {}]
    /\ pgmu' = [c \in Clients |-> {}]
    /\ pgma' = [c \in Clients |-> {}]
    /\ hk' = [c \in Clients |-> 0]
    /\ tagsSeen' = {}
    /\ UNCHANGED runTags
    /\ Consume

TReset ==
    /\ Is("reset")
    /\ runTags' = Append(runTags, [id |-> Ev.id, tags |-> tagsSeen])
    /\ UNCHANGED <<vars, wpend, callow, pmust, pmay, pgmu, pgma, hk, tagsSeen>>
    /\ Consume

TNew ==
    /\ Is("new") /\ Ev.b = NextEpoch
    /\ NewBatch(Ev.c)
    /\ UNCHANGED <<wpend, callow, pmust, pmay, pgmu, pgma, hk, tagsSeen, runTags>>
    /\ Consume

WEl(ev) == IF ev.op = "insr" THEN ev.v..(ev.hi - 1) ELSE {ev.v}
Running(c, k) == pc[c].k = k /\ pc[c].st \notin {"idle", "w_append", "w_update"}

TWriteStart ==
    /\ Is("ws")
    /\ wpend' = [wpend EXCEPT ![Ev.c] = [b |-> Ev.b, k |-> Ev.k, op |-> Ev.op, lo |-> Ev.v,
                                         hi |-> IF Ev.op = "insr" THEN Ev.hi ELSE Ev.v + 1,
                                         started |-> FALSE]]
    /\ pmay' = IF Ev.op = "rem" THEN pmay ELSE [pmay EXCEPT ![Ev.k] = @ \cup WEl(Ev)]
    /\ pmust' = IF Ev.op = "rem" THEN [pmust EXCEPT ![Ev.k] = @ \ WEl(Ev)] ELSE pmust
    /\ pgma' = [c \in Clients |-> IF Running(c, Ev.k) /\ Ev.op # "rem" THEN pgma[c] \cup WEl(Ev) ELSE pgma[c]]
    /\ pgmu' = [c \in Clients |-> IF Running(c, Ev.k) /\ Ev.op = "rem" THEN pgmu[c] \ WEl(Ev) ELSE pgmu[c]]
    /\ UNCHANGED <<vars, callow, hk, tagsSeen, runTags>>
    /\ Consume

(* hidden: put_set + pin + append of a single-element write *)
TApply(c) ==
    /\ ~wpend[c].started /\ wpend[c].op \in {"ins", "rem"}
    /\ DoWStart(c, wpend[c].b, wpend[c].k, wpend[c].op, wpend[c].lo)
    /\ wpend' = [wpend EXCEPT ![c].started = TRUE]
    /\ UNCHANGED <<nops, hist, l, done, callow, pmust, pmay, pgmu, pgma, hk, tagsSeen, runTags>>

TUpdate(c) == WUpdate(c) /\ TFrame

(* hidden: a range insert, applied in one step (only recorded from a single *)
(* client, nothing can interleave): every element is appended and the      *)
(* cached set, if any, is updated                                          *)
RECURSIVE PushAll(_, _, _, _, _)
PushAll(h, e, hi, ep, n) ==
    IF e >= hi THEN h ELSE PushAll(Push(h, [op |-> "ins", e |-> e, ep |-> ep, n |-> n + 1]), e + 1, hi, ep, n + 1)

TApplyRange(c) ==
    /\ ~wpend[c].started /\ wpend[c].op = "insr"
    /\ pc[c].st = "idle"
    /\ LET k == wpend[c].k
           ep == wpend[c].b
           es == wpend[c].lo..(wpend[c].hi - 1)
           upd == IF B(ep).ops[k] = {} THEN 1 ELSE 0
           ns == entry[k].set \cup es IN
        /\ B(ep).st = "open" /\ B(ep).owner = c
        /\ batch' = [batch EXCEPT ![ep + 1].ops[k] = {o \in @ : o.e \notin es} \cup {[e |-> e, op |-> "ins"] : e \in es}]
        /\ dirty' = [dirty EXCEPT ![k] = IF lpres[k] THEN @ + upd ELSE upd]
        /\ lpres' = [lpres EXCEPT ![k] = TRUE]
        /\ log' = [log EXCEPT ![k] = PushAll(@, wpend[c].lo, wpend[c].hi, ep, lver[k])]
        /\ lver' = [lver EXCEPT ![k] = @ + Cardinality(es)]
        /\ entry' = IF entry[k].st = "mem"
                    THEN IF Cardinality(ns) > T
                         THEN [entry EXCEPT ![k].st = "large", ![k].set = {}, ![k].taint = {}]
                         ELSE [entry EXCEPT ![k].set = ns, ![k].taint = {t \in @ : t[1] \notin es}]
                    ELSE entry
        /\ must' = [must EXCEPT ![k] = @ \cup es]
        /\ may' = [may EXCEPT ![k] = @ \cup es]
    /\ wpend' = [wpend EXCEPT ![c].started = TRUE]
    /\ UNCHANGED <<db, flight, pc, gmust, gmay, nops, hist, viol, l, done, callow, pmust, pmay, pgmu, pgma, hk, tagsSeen, runTags>>

TWriteEnd ==
    /\ Is("we")
    /\ wpend[Ev.c].b # -1 /\ wpend[Ev.c].started /\ pc[Ev.c].st = "idle"
    /\ wpend' = [wpend EXCEPT ![Ev.c] = NoW]
    /\ pmust' = IF Ev.op = "rem" THEN pmust ELSE [pmust EXCEPT ![Ev.k] = @ \cup WEl(Ev)]
    /\ pmay' = IF Ev.op = "rem" THEN [pmay EXCEPT ![Ev.k] = @ \ WEl(Ev)] ELSE pmay
    /\ UNCHANGED <<vars, callow, pgmu, pgma, hk, tagsSeen, runTags>>
    /\ Consume

TSubmit ==
    /\ Is("sub")
    /\ Submit(Ev.c, Ev.b)
    /\ UNCHANGED <<wpend, callow, pmust, pmay, pgmu, pgma, hk, tagsSeen, runTags>>
    /\ Consume

TCommitStart ==
    /\ Is("cs")
    /\ callow' = Ev.b + 1
    /\ UNCHANGED <<vars, wpend, pmust, pmay, pgmu, pgma, hk, tagsSeen, runTags>>
    /\ Consume

TCommit(e) == e < callow /\ Commit(e) /\ TFrame
TNotify(e) == e < callow /\ Notify(e) /\ TFrame

TCommitEnd ==
    /\ Is("ce")
    /\ Ev.b < NextEpoch /\ B(Ev.b).st = "not"
    /\ UNCHANGED <<vars, wpend, callow, pmust, pmay, pgmu, pgma, hk, tagsSeen, runTags>>
    /\ Consume

TGetStart ==
    /\ Is("gs")
    /\ GetStart(Ev.c, Ev.k)
    /\ pgmu' = [pgmu EXCEPT ![Ev.c] = pmust[Ev.k]]
    /\ pgma' = [pgma EXCEPT ![Ev.c] = pmay[Ev.k]]
    /\ UNCHANGED <<wpend, callow, pmust, pmay, hk, tagsSeen, runTags>>
    /\ Consume

TFrameH == UNCHANGED <<l, done, wpend, callow, pmust, pmay, pgmu, pgma, tagsSeen, runTags>>

(* the store scan precedes its `db` event, the install follows the `dbx` event *)
THidden(c) ==
    \/ /\ Snapshot(c) \/ Probe(c) \/ Flight(c) \/ (hk[c] = 0 /\ Install(c))
       /\ TFrame
    \/ /\ pc[c].st = "scan" /\ hk[c] = 0
       /\ Scan(c)
       /\ hk' = [hk EXCEPT ![c] = 1]
       /\ TFrameH

TDb ==
    /\ Is("db") /\ hk[Ev.c] = 1
    /\ hk' = [hk EXCEPT ![Ev.c] = 2]
    /\ UNCHANGED <<vars, wpend, callow, pmust, pmay, pgmu, pgma, tagsSeen, runTags>>
    /\ Consume

TDbx ==
    /\ Is("dbx") /\ hk[Ev.c] = 2
    /\ hk' = [hk EXCEPT ![Ev.c] = 0]
    /\ UNCHANGED <<vars, wpend, callow, pmust, pmay, pgmu, pgma, tagsSeen, runTags>>
    /\ Consume

(* hidden: the iteration; the recorded result must be a possible outcome.   *)
(* (large values are bound by \E v \in {expr}: TLC evaluates them once)      *)
TRead(c) ==
    /\ pc[c].st = "read" /\ hk[c] = 0
    /\ \E r \in {ToSet(GeFrom(c, l).r)} :
       LET k == pc[c].k
           shared == pc[c].ent = 1
           kind == IF shared THEN entry[k].st ELSE pc[c].est IN
        \/ /\ pc[c].spilled
           /\ \E H \in {FirstN(pc[c].scan, T + 1)} :
                /\ SpillAcceptsH(H, pc[c].scan, pc[c].sa, pc[c].sr, r)
                /\ pc' = [pc EXCEPT ![c].st = "done", ![c].res = r,
                                    ![c].tags = pc[c].stag \cup SpillTagsH(H, pc[c].scan, pc[c].sa, pc[c].sr)]
                /\ UNCHANGED hk
        \/ /\ ~pc[c].spilled /\ kind = "mem"
           /\ r = IF shared THEN entry[k].set ELSE pc[c].eset
           /\ pc' = [pc EXCEPT ![c].st = "done", ![c].res = r,
                               ![c].tags = IF shared THEN entry[k].taint ELSE pc[c].etag]
           /\ UNCHANGED hk
        \/ /\ ~pc[c].spilled /\ kind = "large"     \* Streaming: the store is scanned now
           /\ r = (db[k] \ pc[c].sr) \cup pc[c].sa
           /\ pc' = [pc EXCEPT ![c].st = "done", ![c].res = r, ![c].tags = pc[c].stag, ![c].ndb = @ + 1]
           /\ hk' = [hk EXCEPT ![c] = 1]
    /\ UNCHANGED <<log, lpres, dirty, lver, entry, db, batch, flight, must, may, gmust, gmay, nops, hist, viol>>
    /\ TFrameH

(* evictions are free, but only their order relative to the steps that look *)
(* at the cache / the staging table matters: allow them only when such a   *)
(* step is about to happen for the key                                     *)
TEvict(k) ==
    /\ \/ /\ \E c \in Clients : pc[c].k = k /\ pc[c].st \in {"probe", "install", "read", "w_update"}
          /\ EvictEntry(k)
       \/ /\ \/ \E c \in Clients : pc[c].k = k /\ pc[c].st = "snap"
             \/ \E c \in Clients : wpend[c].k = k /\ ~wpend[c].started
          /\ EvictLog(k)
    /\ TFrame

TGetEnd ==
    /\ Is("ge")
    /\ LET c == Ev.c IN
        /\ pc[c].st = "done" /\ pc[c].k = Ev.k /\ hk[c] = 0
        /\ pc[c].ndb = Ev.db
        /\ \E r \in {ToSet(Ev.r)} :
            /\ pc[c].res = r
            /\ \E wrong \in {(pgmu[c] \ r) \cup (r \ pgma[c])} :
               \E expl \in {{t \in pc[c].tags : t[1] \in wrong}} :
                /\ wrong \subseteq {t[1] : t \in expl}
                /\ tagsSeen' = tagsSeen \cup {t[2] : t \in expl}
        /\ pc' = [pc EXCEPT ![c] = Idle]
        /\ gmust' = [gmust EXCEPT ![c] = {}]
        /\ gmay' = [gmay EXCEPT ![c] = {}]
    /\ UNCHANGED <<log, lpres, dirty, lver, entry, db, batch, flight, must, may, nops, hist, viol,
                   wpend, callow, pmust, pmay, pgmu, pgma, hk, runTags>>
    /\ Consume

TSkip ==
    /\ l <= Len(Rec) /\ Ev.e \in {"flood", "panic", "dead"}
    /\ UNCHANGED <<vars, wpend, callow, pmust, pmay, pgmu, pgma, hk, tagsSeen, runTags>>
    /\ Consume

TFinish ==
    /\ l = Len(Rec) + 1 /\ ~done
    /\ JsonSerialize(IOEnv.OUT, [accepted |-> TRUE, runs |-> runTags])
    /\ done' = TRUE
    /\ UNCHANGED <<vars, l, wpend, callow, pmust, pmay, pgmu, pgma, hk, tagsSeen, runTags>>

(* (depth-first search explores the LAST disjunct first: events before      *)
(* hidden steps before evictions)                                          *)
TNext ==
    \/ \E k \in Keys : TEvict(k)
    \/ \E e \in 0..(NextEpoch - 1) : TCommit(e) \/ TNotify(e)
    \/ \E c \in Clients : TApply(c) \/ TApplyRange(c) \/ TUpdate(c) \/ THidden(c) \/ TRead(c)
    \/ TRun \/ TNew \/ TWriteStart \/ TWriteEnd \/ TSubmit \/ TCommitStart \/ TCommitEnd
    \/ TGetStart \/ TGetEnd \/ TDb \/ TDbx \/ TSkip \/ TReset \/ TFinish

TraceSpec == TInit /\ [][TNext]_tvars

NotDone == ~done
=============================================================================
