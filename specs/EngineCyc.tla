------------------------------ MODULE EngineCyc ------------------------------
(***************************************************************************)
(* M-layer (mechanism) specification of dependency-cycle handling in the   *)
(* qbice engine for sequential use (C06): detection in the table of        *)
(* computing queries, unwinding of the members, what a cut query records,  *)
(* and how later sessions verify (repair) queries that were cut.           *)
(*                                                                         *)
(* Like EngineSeq it is a big-step model: one user request is one step     *)
(* whose effect is computed by mutually recursive operators that thread    *)
(* the state record S.  Unlike EngineSeq the table of COMPUTING queries is *)
(* part of S (S.comp), because a cycle search started deep in the call     *)
(* chain reads the callees registered by, and sets the in-SCC flag of,     *)
(* queries further up.  Programs contain inputs, Normal queries and         *)
(* FIREWALL queries (no projections: their part is EngineSeq's):           *)
(* dirty propagation stops at a firewall, a recomputed firewall whose      *)
(* fingerprint changed propagates dirtiness itself, every query records    *)
(* the firewalls below it (transitive firewall callees, tfc), and a        *)
(* user-level or RepairFirewall request that finds a query out of date     *)
(* repairs that set first (Snapshot::repair_transitive_firewall_callees),  *)
(* before the query's lock is taken.  Fingerprints are tagged values.      *)
(*                                                                         *)
(*   QF / QFLoop   Engine::query_for (register_callee, exit_scc, fast      *)
(*                 path, slow path, is_query_running_in_scc)               *)
(*   CheckCyclic   Computing::check_cyclic: breadth-first over computing   *)
(*                 queries through registered callees, fixpoint marking    *)
(*   Execute       Snapshot::execute_query: the executor reads in order;   *)
(*                 a read that returns CyclicError unwinds it; an in-SCC   *)
(*                 query publishes its executor's cycle default            *)
(*   Repair        Snapshot::repair_query / should_recompute_query /       *)
(*                 check_callee: dirty edges only, repair the callee       *)
(*                 first, an error or an unobserved callee or a different  *)
(*                 fingerprint means recompute; a query marked in-SCC      *)
(*                 during the check re-executes with its previous callees  *)
(*                 re-registered                                           *)
(*   SetComputed   Snapshot::set_computed                                  *)
(*   DirtyProp / SessBegin / SessSet / SessCommit   input sessions         *)
(*                                                                         *)
(* Switch SccFix:                                                          *)
(*   "retain"  the code before fix FX_SCC_VALUE_RETAINED: a cut query       *)
(*             keeps the observation of the callee it was cut at and its   *)
(*             cycle default has the fingerprint of the plain value        *)
(*   "fresh"   every cycle default gets a fingerprint of its own (value,   *)
(*             timestamp)                                                  *)
(*   "forget"  a read that ends in CyclicError because the caller is in an *)
(*             SCC leaves no observation of that callee                    *)
(* TLC decides which of them meets `Correct` (EngineCycMC).                *)
(* Switch TfcChain: TRUE = requests made on behalf of a transitive-        *)
(* firewall repair carry the chain of queries already being handled and    *)
(* skip them (the code since FX_FW_TFC_RECURSION); FALSE = the code        *)
(* before: a firewall on a cycle has itself among its transitive firewall  *)
(* callees and the repair recurses until the fuel of the model is gone.    *)
(***************************************************************************)
EXTENDS Program, TLC

CONSTANTS SccFix, TfcChain

NoObs == [has |-> FALSE, v |-> <<>>, t |-> {}]
SeqSet(s) == {s[i] : i \in 1..Len(s)}

NoComp(p) == [on |-> FALSE, order |-> <<>>,
              obs |-> [d \in NodeIds(p) |-> NoObs], scc |-> FALSE, tfc |-> {}]

InitState(p) ==
    LET I == NodeIds(p) IN
    [ kind  |-> [n \in I |-> "none"],     \* stored QueryKind ("none" | "Input" | "Nm")
      lv    |-> [n \in I |-> None],       \* last verified (timestamp)
      fwd   |-> [n \in I |-> <<>>],       \* forward edge order
      obs   |-> [n \in I |-> [d \in I |-> NoObs]],   \* forward edge observations
      fp    |-> [n \in I |-> <<>>],       \* node info: value fingerprint
      tfc   |-> [n \in I |-> {}],         \* node info: transitive firewall callees
      val   |-> [n \in I |-> None],       \* stored result
      dirty |-> {},                       \* dirty edges <<caller, callee>>
      back  |-> [n \in I |-> {}],         \* backward edges
      dirtied |-> {},
      ts    |-> 0,
      comp  |-> [n \in I |-> NoComp(p)],  \* the computing table
      log   |-> <<>>,                     \* executor runs [n, reads, out] (out = None: cut)
      err   |-> "" ]

SetErr(S, e) == IF S.err = "" THEN [S EXCEPT !.err = e] ELSE S

(* ---- dirty propagation ------------------------------------------------- *)
RECURSIVE DirtyProp(_, _)
DirtyProp(S, work) ==
    IF work = {} THEN S
    ELSE LET x == CHOOSE x \in work : \A y \in work : x <= y
             rest == work \ {x}
         IN IF x \in S.dirtied THEN DirtyProp(S, rest)
            ELSE LET callers == S.back[x]
                     S1 == [S EXCEPT !.dirtied = @ \cup {x},
                                     !.dirty = @ \cup {<<c, x>> : c \in callers}]
                     cont == {c \in callers : S.kind[c] # "Fw"}    \* a firewall absorbs the dirtiness
                 IN DirtyProp(S1, rest \cup cont)

(* ---- the computing table ---------------------------------------------- *)
RegisterCallee(S, c, q) ==
    IF q \in SeqSet(S.comp[c].order) THEN S
    ELSE [S EXCEPT !.comp[c].order = Append(@, q)]

ObserveCallee(S, c, q) ==
    LET add == IF S.kind[q] = "Fw" THEN {q} ELSE IF S.kind[q] = "Nm" THEN S.tfc[q] ELSE {}
    IN [S EXCEPT !.comp[c].obs[q] = [has |-> TRUE, v |-> S.fp[q], t |-> S.tfc[q]],
                 !.comp[c].tfc = @ \cup add]
\* (the firewalls merged into the caller's set stay: only the observation is forgotten)
Unobserve(S, c, q) == [S EXCEPT !.comp[c].obs[q] = NoObs]

Callees(S, x) == SeqSet(S.comp[x].order)

(* check_cyclic, first half: computing queries reachable from the callee   *)
RECURSIVE ReachC(_, _, _)
ReachC(S, frontier, seen) ==
    LET nxt == {k \in UNION {Callees(S, x) : x \in frontier} : S.comp[k].on} \ seen
    IN IF nxt = {} THEN seen ELSE ReachC(S, nxt, seen \cup nxt)

(* second half: those of them from which the target can be reached         *)
RECURSIVE InScc(_, _, _, _)
InScc(S, R, target, acc) ==
    LET add == {x \in R \ acc : target \in Callees(S, x) \/ Callees(S, x) \cap acc # {}}
    IN IF add = {} THEN acc ELSE InScc(S, R, target, acc \cup add)

MarkScc(S, M) == [S EXCEPT !.comp = [x \in DOMAIN S.comp |->
                      IF x \in M THEN [S.comp[x] EXCEPT !.scc = TRUE] ELSE S.comp[x]]]

FastPath(S, q) ==
    IF S.kind[q] = "none" \/ S.lv[q] = None THEN "compute"
    ELSE IF S.lv[q] # S.ts THEN "repair"
    ELSE "hit"

Caller(k, id, req) == [k |-> k, id |-> id, req |-> req, chain |-> {}]
CallerRF(chain) == [k |-> "RF", id |-> 0, req |-> FALSE, chain |-> chain]

(* ---- publication ------------------------------------------------------- *)
SetComputed(p, S, q, value, fpv, existing, clean) ==
    LET old == SeqSet(existing)
        new == SeqSet(S.comp[q].order)
        back1 == [d \in DOMAIN S.back |-> IF d \in old THEN S.back[d] \ {q} ELSE S.back[d]]
        back2 == [d \in DOMAIN S.back |-> IF d \in new THEN back1[d] \cup {q} ELSE back1[d]]
    IN [S EXCEPT !.back = back2,
                 !.dirty = IF clean THEN @ \ {<<q, d>> : d \in old} ELSE @,
                 !.fp = [@ EXCEPT ![q] = fpv],
                 !.tfc = [@ EXCEPT ![q] = S.comp[q].tfc],
                 !.kind = [@ EXCEPT ![q] = p.nodes[q].kind],
                 !.lv = [@ EXCEPT ![q] = S.ts],
                 !.fwd = [@ EXCEPT ![q] = S.comp[q].order],
                 !.obs = [@ EXCEPT ![q] = S.comp[q].obs],
                 !.val = [@ EXCEPT ![q] = value],
                 !.comp = [@ EXCEPT ![q] = NoComp(p)]]

(* ---- the mutually recursive core --------------------------------------- *)
RECURSIVE QFLoop(_, _, _, _, _)
RECURSIVE Execute(_, _, _, _)
RECURSIVE RunDepsC(_, _, _, _, _, _, _)
RECURSIVE RunItemsC(_, _, _, _, _, _)
RECURSIVE Repair(_, _, _)
RECURSIVE CheckCallees(_, _, _, _, _, _, _)
RECURSIVE RepairEachFw(_, _, _, _, _)

(* query_for: returns [S, v, err]; err = CyclicError                        *)
QF(p, S, q, c, fuel) ==
    QFLoop(p, IF c.k = "Query" THEN RegisterCallee(S, c.id, q) ELSE S, q, c, fuel)

QFLoop(p, S, q, c, fuel) ==
    IF fuel = 0 THEN [S |-> SetErr(S, "fuel"), v |-> None, err |-> FALSE]
    ELSE IF S.comp[q].on
    THEN \* exit_scc: the callee is being computed
         \* no query caller: exit_scc lets the request through, it then waits for the entry for ever
         IF c.k # "Query" THEN [S |-> SetErr(S, "a request without a query caller met a computing query"), v |-> None, err |-> FALSE]
         ELSE LET R == ReachC(S, {q}, {q})
                  M == InScc(S, R, c.id, {})
                  S1 == MarkScc(S, M)
              IN IF q \in M
                 THEN [S |-> MarkScc(S1, {c.id}), v |-> None, err |-> TRUE]
                 \* not a cycle: the caller would wait for a query of its own call chain
                 ELSE [S |-> SetErr(S1, "deadlock"), v |-> None, err |-> FALSE]
    ELSE LET fp == FastPath(S, q) IN
         IF fp = "hit"
         THEN LET S1 == IF c.k = "Query" /\ c.req THEN ObserveCallee(S, c.id, q) ELSE S
                  \* is_query_running_in_scc(caller)
                  cut == c.k = "Query" /\ S1.comp[c.id].scc
                  S2 == IF cut /\ SccFix = "forget" THEN Unobserve(S1, c.id, q) ELSE S1
              IN [S |-> S2, v |-> IF cut \/ ~c.req THEN None ELSE S.val[q], err |-> cut]
         ELSE \* a user-level / RepairFirewall request repairs the transitive firewall callees of an
              \* out-of-date query first, outside the query's lock
              LET doTfc == fp = "repair" /\ c.k \in {"User", "RF"}
                  chain == c.chain \cup {q}
                  todo == IF TfcChain THEN S.tfc[q] \ chain ELSE S.tfc[q]
                  S1 == IF doTfc THEN RepairEachFw(p, S, todo, chain, fuel - 1) ELSE S
                  fp2 == FastPath(S1, q)
              IN IF fp2 = "hit" THEN QFLoop(p, S1, q, c, fuel - 1)
                 ELSE LET Sg == [S1 EXCEPT !.comp[q] = [NoComp(p) EXCEPT !.on = TRUE]]   \* get_write_guard
                          S2 == IF fp2 = "compute" THEN Execute(p, Sg, q, "fresh") ELSE Repair(p, Sg, q)
                      IN QFLoop(p, S2, q, c, fuel - 1)

(* repair every firewall of `todo` (ascending) as RepairFirewall            *)
RepairEachFw(p, S, todo, chain, fuel) ==
    IF todo = {} THEN S
    ELSE IF fuel = 0 THEN SetErr(S, "fuel")
    ELSE LET x == CHOOSE x \in todo : \A y \in todo : x <= y
             r == QFLoop(p, S, x, CallerRF(chain), fuel)
         IN RepairEachFw(p, r.S, todo \ {x}, chain, fuel)

(* the executor of q reads deps[i..] of item `it`; a CyclicError unwinds it *)
RunDepsC(p, S, q, it, i, acc, reads) ==
    IF i > Len(it.deps) THEN [S |-> S, acc |-> acc, reads |-> reads, err |-> FALSE]
    ELSE LET d == it.deps[i]
             r == QF(p, S, d, Caller("Query", q, TRUE), 6)
         IN IF r.err THEN [S |-> r.S, acc |-> acc, reads |-> reads, err |-> TRUE]
            ELSE RunDepsC(p, r.S, q, it, i + 1, StepV(p, it, i, acc, r.v), Append(reads, <<d, r.v>>))

RunItemsC(p, S, q, k, acc, reads) ==
    LET nd == p.nodes[q] IN
    IF k > Len(nd.code) THEN [S |-> S, acc |-> acc, reads |-> reads, err |-> FALSE]
    ELSE LET it == nd.code[k] IN
         IF ~Guard(it, acc) THEN RunItemsC(p, S, q, k + 1, acc, reads)
         ELSE LET r == RunDepsC(p, S, q, it, 1, acc, reads)
              IN IF r.err THEN r ELSE RunItemsC(p, r.S, q, k + 1, r.acc, r.reads)

Execute(p, S, q, mode) ==
    LET r == RunItemsC(p, S, q, 1, p.nodes[q].init, <<>>)
        inScc == r.S.comp[q].scc
        value == IF inScc THEN SccDefault(p.nodes[q]) ELSE Post(p.nodes[q], r.acc)
        S1 == [r.S EXCEPT !.log = Append(@, [n |-> q, reads |-> r.reads, out |-> IF inScc THEN None ELSE value])]
        \* a CyclicError is only ever handed to a caller that is marked
        S2 == IF r.err /\ ~inScc THEN SetErr(S1, "unwound outside an SCC") ELSE S1
        fpv == IF inScc /\ SccFix = "fresh" THEN <<"scc", value, S.ts>> ELSE <<"v", value>>
        \* a recomputed firewall whose fingerprint changed propagates the dirtiness itself
        updated == S.kind[q] = "Fw" /\ mode = "recompute" /\ S.fp[q] # fpv
        S3 == IF updated THEN DirtyProp(S2, {q}) ELSE S2
    IN SetComputed(p, S3, q, value, fpv, S.fwd[q], mode = "recompute")

(* check the recorded callees of q in order; stop at the first that differs *)
CheckCallees(p, S, q, order, i, cleaned, rtfc) ==
    IF i > Len(order) THEN [S |-> S, dec |-> "clean", cleaned |-> cleaned, rtfc |-> rtfc]
    ELSE LET d == order[i] IN
         IF <<q, d>> \notin S.dirty THEN CheckCallees(p, S, q, order, i + 1, cleaned, rtfc)
         ELSE LET r == IF S.kind[d] # "Input"
                       THEN QF(p, S, d, Caller("Query", q, FALSE), 6)
                       ELSE [S |-> S, v |-> None, err |-> FALSE]
                  o == S.obs[q][d]
              IN IF r.err \/ ~o.has \/ r.S.fp[d] # o.v
                 THEN [S |-> r.S, dec |-> "recompute", cleaned |-> cleaned, rtfc |-> rtfc]
                 ELSE CheckCallees(p, r.S, q, order, i + 1, cleaned \cup {d},
                                   rtfc \/ (r.S.kind[d] # "Fw" /\ r.S.tfc[d] # o.t))

Repair(p, S, q) ==
    LET r == CheckCallees(p, S, q, S.fwd[q], 1, {}, FALSE)
        inScc == r.S.comp[q].scc
    IN IF r.dec = "recompute" \/ inScc
       THEN \* clear_dependencies; an in-SCC query re-registers the callees of its previous execution
            LET S1 == [r.S EXCEPT !.comp[q].order = IF inScc THEN S.fwd[q] ELSE <<>>,
                                  !.comp[q].obs = [d \in NodeIds(p) |-> NoObs]]
            IN Execute(p, S1, q, "recompute")
       ELSE LET S1 == r.S
                callees == SeqSet(S1.fwd[q])
                newtfc == UNION {IF S1.kind[d] = "Fw" THEN {d} ELSE S1.tfc[d] : d \in callees}
            IN [S1 EXCEPT !.dirty = @ \ {<<q, d>> : d \in r.cleaned},
                          !.tfc = IF r.rtfc THEN [@ EXCEPT ![q] = newtfc] ELSE @,
                          !.lv = [@ EXCEPT ![q] = S1.ts],
                          !.comp = [@ EXCEPT ![q] = NoComp(p)]]

(* ---- user-level operations --------------------------------------------- *)
UserQuery(p, S, q) == QF(p, S, q, Caller("User", 0, TRUE), 10)

SessBegin(S) == [S EXCEPT !.ts = @ + 1]

SessSet(p, S, n, v) ==
    LET fresh == S.kind[n] = "none"
        res == IF fresh THEN "Fresh" ELSE IF S.val[n] # v THEN "Updated" ELSE "Unchanged"
    IN [S |-> [S EXCEPT !.kind = [@ EXCEPT ![n] = "Input"],
                        !.lv = [@ EXCEPT ![n] = S.ts],
                        !.fp = [@ EXCEPT ![n] = <<"v", v>>],
                        !.val = [@ EXCEPT ![n] = v]],
        res |-> res, changed |-> res = "Updated"]

SessCommit(S, batch) == DirtyProp([S EXCEPT !.dirtied = {}], batch)
=============================================================================
