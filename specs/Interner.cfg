\* exhaustive design check of C15: 2 threads, 2 types, 2 values, at most 2
\* handles per thread, vacuum enabled at every step (codec: InternerCodec.cfg;
\* 3 threads: Interner3.cfg, Interner3h1.cfg, InternerFull3.cfg)
SPECIFICATION Spec
CONSTANTS
  Threads = {t1, t2}
  Types = {ty1, ty2}
  Values = {v1, v2}
  Allocs = {a1, a2, a3, a4}
  IntAllocs = FALSE
  MaxHandles = 2
  PerValueShard = FALSE
  Mutation = "none"
  VacuumOn = TRUE
  CodecSeqs <- NoCodec
  CodecThreads <- NoThreads
SYMMETRY SymA
INVARIANTS TypeOK Canonical OneLivePerValue SlotTracksLive SlotContent StrongConsistent NoLeak DecodeOK
CHECK_DEADLOCK FALSE
