\* exhaustive design check of C15: 3 threads, 2 types, 2 values, 2 handle
\* variables per thread, vacuum enabled at every step, no codec ops
SPECIFICATION Spec
CONSTANTS
  Threads = {1, 2, 3}
  Types = {1, 2}
  Values = {1, 2}
  MaxHandles = 2
  NShards = 1
  NAllocs = 5
  Mutation = "none"
  VacuumOn = TRUE
  CodecSeqs <- NoCodec
INVARIANTS TypeOK Canonical OneLivePerValue SlotTracksLive SlotContent StrongConsistent DecodeOK LocksOK
CHECK_DEADLOCK FALSE
