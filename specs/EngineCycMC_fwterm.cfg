SPECIFICATION Spec
CONSTANTS
  SccFix = "forget"
  TfcChain = TRUE
  MaxEpochs = 3
  MaxSets = 1
  MaxQueries = 2
  Emitting = "no"
INVARIANT Terminates
VIEW View
CHECK_DEADLOCK FALSE
