\* as coded, replayable interleavings only: prints the history of every get
\* that violates ReadYourWrites (with its known-finding tags)
SPECIFICATION Spec
CONSTANTS
  Keys = {0}
  Elems = {1, 2}
  Clients = {1, 2}
  MaxBatches = 3
  MaxOps = 2
  T = 9
  LostInsert = TRUE
  FlushMax = TRUE
  FoldCancel = TRUE
  SpillCut = TRUE
  LateSnapshot = FALSE
  LateSnapFetch = FALSE
  SplitAppend = FALSE
  Gen = TRUE
  PrintCex = TRUE
VIEW view
CHECK_DEADLOCK FALSE
