SPECIFICATION FairSpec
CONSTANTS
  Readers = {1, 2}
  MaxSessions = 1
  QueriesPerReader = 1
  LockBeforeBump = FALSE
  DropSessions = TRUE
  EarlyRelease = FALSE
  Emit = FALSE
PROPERTY Progress
VIEW View
CHECK_DEADLOCK FALSE
