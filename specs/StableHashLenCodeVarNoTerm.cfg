\* C13 length-code design check: MUTATION variable-length digits without terminator: must FAIL UniquelyDecodable
SPECIFICATION Spec
CONSTANTS
  B = 3
  W = 2
  MaxLen = 3
  MaxOuter = 2
  Shapes = {"pair", "nested"}
  Enc <- EncVarNoTerm
INVARIANTS TypeOK DecoderSound Derivation UniquelyDecodable
ALIAS Show
CHECK_DEADLOCK FALSE
