---------------------------- MODULE MCEngineConc ----------------------------
EXTENDS EngineConc
\* queries 1..4: 4 reads <<3, 2>>, 3 reads <<2, 1>>, 2 reads <<1>>, 1 reads nothing
DepsDef == <<  <<>>, <<1>>, <<2, 1>>, <<3, 2>>  >>
Roots3 == <<4, 3, 4>>
Roots2 == <<4, 3>>
\* cyclic programs (C06)
\* ring of two behind a leaf read, a consumer of member 1: 1 reads <<4, 2>>, 2 reads <<1>>, 3 reads <<1>>, 4 nothing
DepsR2 == <<  <<4, 2>>, <<1>>, <<1>>, <<>>  >>
RootsR2 == <<1, 2, 3>>
RootsR2b == <<1, 2>>
\* ring of three, entered at every member: 1 -> 2 -> 3 -> 1; 4 reads member 2 and is read by nobody
DepsR3 == <<  <<2>>, <<3>>, <<1>>, <<2>>  >>
RootsR3 == <<1, 2, 3>>
RootsR3b == <<1, 3>>
\* self-loop behind a chain, and a second ring sharing nothing: 1 -> 1; 2 -> 1; 3 <-> 4
DepsSL == <<  <<1>>, <<1>>, <<2, 4>>, <<3>>  >>
RootsSL == <<2, 3, 4>>
=============================================================================
