------------------------------ MODULE CodecMC ------------------------------
(* Model-checking / generator instances of Codec (constants that a .cfg    *)
(* file cannot express).                                                    *)
EXTENDS Codec

(* handles: 1 = leaf content, 2 contains 1, 3 contains 1 and 2             *)
KidsI == <<<<>>, <<1>>, <<1, 2>>>>
PoolI == << <<1, 1>>, <<2, 1>>, <<1, 2>>, <<3, 2>>, <<2, 2, 1>> >>

(* three values without interned handles: pure FIFO shapes                  *)
KidsN == <<>>
PoolN == << <<>>, <<>>, <<>> >>
=============================================================================
