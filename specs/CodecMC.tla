------------------------------ MODULE CodecMC ------------------------------
(* Model-checking / generator instances of Codec (constants that a .cfg    *)
(* file cannot express).                                                    *)
EXTENDS Codec

(* handles: 1 = leaf content, 2 contains 1, 3 contains 1 and 2; one type    *)
(* (Interned<Dyn>), three different contents                                *)
KidsI == <<<<>>, <<1>>, <<1, 2>>>>
TypeI == <<"D", "D", "D">>
HashI == <<"1", "2", "3">>
PoolI == << <<1, 1>>, <<2, 1>>, <<1, 2>>, <<3, 2>>, <<2, 2, 1>> >>

(* three values without interned handles: pure FIFO shapes                  *)
KidsN == <<>>
TypeN == <<>>
HashN == <<>>
PoolN == << <<>>, <<>>, <<>> >>

(* CROSS-TYPE handles.  1, 2, 3: the SAME content hash "a" under three      *)
(* different types (Interned<str>, Interned<String>, Interned<W>, W a       *)
(* new-type of String: all three hash identically); 4: type of 1, another   *)
(* content; 5: an Interned<Dyn> whose content holds 1 and 2.                *)
KidsX == << <<>>, <<>>, <<>>, <<>>, <<1, 2>> >>
TypeX == << "S", "T", "W", "S", "D" >>
HashX == << "a", "a", "a", "b", "c" >>
PoolX == << <<1, 2>>,            \* (Interned<str> a, Interned<String> a)
            <<2, 1>>,            \* the other order
            <<3, 2>>,            \* new-type first, then its field type
            <<1, 3, 2, 1>>,      \* all three types, then a same-type repeat (a genuine reference)
            <<1, 4, 2>>,         \* same type / other content in between
            <<5>>,               \* both inside the content of one Interned<Dyn>
            <<2, 5, 1>> >>       \* outside, inside, outside again
=============================================================================
