SPECIFICATION GSpec
CONSTANTS
  FixUnpin = FALSE
  Recheck = TRUE
  Concurrent = FALSE
  DuelChoices <- Tie
  MaxW = 3
  MaxVal = 1
  MaxPin = 1
  TrackRounds = FALSE
  Confs <- GenWit
  MaxOps = 10
  EmitWhen = "failed"
  FlushWeight = 1
CONSTRAINT GConstraint
VIEW GenView
INVARIANT NotDone
CHECK_DEADLOCK FALSE
