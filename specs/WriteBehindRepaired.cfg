\* the proposed repair of KF_WB_GAP_ABORT (AbortOnGap = FALSE): Drop always returns,
\* the store keeps the prefix below the first gap
SPECIFICATION Spec
CONSTANTS
  Threads = {t1, t2}
  Sers = {s1, s2}
  MaxBatch = 3
  Keys = {k1}
  MaxFill = 1
  MaxGroup = 2
  Gated = TRUE
  AllowGap = TRUE
  AllowPass = FALSE
  AbortOnGap = FALSE
  DefectTakeAny = FALSE
  DefectNoJoin = FALSE
SYMMETRY Symm
INVARIANTS
  TypeOK
  NoLossNoDup
  CommitOrder
  ExactlyOnce
  GroupIsContiguous
  DbIsFoldOfPrefix
  FinalContent
  DropDrains
  DropDrainsStrict
  NotifyAfterDurable
  StallOnlyBehindGap
  HeldBackBehindGap
  NoCrashWithoutGap
CHECK_DEADLOCK FALSE
