SPECIFICATION GSpec
CONSTANTS
  Tasks = {1, 2, 3}
  Queries = {1, 2, 3, 4}
  Deps <- DepsF
  Roots <- RootsF
  SubscribeLate = FALSE
  MaxAbandon = 0
  SilentAbandon = FALSE
  RegisterLate = FALSE
  MarkCallerOnly = FALSE
INVARIANT Emit
INVARIANT SingleFlight
INVARIANT OncePerEpoch
INVARIANT CutExact
VIEW View
CHECK_DEADLOCK FALSE
