SPECIFICATION Spec
CONSTANTS
  Nodes = {1, 2, 3, 4}
  NoVisited = FALSE
  SingleSweep = TRUE
  Budget = 80
INVARIANT MarksTheCycle
INVARIANT AnswerRight
INVARIANT Terminates
CHECK_DEADLOCK FALSE
