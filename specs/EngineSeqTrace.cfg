SPECIFICATION Spec
CONSTANTS
  FixTFC = FALSE
  FixPBP = FALSE
POSTCONDITION Accepted
CHECK_DEADLOCK FALSE
