SPECIFICATION Spec
CONSTANTS
  FixTFC = TRUE
  FixPBP = TRUE
  MaxEpochs = 2
  MaxSets = 1
  MaxQueries = 2
INVARIANT Correct
VIEW View
CHECK_DEADLOCK FALSE
