---------------------------- MODULE InternerObs ----------------------------
(***************************************************************************)
(* P-layer of property C15: what a user of the interner can observe.       *)
(*                                                                         *)
(* A handle observation is a record [p, ty, v]: `p` the identity of the    *)
(* allocation the handle points to (Arc data pointer), `ty` the type the   *)
(* handle was requested for, `v` the value that was interned / looked up.  *)
(* The property is a predicate over the set of handles that are live at    *)
(* one instant; it does not mention any internals of the interner.  Both   *)
(* the mechanism specification (Interner.tla, invariant Canonical) and the *)
(* trace specification (InternerTrace.tla, recorded executions of the real *)
(* code) are judged with these definitions.                                *)
(***************************************************************************)
EXTENDS Naturals, FiniteSets, Sequences

(* equal values of one type -> one allocation                              *)
SamePtrPerValue(H) == \A x, y \in H : (x.ty = y.ty /\ x.v = y.v) => x.p = y.p

(* one allocation holds one value of one type: different types (and        *)
(* different values) never share                                           *)
NoSharingAcross(H) == \A x, y \in H : x.p = y.p => (x.ty = y.ty /\ x.v = y.v)

CanonicalHandles(H) == SamePtrPerValue(H) /\ NoSharingAcross(H)

(* The handle h may join the live set H.                                   *)
Joinable(H, h) ==
    /\ \A x \in H : (x.ty = h.ty /\ x.v = h.v) => x.p = h.p
    /\ \A x \in H : x.p = h.p => (x.ty = h.ty /\ x.v = h.v)

(* decode(encode(src)) = out: same values, same sharing                    *)
SamePattern(src, out) ==
    /\ Len(src) = Len(out)
    /\ \A i \in 1..Len(src) : out[i].ty = src[i].ty /\ out[i].v = src[i].v
    /\ \A i, j \in 1..Len(src) : (src[i].p = src[j].p) <=> (out[i].p = out[j].p)
=============================================================================
