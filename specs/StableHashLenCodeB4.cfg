\* C13 length-code design check: thorough: bytes 0..3, lengths 0..15, sequences up to 4 (boundary Esc=3 / 4)
SPECIFICATION Spec
CONSTANTS
  B = 4
  W = 2
  MaxLen = 4
  MaxOuter = 2
  Shapes = {"pair", "nested"}
  Enc <- EncFixed
INVARIANTS TypeOK DecoderSound PrefixCode UniquelyDecodable StreamPrefixFree Derivation
ALIAS Show
CHECK_DEADLOCK FALSE
