------------------------ MODULE WideColumnCacheTrace ------------------------
(***************************************************************************)
(* Validation of ONE recorded run of the real CacheSingleMap /             *)
(* CacheDynamicMap (ndjson, env TRACE) against the mechanism spec          *)
(* WideColumnCache *as coded* (StaleFill = TRUE).  Used to classify a run  *)
(* in which CacheObsTrace found a wrong read: the run is explained by the  *)
(* known finding only if                                                   *)
(*   (i)  the as-coded model can produce every observed get result and     *)
(*        store-read count of the run, and                                 *)
(*   (ii) every get that is wrong for the reference map returned an entry  *)
(*        that carries the KF4 signature (filled although a write to the   *)
(*        key raced with the filling reader).                              *)
(* Operations are recorded as start / end events; the model's internal     *)
(* steps (cache write, probe, flight, store read, fill, commit, notify,    *)
(* eviction) are hidden and may happen anywhere inside their operation's   *)
(* interval: TLC searches for a placement.  Acceptance = a state with      *)
(* `done` is reachable (reported as a violation of the invariant NotDone); *)
(* the tags that explain the wrong reads are written to env OUT.           *)
(***************************************************************************)
EXTENDS WideColumnCache, IOUtils

Rec == ndJsonDeserialize(IOEnv.TRACE)

(* keys and clients that occur in the trace (constant: evaluated once) *)
TKeys == {Rec[i].k : i \in {j \in 1..Len(Rec) : Rec[j].e = "gs" \/ Rec[j].e = "ws"}}
TClients == {Rec[i].c : i \in {j \in 1..Len(Rec) : Rec[j].e = "gs" \/ Rec[j].e = "ws" \/ Rec[j].e = "new"}}
TVals == {}

VARIABLES l, done,
          wpend,     \* [c -> the write between its ws and we: [b, k, v, applied] or NoW]
          callow,    \* commits released so far (epochs < callow may commit / notify)
          cand, gal, \* P-layer candidates (see CacheObsTrace)
          hk,        \* [c -> 0 no store read pending / 1 read done, `db` event due / 2 inside the hook]
          tagsSeen,
          runTags    \* one record [id, tags] per finished run

tvars == <<vars, l, done, wpend, callow, cand, gal, hk, tagsSeen, runTags>>
tview == <<view, l, done, wpend, callow, cand, gal, hk, tagsSeen, runTags>>

NoW == [b |-> -1, k |-> 0, v |-> 0, applied |-> TRUE]
AbsentV == -1

TInit ==
    /\ InitWith(Keys, Clients)
    /\ l = 1 /\ done = FALSE
    /\ wpend = [c \in Clients |-> NoW]
    /\ callow = 0
    /\ cand = [k \in Keys |-> {AbsentV}]
    /\ gal = [c \in Clients |-> {}]
    /\ hk = [c \in Clients |-> 0]
    /\ tagsSeen = {}
    /\ runTags = <<>>

Ev == Rec[l]
Is(e) == l <= Len(Rec) /\ Ev.e = e
Consume == l' = l + 1 /\ UNCHANGED done

(* model value of a recorded value: 0 is the model's "absent" *)
MV(op, v) == IF op = "rem" THEN NoVal ELSE v + 1
MR(r) == IF r = AbsentV THEN NoVal ELSE r + 1

TRun ==
    /\ Is("run")
    /\ ResetWith(Keys, Clients)
    /\ wpend' = [c \in Clients |-> NoW]
    /\ callow' = 0
    /\ cand' = [k \in Keys |-> {AbsentV}]
    /\ gal' = [c \in Clients |-> {}]
    /\ hk' = [c \in Clients |-> 0]
    /\ tagsSeen' = {}
    /\ UNCHANGED runTags
    /\ Consume

TReset ==
    /\ Is("reset")
    /\ runTags' = Append(runTags, [id |-> Ev.id, tags |-> tagsSeen])
    /\ UNCHANGED <<vars, wpend, callow, cand, gal, hk, tagsSeen>>
    /\ Consume

TNew ==
    /\ Is("new") /\ Ev.b = NextEpoch
    /\ NewBatch(Ev.c)
    /\ UNCHANGED <<wpend, callow, cand, gal, hk, tagsSeen, runTags>>
    /\ Consume

TWriteStart ==
    /\ Is("ws")
    /\ wpend' = [wpend EXCEPT ![Ev.c] = [b |-> Ev.b, k |-> Ev.k, v |-> MV(Ev.op, Ev.v), applied |-> FALSE]]
    /\ cand' = [cand EXCEPT ![Ev.k] = @ \cup {IF Ev.op = "rem" THEN AbsentV ELSE Ev.v}]
    /\ gal' = [c \in Clients |-> IF pc[c].st # "idle" /\ pc[c].k = Ev.k
                                  THEN gal[c] \cup {IF Ev.op = "rem" THEN AbsentV ELSE Ev.v} ELSE gal[c]]
    /\ UNCHANGED <<vars, callow, hk, tagsSeen, runTags>>
    /\ Consume

(* hidden: the cache / batch update of the pending write *)
TApply(c) ==
    /\ ~wpend[c].applied
    /\ DoWrite(c, wpend[c].b, wpend[c].k, wpend[c].v)
    /\ wpend' = [wpend EXCEPT ![c].applied = TRUE]
    /\ UNCHANGED <<nops, hist, l, done, callow, cand, gal, hk, tagsSeen, runTags>>

TWriteEnd ==
    /\ Is("we")
    /\ wpend[Ev.c].b # -1 /\ wpend[Ev.c].applied
    /\ wpend' = [wpend EXCEPT ![Ev.c] = NoW]
    /\ cand' = [cand EXCEPT ![Ev.k] = {IF Ev.op = "rem" THEN AbsentV ELSE Ev.v}]
    /\ UNCHANGED <<vars, callow, gal, hk, tagsSeen, runTags>>
    /\ Consume

TSubmit ==
    /\ Is("sub")
    /\ Submit(Ev.c, Ev.b)
    /\ UNCHANGED <<wpend, callow, cand, gal, hk, tagsSeen, runTags>>
    /\ Consume

TCommitStart ==
    /\ Is("cs")
    /\ callow' = Ev.b + 1
    /\ UNCHANGED <<vars, wpend, cand, gal, hk, tagsSeen, runTags>>
    /\ Consume

TCommit(e) == e < callow /\ Commit(e) /\ UNCHANGED <<l, done, wpend, callow, cand, gal, hk, tagsSeen, runTags>>
TNotify(e) == e < callow /\ Notify(e) /\ UNCHANGED <<l, done, wpend, callow, cand, gal, hk, tagsSeen, runTags>>

TCommitEnd ==
    /\ Is("ce")
    /\ Ev.b < NextEpoch /\ B(Ev.b).st = "not"
    /\ UNCHANGED <<vars, wpend, callow, cand, gal, hk, tagsSeen, runTags>>
    /\ Consume

TGetStart ==
    /\ Is("gs")
    /\ GetStart(Ev.c, Ev.k)
    /\ gal' = [gal EXCEPT ![Ev.c] = cand[Ev.k]]
    /\ UNCHANGED <<wpend, callow, cand, hk, tagsSeen, runTags>>
    /\ Consume

(* the store read precedes its `db` event, the fill follows the `dbx` event *)
THidden(c) ==
    \/ /\ Probe(c) \/ Flight(c) \/ (hk[c] = 0 /\ Fill(c))
       /\ UNCHANGED <<l, done, wpend, callow, cand, gal, hk, tagsSeen, runTags>>
    \/ /\ pc[c].st = "readdb" /\ hk[c] = 0
       /\ ReadDb(c)
       /\ hk' = [hk EXCEPT ![c] = 1]
       /\ UNCHANGED <<l, done, wpend, callow, cand, gal, tagsSeen, runTags>>

TDb ==
    /\ Is("db") /\ hk[Ev.c] = 1
    /\ hk' = [hk EXCEPT ![Ev.c] = 2]
    /\ UNCHANGED <<vars, wpend, callow, cand, gal, tagsSeen, runTags>>
    /\ Consume

TDbx ==
    /\ Is("dbx") /\ hk[Ev.c] = 2
    /\ hk' = [hk EXCEPT ![Ev.c] = 0]
    /\ UNCHANGED <<vars, wpend, callow, cand, gal, tagsSeen, runTags>>
    /\ Consume

(* only the order of an eviction relative to a probe or a fill matters *)
TEvict(k) == (\E c \in Clients : pc[c].k = k /\ pc[c].st \in {"probe", "fill"}) /\ Evict(k) /\ UNCHANGED <<l, done, wpend, callow, cand, gal, hk, tagsSeen, runTags>>

(* the observed result must be the model's; a wrong one must carry the tag *)
TGetEnd ==
    /\ Is("ge")
    /\ LET c == Ev.c
           wrong == Ev.r \notin gal[c] IN
        /\ pc[c].st = "done" /\ pc[c].k = Ev.k
        /\ pc[c].res = MR(Ev.r)
        /\ pc[c].ndb = Ev.db
        /\ wrong => pc[c].tag # ""
        /\ tagsSeen' = IF wrong THEN tagsSeen \cup {pc[c].tag} ELSE tagsSeen
        /\ pc' = [pc EXCEPT ![c] = Idle]
        /\ allowed' = [allowed EXCEPT ![c] = {}]
    /\ UNCHANGED <<cache, db, batch, flight, ref, nops, hist, wpend, callow, cand, gal, hk, runTags>>
    /\ Consume

TSkip ==
    /\ l <= Len(Rec) /\ Ev.e \in {"flood", "panic", "dead"}
    /\ UNCHANGED <<vars, wpend, callow, cand, gal, hk, tagsSeen, runTags>>
    /\ Consume

TFinish ==
    /\ l = Len(Rec) + 1 /\ ~done
    /\ JsonSerialize(IOEnv.OUT, [accepted |-> TRUE, runs |-> runTags])
    /\ done' = TRUE
    /\ UNCHANGED <<vars, l, wpend, callow, cand, gal, hk, tagsSeen, runTags>>

(* (depth-first search explores the LAST disjunct first: events before      *)
(* hidden steps before evictions)                                          *)
TNext ==
    \/ \E k \in Keys : TEvict(k)
    \/ \E e \in 0..(NextEpoch - 1) : TCommit(e) \/ TNotify(e)
    \/ \E c \in Clients : TApply(c) \/ THidden(c)
    \/ TRun \/ TNew \/ TWriteStart \/ TWriteEnd \/ TSubmit \/ TCommitStart \/ TCommitEnd
    \/ TGetStart \/ TGetEnd \/ TDb \/ TDbx \/ TSkip \/ TReset \/ TFinish

TraceSpec == TInit /\ [][TNext]_tvars

NotDone == ~done
=============================================================================
