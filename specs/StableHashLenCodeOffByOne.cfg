\* C13 length-code design check: MUTATION compact with escape byte, off-by-one threshold (n <= Esc): must FAIL UniquelyDecodable with the colliding pair
SPECIFICATION Spec
CONSTANTS
  B = 3
  W = 2
  MaxLen = 3
  MaxOuter = 2
  Shapes = {"pair", "nested"}
  Enc <- EncCompactOffByOne
INVARIANTS TypeOK DecoderSound Derivation UniquelyDecodable
ALIAS Show
CHECK_DEADLOCK FALSE
