SPECIFICATION Spec
CONSTANTS
  Tasks = {1, 2, 3}
  Queries = {1, 2}
  MaxInst = 4
  AtomicRecheck = FALSE
INVARIANTS TypeOK SameInstance MutualExclusion ReferencedStaysResident
CHECK_DEADLOCK FALSE
