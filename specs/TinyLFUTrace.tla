---------------------------- MODULE TinyLFUTrace ----------------------------
(***************************************************************************)
(* Mechanism-level trace validation: recorded single-threaded executions   *)
(* of the real TinyLFU (harness/src/bin/lfu_replay.rs --mode seq, exact    *)
(* cases) against TinyLFU.tla.                                             *)
(*                                                                         *)
(* Logged: every public operation with its result, every call of the       *)
(* lifecycle listener (`ask`: it is made by remove_closure under the entry *)
(* lock, so it reveals which key a duel / unpin / trim tried to evict),    *)
(* the complete resident set with values and pins (`obs`), panics.  Not    *)
(* logged: maintenance steps themselves and the outcome of sketch          *)
(* comparisons; TLC searches for them (unlogged steps leave `l` alone).    *)
(* The trace is a concatenation of runs (`run` … `reset`).  A rejected     *)
(* trace is *model drift*, never a verdict on the code: the verdict comes  *)
(* from TinyLFUObsTrace.                                                   *)
(***************************************************************************)
EXTENDS TinyLFU, Json, IOUtils

VARIABLES l, done

Rec == ndJsonDeserialize(IOEnv.TRACE)
tvars == <<vars, l, done>>

Ev == Rec[l]
IsEvent(e) == l <= Len(Rec) /\ Ev.e = e
Has(f) == f \in DOMAIN Ev

Consume ==
    /\ l' = l + 1
    /\ done' = done
    /\ TLCSet(42, IF l + 1 > TLCGet(42) THEN l + 1 ELSE TLCGet(42))
Stay == l' = l /\ done' = done

DummyConf == [cap |-> 1, win |-> 1, prot |-> 0, mainlim |-> 1, batch |-> 32,
              rcap |-> 16, strat |-> "Poll", keys |-> 1]

TraceInit ==
    /\ l = 1 /\ done = FALSE
    /\ InitFor(DummyConf)
    /\ TLCSet(42, 1)

TRun ==
    /\ IsEvent("run")
    /\ LET c == [cap |-> Ev.cap, win |-> Ev.win, prot |-> Ev.prot, mainlim |-> Ev.mainlim,
                 batch |-> Ev.batch, rcap |-> Ev.rcap, strat |-> Ev.strat, keys |-> Ev.keys] IN
       /\ conf' = c
       /\ store' = [k \in 1..c.keys |-> 0]
       /\ pins' = [k \in 1..c.keys |-> 0]
       /\ ref' = [k \in 1..c.keys |-> 0]
       /\ gone' = [k \in 1..c.keys |-> FALSE]
    /\ wbuf' = <<>> /\ rbuf' = <<>>
    /\ pol' = [w |-> <<>>, pb |-> <<>>, pt |-> <<>>, pn |-> <<>>]
    /\ maint' = "idle" /\ force' = FALSE /\ failed' = "" /\ pinSnap' = {}
    /\ badEvict' = FALSE /\ owed' = {} /\ quiet' = 0
    /\ Consume

Quiescent == maint = "idle" /\ ~NeedMaint

TReset ==
    /\ IsEvent("reset")
    /\ failed # "" \/ Quiescent
    /\ UNCHANGED vars
    /\ Consume

TPut ==
    /\ IsEvent("put")
    /\ (Ev.res = "ins") = (store[Ev.k] = 0)
    /\ Ev.res = "upd" => Ev.old = store[Ev.k]
    /\ Put(Ev.k, Ev.v, IF Has("p") THEN Ev.p ELSE 0)
    /\ Consume

TGet ==
    /\ IsEvent("get")
    /\ Ev.hit = (store[Ev.k] # 0)
    /\ Ev.hit => (Ev.v = store[Ev.k] /\ Ev.n = pins[Ev.k])
    /\ Get(Ev.k)
    /\ Consume

TRem ==
    /\ IsEvent("rem")
    /\ (Ev.res = "rem") = (store[Ev.k] # 0)
    /\ Ev.res = "rem" => Ev.old = store[Ev.k]
    /\ Rem(Ev.k)
    /\ Consume

TPin ==
    /\ IsEvent("pin")
    /\ IF Ev.res = "ok"
       THEN store[Ev.k] # 0 /\ Ev.n = pins[Ev.k] + 1 /\ Pin(Ev.k)
       ELSE store[Ev.k] = 0 /\ OpEnabled /\ UNCHANGED vars
    /\ Consume

TUnpin ==
    /\ IsEvent("unpin")
    /\ CASE Ev.res = "ok" ->
              /\ Ev.n = pins[Ev.k] - 1
              /\ UnpinOwner(Ev.k, Has("via"))
         [] Ev.res = "zero" ->
              /\ store[Ev.k] # 0 /\ pins[Ev.k] = 0 /\ OpEnabled
              /\ IF Has("via") THEN PushRead(Ev.k) ELSE rbuf' = rbuf
              /\ UNCHANGED <<conf, store, pins, wbuf, pol, maint, force, failed, pinSnap, hvars>>
         [] OTHER ->
              /\ store[Ev.k] = 0 /\ OpEnabled /\ UNCHANGED vars
    /\ Consume

TNotify == IsEvent("notify") /\ Notify(Ev.k) /\ Consume
TFlush == IsEvent("flush") /\ Flush /\ Consume

(* a maintenance step; if it calls remove_closure on a resident key the     *)
(* listener was asked and the next trace event must be that `ask`           *)
AskMatches(a) ==
    IF a # 0 /\ store[a] # 0
    THEN /\ IsEvent("ask") /\ Ev.k = a /\ Ev.pinned = (pins[a] > 0) /\ Ev.v = store[a]
         /\ Consume
    ELSE Stay

TMaintStart == MaintStart /\ Stay
TMaintWrite ==
    \E cw \in DuelChoices :
        /\ maint = "write" /\ wbuf # <<>> /\ failed = ""
        /\ AskMatches(Proc(Head(wbuf), cw).ask)
        /\ MaintWrite(cw)
TMaintRead == MaintRead /\ Stay
TMaintTrim ==
    /\ maint = "trim" /\ failed = ""
    /\ IF pol.pn = <<>> THEN Stay ELSE AskMatches(TrimStep.ask)
    /\ MaintTrim

TObs ==
    /\ l <= Len(Rec) /\ Ev.e \in {"obs", "obs1", "final"}
    /\ Quiescent /\ failed = ""
    /\ Resident = {Ev.res[i] : i \in 1..Len(Ev.res)}
    /\ \A i \in 1..Len(Ev.res) : store[Ev.res[i]] = Ev.vals[i]
    /\ PinnedNow = {Ev.pins[i] : i \in 1..Len(Ev.pins)}
    /\ UNCHANGED vars
    /\ Consume

TSkip ==
    /\ l <= Len(Rec) /\ Ev.e \in {"quiesce", "rounds"}
    /\ UNCHANGED vars
    /\ Consume

(* the code panicked: the model as configured (FixUnpin) must be in its     *)
(* failure state                                                           *)
TPanic ==
    /\ IsEvent("panic")
    /\ failed # ""
    /\ UNCHANGED vars
    /\ Consume

Finish ==
    /\ l = Len(Rec) + 1 /\ ~done
    /\ JsonSerialize(IOEnv.OUT, [accepted |-> TRUE, events |-> Len(Rec)])
    /\ done' = TRUE /\ l' = l
    /\ UNCHANGED vars

TraceNext ==
    \/ TRun \/ TReset \/ TPut \/ TGet \/ TRem \/ TPin \/ TUnpin \/ TNotify \/ TFlush
    \/ TMaintStart \/ TMaintWrite \/ TMaintRead \/ TMaintTrim
    \/ TObs \/ TSkip \/ TPanic \/ Finish

TraceSpec == TraceInit /\ [][TraceNext]_tvars

(* the mechanism invariants are evaluated on the states TLC passes through *)
TraceInv == RegionInv /\ NoLeak /\ BoundedM /\ PinnedNeverEvicted /\ ReadableUntilGone

Report ==
    IF TLCGet(42) > Len(Rec) THEN TRUE
    ELSE Print(<<"TRACE NOT ACCEPTED: furthest event", TLCGet(42), "of", Len(Rec)>>, FALSE)
=============================================================================
