---------------------------- MODULE WriteBehindGen ----------------------------
(***************************************************************************)
(* Behaviour generator for spec -> implementation replay (S->I) of C10.    *)
(*                                                                         *)
(* WriteBehind (the M-layer specification) is extended with history        *)
(* variables: `hist` records every step the harness can control (which     *)
(* thread creates / fills / receives / submits which batch, when the store *)
(* gate lets a commit through, when Drop starts) and `limits` every group  *)
(* limit the store hands out.  When the behaviour terminates (Drop         *)
(* returned, or the process aborted) one JSON line is printed:             *)
(*   {threads, sers, maxgroup, gated, limits, actions,                     *)
(*    expect: {log, db, crashed, returned}}                                *)
(* harness/src/bin/wb_replay.rs (--mode replay) executes `actions` with    *)
(* real threads against the real WriteBehind<MemKv> and compares the       *)
(* store's commit log and content with `expect`.                           *)
(*                                                                         *)
(* Used with `-simulate` (random interleavings of the whole pipeline) and, *)
(* with Eager = TRUE, exhaustively: then a controllable step is taken only *)
(* when the pipeline is quiescent, which enumerates every API history      *)
(* (threads x creation/submission orders x contents x limits x gate and    *)
(* Drop timing) once without multiplying it by the internal interleavings  *)
(* the harness cannot control anyway.                                      *)
(* Threads, Sers and Keys must be 1..n here (JSON).                        *)
(***************************************************************************)
EXTENDS WriteBehind, Json

CONSTANTS MaxPass,  \* hand-overs of open batches per behaviour
          MinDrop,  \* Drop starts only after this many batches were created
          Eager     \* TRUE: controllable steps only in quiescent states

VARIABLES hist, limits, npass, done

gvars == <<vars, hist, limits, npass, done>>

GInit ==
    /\ Init
    /\ hist = <<>>
    /\ limits = <<limit>>
    /\ npass = 0
    /\ done = FALSE

H(a) == hist' = Append(hist, a)

OtherInternal ==
    \/ SerStep
    \/ CRecv \/ CClosed \/ CTake \/ CNoTake \/ CCommit \/ CPost \/ CPostDone \/ CAssert
    \/ AfterStep
    \/ DropStep

Quiet == (~Eager) \/ ~(ENABLED Internal)

GCreate(t) ==
    /\ Quiet /\ Create(t)
    /\ H([a |-> "create", t |-> t, b |-> nextEpoch])
    /\ UNCHANGED <<limits, npass, done>>

GFill(t, e, k, o) ==
    /\ Quiet /\ Fill(t, e, k, o)
    /\ H([a |-> "fill", t |-> t, b |-> e, k |-> k, o |-> o])
    /\ UNCHANGED <<limits, npass, done>>

GPass(e, u) ==
    /\ Quiet /\ npass < MaxPass /\ Pass(e, u)
    /\ H([a |-> "pass", t |-> u, b |-> e])
    /\ npass' = npass + 1
    /\ UNCHANGED <<limits, done>>

GSubmit(t, e) ==
    /\ Quiet /\ Submit(t, e)
    /\ H([a |-> "submit", t |-> t, b |-> e])
    /\ UNCHANGED <<limits, npass, done>>

GDrop ==
    /\ Quiet /\ nextEpoch >= MinDrop /\ DropBegin
    /\ H([a |-> "drop"])
    /\ UNCHANGED <<limits, npass, done>>

GAllow ==
    /\ Quiet /\ GateAllow
    /\ H([a |-> "allow"])
    /\ UNCHANGED <<limits, npass, done>>

GFlushBegin ==
    /\ CFlushBegin
    /\ limits' = Append(limits, limit')
    /\ UNCHANGED <<hist, npass, done>>

GInternal == OtherInternal /\ UNCHANGED <<hist, limits, npass, done>>

Emit ==
    /\ ~done /\ (dpc = "returned" \/ crashed)
    /\ done' = TRUE
    /\ PrintT(ToJson([
            threads |-> Cardinality(Threads), sers |-> Cardinality(Sers),
            maxgroup |-> MaxGroup, gated |-> Gated, limits |-> limits, actions |-> hist,
            expect |-> [log |-> log,
                        db |-> [k \in Keys |-> [k |-> k, v |-> db[k]]],
                        crashed |-> crashed,
                        returned |-> (dpc = "returned")]]))
    /\ UNCHANGED <<vars, hist, limits, npass>>

GNext ==
    \/ \E t \in Threads : GCreate(t)
    \/ \E t \in Threads, e \in Epochs, k \in Keys, o \in {"put", "del"} : GFill(t, e, k, o)
    \/ \E e \in Epochs, u \in Threads : GPass(e, u)
    \/ \E t \in Threads, e \in Epochs : GSubmit(t, e)
    \/ GDrop \/ GAllow \/ GFlushBegin \/ GInternal \/ Emit

GSpec == GInit /\ [][GNext]_gvars

(* the properties of the M-layer hold on every generated behaviour too      *)
GenInv ==
    /\ CommitOrder /\ ExactlyOnce /\ GroupIsContiguous /\ DbIsFoldOfPrefix
    /\ DropDrains /\ DropDrainsStrict /\ StallOnlyBehindGap
=============================================================================
