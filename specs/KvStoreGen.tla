----------------------------- MODULE KvStoreGen -----------------------------
(***************************************************************************)
(* C11 - behaviour generator for spec -> implementation replay.            *)
(*                                                                         *)
(* Random walks (`tlc -simulate`, seeded) through KvStore.  Every step of  *)
(* the reference store is appended to `hist` together with what the        *)
(* reference says an observer must see at that point:                      *)
(*   get / scan     - the expected result,                                 *)
(*   drain          - snapshot at creation plus the must / may envelope,   *)
(*   commit / drop / reopen - the complete committed content, which the    *)
(*                    harness compares cell by cell (every column, key,    *)
(*                    value type and every set), so interference between   *)
(*                    keys shows up wherever it lands.                     *)
(* One JSON line per behaviour; harness/src/bin/kv_replay.rs replays it on *)
(* RocksDB, Fjall and MemKv under several concrete key encodings.          *)
(*                                                                         *)
(* A walk alternates `Pick` (choose an enabled action class from a         *)
(* weighted list) and the chosen action, so that commits, reads and        *)
(* reopen are not drowned by the many op instances.  Domain sizes and      *)
(* length come from the environment: NK keys, NV value types, NE elements, *)
(* STEPS actions.                                                          *)
(***************************************************************************)
EXTENDS KvStore, Json, IOUtils

KeyNames == <<"K1", "K2", "K3", "K4">>
VTypeNames == <<"V1", "V2">>
ElemNames == <<"E1", "E2", "E3">>
GenKeys == {KeyNames[i] : i \in 1..atoi(IOEnv.NK)}
GenVTypes == {VTypeNames[i] : i \in 1..atoi(IOEnv.NV)}
GenElems == {ElemNames[i] : i \in 1..atoi(IOEnv.NE)}
MaxSteps == atoi(IOEnv.STEPS)

VARIABLES hist, cls, widx, steps, done

gvars == <<vars, hist, cls, widx, steps, done>>

ClassSeq == <<"batch", "buf",
              "op", "op", "op", "op", "op", "op", "op", "op", "op", "op",
              "sbop", "sbop", "sbop", "sbop", "sbop",
              "consume", "consume", "commit", "commit", "drop", "dropbuf",
              "get", "get", "scan", "scan", "iter", "drain", "drain", "reopen">>

(* deletes only of cells / members some earlier op (committed or not) wrote *)
Touched(o) == \E i \in 1..Len(hist) :
    hist[i].a = "op" /\ hist[i].op.c = o.c /\ hist[i].op.key = o.key /\ hist[i].op.x = o.x
GenOps == PutOps \cup InsOps \cup {o \in DelOps \cup RemOps : Touched(o)}

HasOpenBatch == \E b \in 1..MaxBatches : batch[b].st = "open"
HasOpenBuf == \E s \in 1..MaxBufs : sbuf[s].st = "open"

EnabledClass(c) ==
    CASE c = "batch" -> \E b \in 1..MaxBatches : batch[b].st = "free"
      [] c = "op" -> HasOpenBatch /\ Ops # {}
      [] c = "buf" -> \E s \in 1..MaxBufs : sbuf[s].st = "free"
      [] c = "sbop" -> HasOpenBuf /\ Ops # {}
      [] c = "consume" -> HasOpenBatch /\ HasOpenBuf
      [] c = "commit" -> HasOpenBatch
      [] c = "drop" -> HasOpenBatch
      [] c = "dropbuf" -> HasOpenBuf
      [] c = "get" -> Cells # {}
      [] c = "scan" -> SetIds # {}
      [] c = "iter" -> SetIds # {} /\ \E i \in 1..MaxIters : iters[i].st = "free"
      [] c = "drain" -> \E i \in 1..MaxIters : iters[i].st = "open"
      [] c = "reopen" -> TRUE

Dump(w, s) ==
    [wide |-> {[c |-> x[1], key |-> x[2], vt |-> x[3], val |-> w[x]] :
                 x \in {y \in Cells : w[y] # 0}},
     sets |-> {[c |-> x[1], key |-> x[2], els |-> s[x]] :
                 x \in {y \in SetIds : s[y] # {}}}]

GInit ==
    /\ Init
    /\ hist = <<>>
    /\ cls = "pick"
    /\ widx = 0
    /\ steps = 0
    /\ done = FALSE

Pick ==
    /\ cls = "pick" /\ steps < MaxSteps /\ ~done
    /\ \E i \in 1..Len(ClassSeq) :
          /\ EnabledClass(ClassSeq[i])
          /\ cls' = ClassSeq[i]
          /\ widx' = i
    /\ UNCHANGED <<vars, hist, steps, done>>

Rec(ev) ==
    /\ hist' = Append(hist, ev)
    /\ cls' = "pick"
    /\ steps' = steps + 1
    /\ UNCHANGED <<widx, done>>

Act ==
    \/ /\ cls = "batch"
       /\ \E b \in 1..MaxBatches : OpenBatch(b) /\ Rec([a |-> "batch", h |-> b])
    \/ /\ cls = "op"
       /\ \E b \in 1..MaxBatches, op \in GenOps :
             BatchOp(b, op) /\ Rec([a |-> "op", via |-> "wb", h |-> b, op |-> op])
    \/ /\ cls = "buf"
       /\ \E s \in 1..MaxBufs : OpenBuf(s) /\ Rec([a |-> "buf", h |-> s])
    \/ /\ cls = "sbop"
       /\ \E s \in 1..MaxBufs, op \in GenOps :
             BufOp(s, op) /\ Rec([a |-> "op", via |-> "sb", h |-> s, op |-> op])
    \/ /\ cls = "consume"
       /\ \E b \in 1..MaxBatches, s \in 1..MaxBufs :
             Consume(b, s) /\ Rec([a |-> "consume", h |-> b, s |-> s])
    \/ /\ cls = "commit"
       /\ \E b \in 1..MaxBatches :
             Commit(b) /\ Rec([a |-> "commit", h |-> b, state |-> Dump(wide', sets')])
    \/ /\ cls = "drop"
       /\ \E b \in 1..MaxBatches :
             DropBatch(b) /\ Rec([a |-> "drop", h |-> b, state |-> Dump(wide, sets)])
    \/ /\ cls = "dropbuf"
       /\ \E s \in 1..MaxBufs : DropBuf(s) /\ Rec([a |-> "dropbuf", h |-> s])
    \/ /\ cls = "get"
       /\ \E c \in WCols, key \in Keys, vt \in VTypes :
             /\ UNCHANGED vars
             /\ Rec([a |-> "get", c |-> c, key |-> key, vt |-> vt,
                     exp |-> GetResult(c, key, vt)])
    \/ /\ cls = "scan"
       /\ \E c \in SCols, key \in Keys :
             /\ UNCHANGED vars
             /\ Rec([a |-> "scan", c |-> c, key |-> key, exp |-> ScanResult(c, key)])
    \/ /\ cls = "iter"
       /\ \E i \in 1..MaxIters, c \in SCols, key \in Keys :
             ScanOpen(i, c, key) /\ Rec([a |-> "iter", h |-> i, c |-> c, key |-> key])
    \/ /\ cls = "drain"
       /\ \E i \in 1..MaxIters :
             /\ ScanDrain(i)
             /\ Rec([a |-> "drain", h |-> i, snap |-> iters[i].snap,
                     must |-> iters[i].must, may |-> iters[i].may])
    \/ /\ cls = "reopen"
       /\ Reopen /\ Rec([a |-> "reopen", state |-> Dump(wide, sets)])

Emit ==
    /\ cls = "pick" /\ steps = MaxSteps /\ ~done
    /\ done' = TRUE
    /\ PrintT(ToJson([nk |-> Cardinality(Keys), nv |-> Cardinality(VTypes),
                      ne |-> Cardinality(Elems), events |-> hist,
                      final |-> Dump(wide, sets)]))
    /\ UNCHANGED <<vars, hist, cls, widx, steps>>

GNext == Pick \/ Act \/ Emit

GenSpec == GInit /\ [][GNext]_gvars
=============================================================================
