----------------------------- MODULE KvStoreGen -----------------------------
(***************************************************************************)
(* C11 - behaviour generator for spec -> implementation replay.            *)
(*                                                                         *)
(* Random walks (`tlc -simulate`, seeded) through KvStore.  Every step of  *)
(* the reference store is appended to `hist` together with what the        *)
(* reference says an observer must see at that point:                      *)
(*   get / scan     - the expected result,                                 *)
(*   drain          - snapshot at creation plus the must / may envelope,   *)
(*   commit / drop / reopen - the complete committed content, which the    *)
(*                    harness compares cell by cell (every column, key,    *)
(*                    value type and every set), so interference between   *)
(*                    keys shows up wherever it lands.                     *)
(* One JSON line per behaviour; harness/src/bin/kv_replay.rs replays it on *)
(* RocksDB, Fjall and MemKv under several concrete key encodings.          *)
(*                                                                         *)
(* A walk alternates `Pick` (choose an enabled action class from a         *)
(* weighted list) and the chosen action, so that commits, reads and        *)
(* reopen are not drowned by the many op instances.  Domain sizes and      *)
(* length come from the environment: NK keys, NV value types, NE elements, *)
(* STEPS actions.  `reopen` is followed by the harness reading everything;  *)
(* class "coldopen" is the same step marked quiet (`q`): nothing is read,   *)
(* the next event is the first touch of its column in the new session.     *)
(*                                                                         *)
(* Second part of the module (FTSpec): the exhaustive "first touch after   *)
(* open" family.                                                           *)
(***************************************************************************)
EXTENDS KvStore, Json, IOUtils

KeyNames == <<"K1", "K2", "K3", "K4">>
VTypeNames == <<"V1", "V2">>
ElemNames == <<"E1", "E2", "E3">>
GenKeys == {KeyNames[i] : i \in 1..atoi(IOEnv.NK)}
GenVTypes == {VTypeNames[i] : i \in 1..atoi(IOEnv.NV)}
GenElems == {ElemNames[i] : i \in 1..atoi(IOEnv.NE)}
MaxSteps == atoi(IOEnv.STEPS)

VARIABLES hist, cls, widx, steps, done

gvars == <<vars, hist, cls, widx, steps, done>>

ClassSeq == <<"batch", "buf",
              "op", "op", "op", "op", "op", "op", "op", "op", "op", "op",
              "sbop", "sbop", "sbop", "sbop", "sbop",
              "consume", "consume", "commit", "commit", "drop", "dropbuf",
              "get", "get", "scan", "scan", "iter", "drain", "drain", "reopen", "coldopen">>

(* deletes only of cells / members some earlier op (committed or not) wrote *)
Touched(o) == \E i \in 1..Len(hist) :
    hist[i].a = "op" /\ hist[i].op.c = o.c /\ hist[i].op.key = o.key /\ hist[i].op.x = o.x
GenOps == PutOps \cup InsOps \cup {o \in DelOps \cup RemOps : Touched(o)}

HasOpenBatch == \E b \in 1..MaxBatches : batch[b].st = "open"
HasOpenBuf == \E s \in 1..MaxBufs : sbuf[s].st = "open"

EnabledClass(c) ==
    CASE c = "batch" -> \E b \in 1..MaxBatches : batch[b].st = "free"
      [] c = "op" -> HasOpenBatch /\ Ops # {}
      [] c = "buf" -> \E s \in 1..MaxBufs : sbuf[s].st = "free"
      [] c = "sbop" -> HasOpenBuf /\ Ops # {}
      [] c = "consume" -> HasOpenBatch /\ HasOpenBuf
      [] c = "commit" -> HasOpenBatch
      [] c = "drop" -> HasOpenBatch
      [] c = "dropbuf" -> HasOpenBuf
      [] c = "get" -> Cells # {}
      [] c = "scan" -> SetIds # {}
      [] c = "iter" -> SetIds # {} /\ \E i \in 1..MaxIters : iters[i].st = "free"
      [] c = "drain" -> \E i \in 1..MaxIters : iters[i].st = "open"
      [] c = "reopen" -> TRUE
      [] c = "coldopen" -> TRUE

Dump(w, s) ==
    [wide |-> {[c |-> x[1], key |-> x[2], vt |-> x[3], val |-> w[x]] :
                 x \in {y \in Cells : w[y] # 0}},
     sets |-> {[c |-> x[1], key |-> x[2], els |-> s[x]] :
                 x \in {y \in SetIds : s[y] # {}}}]

GInit ==
    /\ Init
    /\ hist = <<>>
    /\ cls = "pick"
    /\ widx = 0
    /\ steps = 0
    /\ done = FALSE

Pick ==
    /\ cls = "pick" /\ steps < MaxSteps /\ ~done
    /\ \E i \in 1..Len(ClassSeq) :
          /\ EnabledClass(ClassSeq[i])
          /\ cls' = ClassSeq[i]
          /\ widx' = i
    /\ UNCHANGED <<vars, hist, steps, done>>

Rec(ev) ==
    /\ hist' = Append(hist, ev)
    /\ cls' = "pick"
    /\ steps' = steps + 1
    /\ UNCHANGED <<widx, done>>

Act ==
    \/ /\ cls = "batch"
       /\ \E b \in 1..MaxBatches : OpenBatch(b) /\ Rec([a |-> "batch", h |-> b])
    \/ /\ cls = "op"
       /\ \E b \in 1..MaxBatches, op \in GenOps :
             BatchOp(b, op) /\ Rec([a |-> "op", via |-> "wb", h |-> b, op |-> op])
    \/ /\ cls = "buf"
       /\ \E s \in 1..MaxBufs : OpenBuf(s) /\ Rec([a |-> "buf", h |-> s])
    \/ /\ cls = "sbop"
       /\ \E s \in 1..MaxBufs, op \in GenOps :
             BufOp(s, op) /\ Rec([a |-> "op", via |-> "sb", h |-> s, op |-> op])
    \/ /\ cls = "consume"
       /\ \E b \in 1..MaxBatches, s \in 1..MaxBufs :
             Consume(b, s) /\ Rec([a |-> "consume", h |-> b, s |-> s])
    \/ /\ cls = "commit"
       /\ \E b \in 1..MaxBatches :
             Commit(b) /\ Rec([a |-> "commit", h |-> b, state |-> Dump(wide', sets')])
    \/ /\ cls = "drop"
       /\ \E b \in 1..MaxBatches :
             DropBatch(b) /\ Rec([a |-> "drop", h |-> b, state |-> Dump(wide, sets)])
    \/ /\ cls = "dropbuf"
       /\ \E s \in 1..MaxBufs : DropBuf(s) /\ Rec([a |-> "dropbuf", h |-> s])
    \/ /\ cls = "get"
       /\ \E c \in WCols, key \in Keys, vt \in VTypes :
             /\ Get(c)
             /\ Rec([a |-> "get", c |-> c, key |-> key, vt |-> vt,
                     exp |-> GetResult(c, key, vt)])
    \/ /\ cls = "scan"
       /\ \E c \in SCols, key \in Keys :
             /\ Scan(c)
             /\ Rec([a |-> "scan", c |-> c, key |-> key, exp |-> ScanResult(c, key)])
    \/ /\ cls = "iter"
       /\ \E i \in 1..MaxIters, c \in SCols, key \in Keys :
             ScanOpen(i, c, key) /\ Rec([a |-> "iter", h |-> i, c |-> c, key |-> key])
    \/ /\ cls = "drain"
       /\ \E i \in 1..MaxIters :
             /\ ScanDrain(i)
             /\ Rec([a |-> "drain", h |-> i, snap |-> iters[i].snap,
                     must |-> iters[i].must, may |-> iters[i].may])
    \/ /\ cls = "reopen"
       /\ Reopen /\ Rec([a |-> "reopen", state |-> Dump(wide, sets)])
    \* close and open WITHOUT the harness reading anything afterwards: the
    \* next event is the first touch of its column in the new session
    \/ /\ cls = "coldopen"
       /\ Reopen /\ Rec([a |-> "reopen", q |-> TRUE, state |-> Dump(wide, sets)])

Emit ==
    /\ cls = "pick" /\ steps = MaxSteps /\ ~done
    /\ done' = TRUE
    /\ PrintT(ToJson([nk |-> Cardinality(Keys), nv |-> Cardinality(VTypes),
                      ne |-> Cardinality(Elems), events |-> hist,
                      final |-> Dump(wide, sets)]))
    /\ UNCHANGED <<vars, hist, cls, widx, steps>>

GNext == Pick \/ Act \/ Emit

GenSpec == GInit /\ [][GNext]_gvars

----------------------------------------------------------------------------
(***************************************************************************)
(* FIRST TOUCH AFTER OPEN - an exhaustive family (plain breadth-first TLC, *)
(* KvStoreGenFT.cfg; every reachable `Emit` prints one behaviour, and as   *)
(* `hist` is part of the state no two behaviours are merged).              *)
(*                                                                         *)
(*   [prefix: batch; PrefixOps; commit; read everything; close/open]       *)
(*   batch; op1; [op2]; commit; read everything; close/open; read all      *)
(*                                                                         *)
(* The prefix is either absent (fresh directory: the families do not exist *)
(* yet) or commits a fixed content (S1:K1 = {E1,E2,E3}, S1:K2 = {E2},      *)
(* W1:K1 with both value types; W2 and S2 are never written).  The open    *)
(* before op1 is `quiet` (the harness reads nothing), so op1 is the FIRST  *)
(* operation that touches its column in that session (FTFirstTouch), and   *)
(* op2 the first one of its column unless it is op1's.  op1 ranges over    *)
(* every write of the contract in both forms (directly on the write batch; *)
(* staged in a serialization buffer which is then consumed - immediately   *)
(* or, `late`, only after op2) and over get / scan; op2 over every write   *)
(* in both forms (and, FT_OP2READS = 1, get / scan before the commit).     *)
(* Columns, keys and value types range over the whole universe, elements   *)
(* of op1 / op2 over the first FT_NE_OP ones, put writes the value 2; the  *)
(* keys of op2 can be limited to the first FT_NK_OP2 ones and op2 can be   *)
(* left out after the empty prefix (FT_FRESH_OP2 = 0) in the quick tier.   *)
(* Expected reads come from the reference as everywhere else; every event  *)
(* carries `t`, the columns touched in the session so far (evidence).      *)
(***************************************************************************)
FTOpElems == {ElemNames[i] : i \in 1..atoi(IOEnv.FT_NE_OP)}
FTOp2Reads == atoi(IOEnv.FT_OP2READS) = 1
FTLate == atoi(IOEnv.FT_LATE) = 1
FTOp2Keys == {KeyNames[i] : i \in 1..atoi(IOEnv.FT_NK_OP2)}
FTFreshOp2 == atoi(IOEnv.FT_FRESH_OP2) = 1

Ins(c, key, e) == [k |-> "ins", c |-> c, key |-> key, x |-> e, val |-> 0]
Put(c, key, vt, v) == [k |-> "put", c |-> c, key |-> key, x |-> vt, val |-> v]
PrefixOps == <<Ins("S1", "K1", "E1"), Ins("S1", "K1", "E2"), Ins("S1", "K1", "E3"),
               Ins("S1", "K2", "E2"), Put("W1", "K1", "V1", 1), Put("W1", "K1", "V2", 2)>>

FTWrites == {o \in PutOps : o.val = 2} \cup DelOps
            \cup {o \in InsOps \cup RemOps : o.x \in FTOpElems}
FTWrites2 == {o \in FTWrites : o.key \in FTOp2Keys}

(* op2 is left out after the empty prefix unless FT_FRESH_OP2 = 1 *)
FTWithOp2 == FTFreshOp2 \/ hist[1].prefix = "content"

(* record, go to phase `nc` (index `nw`) *)
FRec(ev, nc, nw) ==
    /\ hist' = Append(hist, ev @@ [t |-> touched])
    /\ cls' = nc
    /\ widx' = nw
    /\ steps' = steps + 1
    /\ UNCHANGED done

FTInit ==
    /\ Init
    /\ hist = <<>>
    /\ cls = "ft_start"
    /\ widx = 0
    /\ steps = 0
    /\ done = FALSE

(* get / scan as an event with the reference's expectation *)
FTRead(nc) ==
    \/ \E c \in WCols, key \in Keys, vt \in VTypes :
          /\ Get(c)
          /\ FRec([a |-> "get", c |-> c, key |-> key, vt |-> vt, exp |-> GetResult(c, key, vt)], nc, 0)
    \/ \E c \in SCols, key \in Keys :
          /\ Scan(c)
          /\ FRec([a |-> "scan", c |-> c, key |-> key, exp |-> ScanResult(c, key)], nc, 0)

FTNext ==
    \* --- prefix -----------------------------------------------------------
    \/ /\ cls = "ft_start"
       /\ OpenBatch(1)
       /\ \/ FRec([a |-> "batch", h |-> 1, prefix |-> "none"], "ft_op1", 0)
          \/ FRec([a |-> "batch", h |-> 1, prefix |-> "content"], "ft_pre", 1)
    \/ /\ cls = "ft_pre"
       /\ BatchOp(1, PrefixOps[widx])
       /\ FRec([a |-> "op", via |-> "wb", h |-> 1, op |-> PrefixOps[widx]],
               IF widx < Len(PrefixOps) THEN "ft_pre" ELSE "ft_precommit",
               IF widx < Len(PrefixOps) THEN widx + 1 ELSE 0)
    \/ /\ cls = "ft_precommit"
       /\ Commit(1)
       /\ FRec([a |-> "commit", h |-> 1, q |-> TRUE, state |-> Dump(wide', sets')], "ft_presweep", 0)
    \/ /\ cls = "ft_presweep"
       /\ Sweep
       /\ FRec([a |-> "sweep", state |-> Dump(wide, sets)], "ft_cold0", 0)
    \/ /\ cls = "ft_cold0"
       /\ Reopen
       /\ FRec([a |-> "reopen", q |-> TRUE, state |-> Dump(wide, sets)], "ft_batch", 0)
    \/ /\ cls = "ft_batch"
       /\ OpenBatch(1)
       /\ FRec([a |-> "batch", h |-> 1], "ft_op1", 0)
    \* --- op1: the first touch ---------------------------------------------
    \/ /\ cls = "ft_op1"
       /\ \/ \E op \in FTWrites :
                BatchOp(1, op) /\ FRec([a |-> "op", via |-> "wb", h |-> 1, op |-> op], "ft_op2", 0)
          \/ OpenBuf(1) /\ FRec([a |-> "buf", h |-> 1], "ft_op1_sb", 0)
          \/ FTRead("ft_op2")
    \/ /\ cls = "ft_op1_sb"
       /\ \E op \in FTWrites :
             BufOp(1, op) /\ FRec([a |-> "op", via |-> "sb", h |-> 1, op |-> op], "ft_op1_cons", 0)
    \/ /\ cls = "ft_op1_cons"
       /\ \/ Consume(1, 1) /\ FRec([a |-> "consume", h |-> 1, s |-> 1], "ft_op2", 0)
          \* late: op2 goes directly to the batch first, the buffer is consumed after it
          \/ /\ FTLate /\ FTWithOp2
             /\ \E op \in FTWrites2 :
                   BatchOp(1, op) /\ FRec([a |-> "op", via |-> "wb", h |-> 1, op |-> op], "ft_late_cons", 0)
    \/ /\ cls = "ft_late_cons"
       /\ Consume(1, 1) /\ FRec([a |-> "consume", h |-> 1, s |-> 1], "ft_commit", 0)
    \* --- op2 (optional) -----------------------------------------------------
    \/ /\ cls = "ft_op2"
       /\ \/ /\ FTWithOp2
             /\ \E op \in FTWrites2 :
                   BatchOp(1, op) /\ FRec([a |-> "op", via |-> "wb", h |-> 1, op |-> op], "ft_commit", 0)
          \/ FTWithOp2 /\ OpenBuf(1) /\ FRec([a |-> "buf", h |-> 1], "ft_op2_sb", 0)
          \/ /\ FTWithOp2 /\ FTOp2Reads /\ batch[1].ops # <<>>
             /\ FTRead("ft_commit")
          \* no op2; a session that only read has nothing to commit
          \/ /\ batch[1].ops # <<>>
             /\ Commit(1)
             /\ FRec([a |-> "commit", h |-> 1, q |-> TRUE, state |-> Dump(wide', sets')], "ft_sweep1", 0)
    \/ /\ cls = "ft_op2_sb"
       /\ \E op \in FTWrites2 :
             BufOp(1, op) /\ FRec([a |-> "op", via |-> "sb", h |-> 1, op |-> op], "ft_op2_cons", 0)
    \/ /\ cls = "ft_op2_cons"
       /\ Consume(1, 1) /\ FRec([a |-> "consume", h |-> 1, s |-> 1], "ft_commit", 0)
    \* --- commit; read everything; close/open; read everything ---------------
    \/ /\ cls = "ft_commit"
       /\ Commit(1)
       /\ FRec([a |-> "commit", h |-> 1, q |-> TRUE, state |-> Dump(wide', sets')], "ft_sweep1", 0)
    \/ /\ cls = "ft_sweep1"
       /\ Sweep
       /\ FRec([a |-> "sweep", state |-> Dump(wide, sets)], "ft_cold1", 0)
    \/ /\ cls = "ft_cold1"
       /\ Reopen
       /\ FRec([a |-> "reopen", q |-> TRUE, state |-> Dump(wide, sets)], "ft_sweep2", 0)
    \/ /\ cls = "ft_sweep2"
       /\ Sweep
       /\ FRec([a |-> "sweep", state |-> Dump(wide, sets)], "ft_emit", 0)
    \/ /\ cls = "ft_emit" /\ ~done
       /\ done' = TRUE
       /\ PrintT(ToJson([nk |-> Cardinality(Keys), nv |-> Cardinality(VTypes),
                         ne |-> Cardinality(Elems), ft |-> TRUE, events |-> hist,
                         final |-> Dump(wide, sets)]))
       /\ UNCHANGED <<vars, hist, cls, widx, steps>>

FTSpec == FTInit /\ [][FTNext]_gvars

(* what makes the family what it is: nothing has been touched in the       *)
(* session when op1 is chosen - in particular no read since the open       *)
FTFirstTouch == cls \in {"ft_op1", "ft_op1_sb", "ft_batch"} => touched = {}
(* and a buffered op touches nothing before it is consumed *)
FTBufferedUntouched == cls = "ft_op1_cons" => touched = {}
----------------------------------------------------------------------------
(***************************************************************************)
(* A SERIALIZATION BUFFER IS A SEQUENCE - an exhaustive family (breadth-   *)
(* first TLC, KvStoreGenBO.cfg; one `Emit` per behaviour).                 *)
(*                                                                         *)
(*   [batch; BOPrefix; commit; read everything]                            *)
(*   batch; <body>; commit; read everything; close/open; read everything   *)
(*                                                                         *)
(* The body puts 2..BO_MAXOPS CONFLICTING operations on ONE target cell    *)
(* (wide W1:K1:V1: put 1 / put 2 / delete, every sequence incl. the same   *)
(* op twice; set S1:K1: insert / remove of E1, every sequence):            *)
(*   shape "one"  : all in one buffer, optionally with an op on another    *)
(*                  cell of the same column and / or one of another column *)
(*                  after the first target op; consume;                    *)
(*   shape "two"  : spread over two buffers (the first op goes to buffer   *)
(*                  1, both buffers used), consumed into one batch in      *)
(*                  both orders - the order of consumption decides;        *)
(*   shape "mixed": one op directly on the batch, the other one buffered:  *)
(*                  direct, buffer+consume | buffer, direct, consume       *)
(*                  (the buffered op lands AFTER the direct one) | buffer, *)
(*                  consume, direct.                                       *)
(* The prefix is absent or W1:K1:V1 = 1, W1:K2:V1 = 1, S1:K1 = {E1}.       *)
(* The harness replays every behaviour with padded buffers (dozens of      *)
(* writes to columns outside the model around the model's ops).            *)
(***************************************************************************)
BOMaxOps == atoi(IOEnv.BO_MAXOPS)

Del(c, key, vt) == [k |-> "del", c |-> c, key |-> key, x |-> vt, val |-> 0]
Rem(c, key, e) == [k |-> "rem", c |-> c, key |-> key, x |-> e, val |-> 0]
BOPrefix == <<Put("W1", "K1", "V1", 1), Put("W1", "K2", "V1", 1), Ins("S1", "K1", "E1")>>
BOTarget(tg) == IF tg = "w" THEN {Put("W1", "K1", "V1", 1), Put("W1", "K1", "V1", 2), Del("W1", "K1", "V1")}
                ELSE {Ins("S1", "K1", "E1"), Rem("S1", "K1", "E1")}
BOFillSame(tg) == IF tg = "w" THEN Put("W1", "K2", "V1", 2) ELSE Ins("S1", "K2", "E1")
BOFillOther(tg) == IF tg = "w" THEN Put("W2", "K1", "V1", 2) ELSE Ins("S2", "K1", "E1")

(* the choices made at the start *)
BOHdr == hist[1]
BOTg == BOHdr.tgt
(* events of the body so far, by role *)
BORole(r) == {i \in 1..Len(hist) : hist[i].a = "op" /\ "role" \in DOMAIN hist[i] /\ hist[i].role = r}
BOInBuf(h) == {i \in BORole("t") : hist[i].via = "sb" /\ hist[i].h = h}

BOInit ==
    /\ Init
    /\ hist = <<>>
    /\ cls = "bo_start"
    /\ widx = 0
    /\ steps = 0
    /\ done = FALSE

BOOp(via, h, op, role) == [a |-> "op", via |-> via, h |-> h, op |-> op, role |-> role]

BONext ==
    \* --- choices, prefix ----------------------------------------------------
    \/ /\ cls = "bo_start"
       /\ OpenBatch(1)
       /\ \E pre \in {"none", "content"}, tg \in {"w", "s"},
            sh \in {<<"one", 0>>, <<"two", 0>>, <<"mixed", 1>>, <<"mixed", 2>>, <<"mixed", 3>>} :
             FRec([a |-> "batch", h |-> 1, prefix |-> pre, tgt |-> tg, shape |-> sh[1], arr |-> sh[2]],
                  IF pre = "none" THEN "bo_body" ELSE "bo_pre", 1)
    \/ /\ cls = "bo_pre"
       /\ BatchOp(1, BOPrefix[widx])
       /\ FRec([a |-> "op", via |-> "wb", h |-> 1, op |-> BOPrefix[widx]],
               IF widx < Len(BOPrefix) THEN "bo_pre" ELSE "bo_precommit",
               IF widx < Len(BOPrefix) THEN widx + 1 ELSE 0)
    \/ /\ cls = "bo_precommit"
       /\ Commit(1)
       /\ FRec([a |-> "commit", h |-> 1, q |-> TRUE, state |-> Dump(wide', sets')], "bo_presweep", 0)
    \/ /\ cls = "bo_presweep"
       /\ Sweep
       /\ FRec([a |-> "sweep", state |-> Dump(wide, sets)], "bo_batch", 0)
    \/ /\ cls = "bo_batch"
       /\ OpenBatch(1)
       /\ FRec([a |-> "batch", h |-> 1], "bo_body", 0)
    \* --- shape "one" ----------------------------------------------------------
    \/ /\ cls = "bo_body" /\ BOHdr.shape = "one"
       /\ OpenBuf(1) /\ FRec([a |-> "buf", h |-> 1], "bo_one", 0)
    \/ /\ cls = "bo_one"
       /\ \/ /\ Cardinality(BORole("t")) < BOMaxOps
             /\ \E op \in BOTarget(BOTg) : BufOp(1, op) /\ FRec(BOOp("sb", 1, op, "t"), "bo_one", 0)
          \/ /\ Cardinality(BORole("t")) = 1 /\ BORole("fs") = {} /\ BORole("fo") = {}
             /\ BufOp(1, BOFillSame(BOTg)) /\ FRec(BOOp("sb", 1, BOFillSame(BOTg), "fs"), "bo_one", 0)
          \/ /\ Cardinality(BORole("t")) = 1 /\ BORole("fo") = {}
             /\ BufOp(1, BOFillOther(BOTg)) /\ FRec(BOOp("sb", 1, BOFillOther(BOTg), "fo"), "bo_one", 0)
          \/ /\ Cardinality(BORole("t")) >= 2
             /\ Consume(1, 1) /\ FRec([a |-> "consume", h |-> 1, s |-> 1], "bo_commit", 0)
    \* --- shape "two" ----------------------------------------------------------
    \/ /\ cls = "bo_body" /\ BOHdr.shape = "two"
       /\ OpenBuf(1) /\ FRec([a |-> "buf", h |-> 1], "bo_two_buf", 0)
    \/ /\ cls = "bo_two_buf"
       /\ OpenBuf(2) /\ FRec([a |-> "buf", h |-> 2], "bo_two", 0)
    \/ /\ cls = "bo_two"
       /\ \/ /\ Cardinality(BORole("t")) < BOMaxOps
             /\ \E op \in BOTarget(BOTg), h \in (IF BORole("t") = {} THEN {1} ELSE {1, 2}) :
                   BufOp(h, op) /\ FRec(BOOp("sb", h, op, "t"), "bo_two", 0)
          \/ /\ BOInBuf(1) # {} /\ BOInBuf(2) # {}
             /\ \E first \in {1, 2} :
                   Consume(1, first) /\ FRec([a |-> "consume", h |-> 1, s |-> first], "bo_two_cons", 3 - first)
    \/ /\ cls = "bo_two_cons"
       /\ Consume(1, widx) /\ FRec([a |-> "consume", h |-> 1, s |-> widx], "bo_commit", 0)
    \* --- shape "mixed" ----------------------------------------------------------
    \/ /\ cls = "bo_body" /\ BOHdr.shape = "mixed" /\ BOHdr.arr = 1
       /\ \E op \in BOTarget(BOTg) : BatchOp(1, op) /\ FRec(BOOp("wb", 1, op, "t"), "bo_m_buf", 0)
    \/ /\ cls = "bo_body" /\ BOHdr.shape = "mixed" /\ BOHdr.arr \in {2, 3}
       /\ OpenBuf(1) /\ FRec([a |-> "buf", h |-> 1], "bo_m_sb", 0)
    \/ /\ cls = "bo_m_buf"
       /\ OpenBuf(1) /\ FRec([a |-> "buf", h |-> 1], "bo_m_sb", 0)
    \/ /\ cls = "bo_m_sb"
       /\ \E op \in BOTarget(BOTg) :
             BufOp(1, op) /\ FRec(BOOp("sb", 1, op, "t"),
                                  CASE BOHdr.arr = 1 -> "bo_m_cons" [] BOHdr.arr = 2 -> "bo_m_wb" [] OTHER -> "bo_m_cons", 0)
    \/ /\ cls = "bo_m_wb"
       /\ \E op \in BOTarget(BOTg) :
             BatchOp(1, op) /\ FRec(BOOp("wb", 1, op, "t"), IF BOHdr.arr = 2 THEN "bo_m_cons" ELSE "bo_commit", 0)
    \/ /\ cls = "bo_m_cons"
       /\ Consume(1, 1)
       /\ FRec([a |-> "consume", h |-> 1, s |-> 1], IF BOHdr.arr = 3 THEN "bo_m_wb" ELSE "bo_commit", 0)
    \* --- commit; read everything; close/open; read everything ---------------
    \/ /\ cls = "bo_commit"
       /\ Commit(1)
       /\ FRec([a |-> "commit", h |-> 1, q |-> TRUE, state |-> Dump(wide', sets')], "bo_sweep1", 0)
    \/ /\ cls = "bo_sweep1"
       /\ Sweep
       /\ FRec([a |-> "sweep", state |-> Dump(wide, sets)], "bo_cold", 0)
    \/ /\ cls = "bo_cold"
       /\ Reopen
       /\ FRec([a |-> "reopen", q |-> TRUE, state |-> Dump(wide, sets)], "bo_sweep2", 0)
    \/ /\ cls = "bo_sweep2"
       /\ Sweep
       /\ FRec([a |-> "sweep", state |-> Dump(wide, sets)], "bo_emit", 0)
    \/ /\ cls = "bo_emit" /\ ~done
       /\ done' = TRUE
       /\ PrintT(ToJson([nk |-> Cardinality(Keys), nv |-> Cardinality(VTypes),
                         ne |-> Cardinality(Elems), bo |-> TRUE, events |-> hist,
                         final |-> Dump(wide, sets)]))
       /\ UNCHANGED <<vars, hist, cls, widx, steps>>

BOSpec == BOInit /\ [][BONext]_gvars
=============================================================================
