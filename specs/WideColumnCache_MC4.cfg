\* as coded (StaleFill): TLC must report ReadYourWrites violated (finding #4)
SPECIFICATION Spec
CONSTANTS
  Keys = {k1, k2}
  Vals = {1}
  Clients = {c1, c2}
  MaxBatches = 2
  MaxOps = 3
  StaleFill = TRUE
  Gen = FALSE
SYMMETRY Sym
VIEW view
INVARIANTS ReadYourWrites
CHECK_DEADLOCK FALSE
