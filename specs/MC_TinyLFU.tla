---------------------------- MODULE MC_TinyLFU ----------------------------
(* Model-checking configurations of TinyLFU.tla (see the .cfg files).      *)
EXTENDS TinyLFU

Strats == {"Poll", "Notify"}
\* capacities 1..2 (max_capacity 2, 3), 3 keys, threshold 1, read shard 1
ConfsSeq == {ConfOf(c, s, 3, 1, 1) : c \in 1..2, s \in Strats}
ConfsRounds == {ConfOf(1, s, 3, 1, 1) : s \in Strats}
\* 4 keys, capacity 1..2 (pinned region can hold two entries)
ConfsSeq4 == {ConfOf(c, s, 4, 1, 1) : c \in 1..2, s \in Strats}
ConfsConc == {ConfOf(c, s, 3, 1, 1) : c \in 1..2, s \in Strats}
ConfsPoll == {ConfOf(1, "Poll", 3, 1, 1)}
C1N == {ConfOf(1, "Notify", 3, 1, 1)}
C1P == {ConfOf(1, "Poll", 3, 1, 1)}
C2N == {ConfOf(2, "Notify", 3, 1, 1)}
C2P == {ConfOf(2, "Poll", 3, 1, 1)}
C1P4 == {ConfOf(1, "Poll", 4, 1, 1)}
Both == {TRUE, FALSE}
Tie == {FALSE}
=============================================================================
