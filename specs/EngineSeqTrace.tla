---------------------------- MODULE EngineSeqTrace ----------------------------
(***************************************************************************)
(* Conformance of the mechanism model EngineSeq (as the code is: FixTFC =  *)
(* FixPBP = FALSE) with recorded sequential executions of the real engine  *)
(* (same ndjson traces as EngineObsTrace).  Every API-level event drives   *)
(* the corresponding operator of the model; at every `query` event the     *)
(* model's value and the multiset of executor runs it predicts are         *)
(* compared with what the code did.                                        *)
(*                                                                         *)
(* This is drift measurement, never a verdict: the result (env OUT) lists  *)
(* for every query event the observed and the predicted value, and the     *)
(* check uses it (a) to report how far the mechanism model is from the     *)
(* code and (b) to state, for a P-level violation, whether the as-is model *)
(* predicts exactly that wrong value (i.e. the violation is explained by   *)
(* the modelled mechanism, including its known defects).                   *)
(***************************************************************************)
EXTENDS EngineSeq, Json, IOUtils, Bags

VARIABLES l, prog, S, batch, refreshing, execs, rows, counts, done

Rec == ndJsonDeserialize(IOEnv.TRACE)
Ev == Rec[l]
Is(e) == l <= Len(Rec) /\ Ev.e = e
tvars == <<l, prog, S, batch, refreshing, execs, rows, counts, done>>

Dummy == [m |-> 2, nodes |-> <<>>]

Init ==
    /\ l = 1 /\ prog = Dummy /\ S = InitState(Dummy) /\ batch = {} /\ refreshing = FALSE
    /\ execs = <<>> /\ rows = <<>> /\ done = FALSE
    /\ counts = [queries |-> 0, value_agree |-> 0, execs_agree |-> 0, skipped_runs |-> 0,
                 dumps |-> 0, dumps_agree |-> 0]

Consume == l' = l + 1 /\ done' = done

(* cyclic programs and cut runs are outside the sequential mechanism model *)
Modelled == Len(prog.nodes) > 0 /\ Acyclic(prog) /\ S.err = ""

Start ==
    /\ Is("prog")
    /\ prog' = Ev.prog
    /\ S' = InitState(Ev.prog)
    /\ batch' = {} /\ refreshing' = FALSE /\ execs' = <<>>
    /\ UNCHANGED <<rows, counts>> /\ Consume

TBegin == Is("begin") /\ S' = (IF Modelled THEN SessBegin(S) ELSE S) /\ batch' = {}
          /\ UNCHANGED <<prog, refreshing, execs, rows, counts>> /\ Consume
TSet ==
    /\ Is("set")
    /\ IF Modelled
       THEN LET r == SessSet(prog, S, Ev.n, Ev.v) IN
            /\ S' = r.S /\ batch' = IF r.changed THEN batch \cup {Ev.n} ELSE batch
       ELSE UNCHANGED <<S, batch>>
    /\ UNCHANGED <<prog, refreshing, execs, rows, counts>> /\ Consume
TWorld == Is("world") /\ S' = (IF Modelled THEN [S EXCEPT !.world = [@ EXCEPT ![Ev.n] = Ev.v]] ELSE S)
          /\ UNCHANGED <<prog, batch, refreshing, execs, rows, counts>> /\ Consume
TRefreshStart == Is("refresh_start") /\ refreshing' = TRUE
                 /\ UNCHANGED <<prog, S, batch, execs, rows, counts>> /\ Consume
TRefresh ==
    /\ Is("refresh")
    /\ IF Modelled
       THEN LET r == SessRefresh(S, S.ext, {}) IN
            /\ S' = [r.S EXCEPT !.log = S.log] /\ batch' = batch \cup r.changed
       ELSE UNCHANGED <<S, batch>>
    /\ refreshing' = FALSE /\ execs' = <<>>
    /\ UNCHANGED <<prog, rows, counts>> /\ Consume
TCommit == Is("commit") /\ S' = (IF Modelled THEN SessCommit(S, batch) ELSE S) /\ batch' = {}
           /\ UNCHANGED <<prog, refreshing, execs, rows, counts>> /\ Consume
TExec ==
    /\ Is("exec")
    /\ execs' = IF refreshing THEN execs ELSE Append(execs, [n |-> Ev.n, out |-> Ev.out, ok |-> Ev.ok])
    /\ UNCHANGED <<prog, S, batch, refreshing, rows, counts>> /\ Consume
TRestart == Is("restart") /\ S' = [S EXCEPT !.dirtied = {}]
            /\ UNCHANGED <<prog, batch, refreshing, execs, rows, counts>> /\ Consume

SeqBag(s) == LET RECURSIVE B(_, _)
                 B(i, b) == IF i > Len(s) THEN b ELSE B(i + 1, b (+) SetToBag({s[i]}))
             IN B(1, EmptyBag)

TQuery ==
    /\ Is("query")
    /\ IF Modelled
       THEN LET r == UserQuery(prog, S, Ev.n)
                before == Len(S.log)
                predicted == [i \in 1..(Len(r.S.log) - before) |->
                                 [n |-> r.S.log[before + i].n, out |-> r.S.log[before + i].out]]
                cut == \E i \in 1..Len(execs) : ~execs[i].ok
                observed == [i \in 1..Len(execs) |-> [n |-> execs[i].n, out |-> execs[i].out]]
                vagree == r.v = Ev.v
                eagree == cut \/ SeqBag(predicted) = SeqBag(observed)
            IN /\ S' = r.S
               /\ rows' = IF vagree /\ eagree THEN rows
                          ELSE Append(rows, [at |-> l, n |-> Ev.n, kind |-> "query_drift", got |-> Ev.v,
                                             model |-> r.v, execs_agree |-> eagree])
               /\ counts' = [counts EXCEPT !.queries = @ + 1,
                                           !.value_agree = @ + (IF vagree THEN 1 ELSE 0),
                                           !.execs_agree = @ + (IF eagree THEN 1 ELSE 0)]
       ELSE /\ UNCHANGED <<S, rows>>
            /\ counts' = [counts EXCEPT !.skipped_runs = @ + 1]
    /\ execs' = <<>>
    /\ UNCHANGED <<prog, batch, refreshing>> /\ Consume

(* the engine's recorded state of one node (qbice::verif dump hook) against *)
(* the model's                                                             *)
TDump ==
    /\ Is("dump")
    /\ IF Modelled /\ Ev.n \in DOMAIN S.lv
       THEN LET n == Ev.n
                mlv == IF S.lv[n] = None THEN -1 ELSE S.lv[n]
                mpbp == IF S.pbp[n] = None THEN -1 ELSE S.pbp[n]
                mdirty == {d \in DOMAIN S.lv : <<n, d>> \in S.dirty /\ d \in SeqSet(Flatten(S.fwd[n]))}
                ok == /\ mlv = Ev.lv
                      /\ S.nfo[n].tfc = SeqSet(Ev.tfc)
                      /\ mdirty = SeqSet(Ev.dirty)
                      /\ S.back[n] = SeqSet(Ev.back)
                      /\ SeqSet(Flatten(S.fwd[n])) = SeqSet(Ev.fwd)
                      /\ mpbp = Ev.pbp
            IN /\ rows' = IF ok \/ Len(rows) > 200 THEN rows
                          ELSE Append(rows, [at |-> l, n |-> n, kind |-> "state_drift",
                                             real |-> [lv |-> Ev.lv, tfc |-> Ev.tfc, dirty |-> Ev.dirty,
                                                       back |-> Ev.back, fwd |-> Ev.fwd, pbp |-> Ev.pbp],
                                             model |-> [lv |-> mlv, tfc |-> S.nfo[n].tfc, dirty |-> mdirty,
                                                        back |-> S.back[n],
                                                        fwd |-> SeqSet(Flatten(S.fwd[n])), pbp |-> mpbp]])
               /\ counts' = [counts EXCEPT !.dumps = @ + 1, !.dumps_agree = @ + (IF ok THEN 1 ELSE 0)]
       ELSE UNCHANGED <<rows, counts>>
    /\ UNCHANGED <<prog, S, batch, refreshing, execs>> /\ Consume

Ignored == {"enter", "read", "tracked", "drop", "reset", "act"}
TOther ==
    /\ l <= Len(Rec) /\ Ev.e \in Ignored
    /\ UNCHANGED <<prog, S, batch, refreshing, execs, rows, counts>> /\ Consume

(* anything else (crash, cancel, hang, panics): the run leaves the model   *)
TLeave ==
    /\ l <= Len(Rec)
    /\ Ev.e \notin Ignored \cup {"prog", "begin", "set", "world", "refresh_start", "refresh",
                                 "commit", "exec", "restart", "query", "dump"}
    /\ S' = [S EXCEPT !.err = "left"]
    /\ UNCHANGED <<prog, batch, refreshing, execs, rows, counts>> /\ Consume

Finish ==
    /\ l = Len(Rec) + 1 /\ ~done
    /\ JsonSerialize(IOEnv.OUT, [events |-> Len(Rec), counts |-> counts, rows |-> rows])
    /\ done' = TRUE
    /\ UNCHANGED <<l, prog, S, batch, refreshing, execs, rows, counts>>

Next == Start \/ TBegin \/ TSet \/ TWorld \/ TRefreshStart \/ TRefresh \/ TCommit \/ TExec
        \/ TRestart \/ TQuery \/ TDump \/ TOther \/ TLeave \/ Finish
Spec == Init /\ [][Next]_tvars
Accepted == TLCGet("stats").diameter >= Len(Rec) + 2
=============================================================================
