SPECIFICATION FairSpec
CONSTANTS
  Tasks = {1, 2}
  Queries = {1, 2, 3, 4}
  Deps <- DepsR3
  Roots <- RootsR3b
  SubscribeLate = FALSE
  MaxAbandon = 0
  SilentAbandon = FALSE
  RegisterLate = FALSE
  MarkCallerOnly = FALSE
PROPERTY Progress
CHECK_DEADLOCK FALSE
