------------------------------- MODULE KvStore -------------------------------
(***************************************************************************)
(* C11 - reference semantics of qbice's key-value store contract           *)
(* (crates/storage/src/kv_database.rs: KvDatabase, WriteBatch,             *)
(* SerializationBuffer, WideColumn, WideColumnValue, KeyOfSetColumn).      *)
(*                                                                         *)
(* P-layer: a store is a pair of maps                                      *)
(*    wide : column x key x value-type -> value | absent                   *)
(*    sets : column x key -> set of elements                               *)
(* changed only by `Commit` of a write batch, which applies the batch's    *)
(* ops in order as ONE step.  Ops reach a batch directly (WriteBatch::put  *)
(* ...) or through a SerializationBuffer that is later consumed            *)
(* (consume_serialization_buffer appends the buffer's ops at the point of  *)
(* consumption).  Reads never see open batches or buffers.  `Reopen`       *)
(* drops every handle (open batches and buffers are lost, iterators are    *)
(* gone) and keeps exactly the committed maps.                             *)
(*                                                                         *)
(* One action per critical section of the backends:                       *)
(*   OpenBatch/BatchOp/OpenBuf/BufOp/Consume/DropBuf/DropBatch             *)
(*                    - rocksdb.rs RocksDBWriteBatch / SerializationBuffer *)
(*   Commit           - db.write_opt(batch) / fjall batch.commit()         *)
(*   ScanOpen/ScanDrain - scan_members creates the iterator, the caller    *)
(*                      drains it later                                    *)
(*   Get/Scan         - get_wide_column / scan_members drained at once:    *)
(*                      only the family cache can change                   *)
(*   Reopen           - drop(Arc<Impl>) ; open(path)                       *)
(*                                                                         *)
(* Switches that model the code AS IT IS where it leaves the contract:     *)
(*   AtomicCommit = FALSE : fjall 3.0.1 `Batch::commit` inserts the items  *)
(*       one by one into the memtables and qbice's fjall.rs reads with     *)
(*       `Keyspace::get/prefix` (SeqNo::MAX, no snapshot), so a concurrent *)
(*       reader can observe a prefix of a batch (CommitStep).              *)
(*   SnapshotScan = FALSE : a fjall iterator is not pinned to the state at *)
(*       creation; what it returns lies between `must` and `may`.          *)
(*   Alias # {} : the composite wide-column key is the plain concatenation *)
(*       of encoded discriminant and encoded key (no framing).  For key    *)
(*       types whose encoding is not self-delimiting two different cells   *)
(*       can share one physical key; Alias lists such pairs <<c1, c2>>     *)
(*       (c1 is stored in c2's slot).  kv_replay computes the pairs for    *)
(*       each concrete key family and backend.                             *)
(*                                                                         *)
(* Column families (rocksdb.rs get_or_create_cf_from_cf_identifier,        *)
(* fjall.rs get_or_create_keyspace): the content of a column lives in a    *)
(* family that is looked up / created lazily by the FIRST operation that   *)
(* touches the column in a session (= between open and close).  The        *)
(* session cache `cfmap` is keyed by the column only; the kind of the      *)
(* touching call site (wide column / key of set) is used on a cache MISS   *)
(* only, to build the family's name.  Every call site must therefore name  *)
(* the column's own family; then which operation touched a column first    *)
(* can never matter (ResultsIgnoreTouched, OwnFamilyOnly).                 *)
(*   TrackTouch = TRUE : keep the per-session cache (`touched` = columns   *)
(*       bound in this session).  FALSE: every access resolves as on a     *)
(*       miss (keeps the big configurations small).                        *)
(*   MisTag # {} : MUTATION.  The listed call-site forms ("sb_rem" = a     *)
(*       member delete staged in a serialization buffer, ...) carry the    *)
(*       wrong kind: on a cache miss they open (create) the column's       *)
(*       OTHER family `alt` and bind the column to it for the session.     *)
(*       Contract and code as shipped: {}.                                 *)
(*                                                                         *)
(* A serialization buffer is a SEQUENCE: consume_serialization_buffer      *)
(* appends the buffer's operations to the batch in the order they were     *)
(* issued (two writes to one cell in one buffer: the later one wins), at   *)
(* the point of consumption (two buffers: the order of consumption         *)
(* decides; direct and buffered operations mix by that rule too).          *)
(*   BufOrder = "seq"   : contract and code as shipped.                    *)
(*   BufOrder = "any"   : MUTATION, consume appends the buffer's ops in an *)
(*                        arbitrary order.                                 *)
(*   BufOrder = "bycol" : MUTATION, consume groups the ops by column (an   *)
(*                        unstable sort by column family): the order       *)
(*                        inside one column is arbitrary.                  *)
(* Under a mutation the batch also carries `spec`, the sequence the        *)
(* contract prescribes; the history `log` records that one, so the         *)
(* declarative invariants judge the store against the contract             *)
(* (BufferIsSequence states the mechanism).                                *)
(* With the switches at their contract values TLC proves the invariants    *)
(* below for the bounded configuration; with a switch at its as-is value   *)
(* TLC produces exactly the corresponding class of wrong reads.            *)
(***************************************************************************)
EXTENDS Naturals, Sequences, FiniteSets, TLC

CONSTANTS WCols,   \* wide columns; the replay uses W1 (Prefixed) and W2 (Suffixed)
          SCols,   \* key-of-set columns S1, S2
          Keys, VTypes, Vals, Elems,
          MaxBatches, MaxBufs, MaxIters, MaxOps,
          AtomicCommit, SnapshotScan, Alias,
          TrackTouch, MisTag,
          BufOrder

Cells == WCols \X Keys \X VTypes
SetIds == SCols \X Keys
Cols == WCols \cup SCols

(* call-site forms that resolve a column family *)
WForms == {"wb_put", "wb_del", "sb_put", "sb_del", "get"}
SForms == {"wb_ins", "wb_rem", "sb_ins", "sb_rem", "scan"}
Forms == WForms \cup SForms

PutOps == [k : {"put"}, c : WCols, key : Keys, x : VTypes, val : Vals]
DelOps == [k : {"del"}, c : WCols, key : Keys, x : VTypes, val : {0}]
InsOps == [k : {"ins"}, c : SCols, key : Keys, x : Elems, val : {0}]
RemOps == [k : {"rem"}, c : SCols, key : Keys, x : Elems, val : {0}]
Ops == PutOps \cup DelOps \cup InsOps \cup RemOps

VARIABLES wide,    \* [Cells -> {0} \cup Vals]; 0 = absent   (physical slots)
          sets,    \* [SetIds -> SUBSET Elems]
          batch,   \* [1..MaxBatches -> [st, ops, applied]]
          sbuf,    \* [1..MaxBufs -> [st, ops]]
          iters,   \* [1..MaxIters -> [st, c, key, snap, must, may]]
          log,     \* history: committed batches, in commit order
          nops,    \* ops issued so far (bound)
          cfmap,   \* [Cols -> {"none", "own", "alt"}]: family the column is bound to in this session
          awide,   \* content of the OTHER family of a wide column (only a mis-tagged call site opens it)
          asets    \* content of the OTHER family of a set column

vars == <<wide, sets, batch, sbuf, iters, log, nops, cfmap, awide, asets>>
fvars == <<cfmap, awide, asets>>

FreeBatch == [st |-> "free", ops |-> <<>>, applied |-> 0, spec |-> <<>>]
FreeBuf == [st |-> "free", ops |-> <<>>]
FreeIter == [st |-> "free", c |-> "-", key |-> "-", f |-> "-",
             snap |-> {}, must |-> {}, may |-> {}]

(* ---- column families ---- *)
(* columns opened in this session *)
touched == {c \in Cols : cfmap[c] # "none"}
(* family a call site of form `form` names when the cache misses *)
ResolveOnMiss(form) == IF form \in MisTag THEN "alt" ELSE "own"
(* family an access of form `form` to column c uses under the cache m *)
FamUnder(m, c, form) == IF m[c] # "none" THEN m[c] ELSE ResolveOnMiss(form)
FamOf(c, form) == FamUnder(cfmap, c, form)
(* the access binds the column for the rest of the session *)
Touch(m, c, f) == IF TrackTouch /\ m[c] = "none" THEN [m EXCEPT ![c] = f] ELSE m
(* an op with the family handle it holds once it sits in a write batch *)
Bound(op, f) == [k |-> op.k, c |-> op.c, key |-> op.key, x |-> op.x, val |-> op.val, f |-> f]

(* Physical slot of a logical cell (identity unless the cell is aliased). *)
Canon(cell) == IF \E p \in Alias : p[1] = cell
               THEN (CHOOSE p \in Alias : p[1] = cell)[2]
               ELSE cell

IsWideOp(op) == op.k \in {"put", "del"}

ApplyWide(w, op) ==
    IF op.k = "put" THEN [w EXCEPT ![Canon(<<op.c, op.key, op.x>>)] = op.val]
    ELSE IF op.k = "del" THEN [w EXCEPT ![Canon(<<op.c, op.key, op.x>>)] = 0]
    ELSE w

ApplySets(s, op) ==
    IF op.k = "ins" THEN [s EXCEPT ![<<op.c, op.key>>] = @ \cup {op.x}]
    ELSE IF op.k = "rem" THEN [s EXCEPT ![<<op.c, op.key>>] = @ \ {op.x}]
    ELSE s

RECURSIVE FoldWide(_, _), FoldSets(_, _), Flat(_)
FoldWide(w, ops) == IF ops = <<>> THEN w ELSE FoldWide(ApplyWide(w, Head(ops)), Tail(ops))
FoldSets(s, ops) == IF ops = <<>> THEN s ELSE FoldSets(ApplySets(s, Head(ops)), Tail(ops))
Flat(l) == IF l = <<>> THEN <<>> ELSE Head(l) \o Flat(Tail(l))

(* Example for KvStoreAsIsAlias.cfg (a cfg file cannot spell tuples): the  *)
(* suffixed pair found by kv_replay for raw byte keys, key [05] with a    *)
(* two-byte discriminant vs key [05 81] with a one-byte discriminant.      *)
AliasDemo == {<< <<"W1", "K1", "V2">>, <<"W1", "K2", "V1">> >>}

(* What the API returns (through the session's family cache). *)
ReadWide(f, cell) == IF f = "alt" THEN awide[Canon(cell)] ELSE wide[Canon(cell)]
ReadSet(f, sid) == IF f = "alt" THEN asets[sid] ELSE sets[sid]
GetResult(c, key, vt) == ReadWide(FamOf(c, "get"), <<c, key, vt>>)
ScanResult(c, key) == ReadSet(FamOf(c, "scan"), <<c, key>>)

Init ==
    /\ wide = [cell \in Cells |-> 0]
    /\ sets = [s \in SetIds |-> {}]
    /\ batch = [b \in 1..MaxBatches |-> FreeBatch]
    /\ sbuf = [s \in 1..MaxBufs |-> FreeBuf]
    /\ iters = [i \in 1..MaxIters |-> FreeIter]
    /\ log = <<>>
    /\ nops = 0
    /\ cfmap = [c \in Cols |-> "none"]
    /\ awide = [cell \in Cells |-> 0]
    /\ asets = [s \in SetIds |-> {}]

Applying == \E b \in 1..MaxBatches : batch[b].st = "applying"

(* db.write_batch() *)
OpenBatch(b) ==
    /\ batch[b].st = "free"
    /\ batch' = [batch EXCEPT ![b] = [FreeBatch EXCEPT !.st = "open"]]
    /\ UNCHANGED <<wide, sets, sbuf, iters, log, nops, fvars>>

(* WriteBatch::put / delete / insert_member / delete_member: the family   *)
(* handle is resolved NOW (first touch) and kept in the batch.             *)
BatchOp(b, op) ==
    /\ batch[b].st = "open" /\ nops < MaxOps
    /\ LET f == FamOf(op.c, "wb_" \o op.k) IN
       /\ batch' = [batch EXCEPT ![b].ops = Append(@, Bound(op, f)),
                                 ![b].spec = IF BufOrder = "seq" THEN <<>> ELSE Append(@, Bound(op, f))]
       /\ cfmap' = Touch(cfmap, op.c, f)
    /\ nops' = nops + 1
    /\ UNCHANGED <<wide, sets, sbuf, iters, log, awide, asets>>

(* db.serialization_buffer() *)
OpenBuf(s) ==
    /\ sbuf[s].st = "free"
    /\ sbuf' = [sbuf EXCEPT ![s] = [FreeBuf EXCEPT !.st = "open"]]
    /\ UNCHANGED <<wide, sets, batch, iters, log, nops, fvars>>

(* SerializationBuffer::put / delete / insert_member / delete_member: only *)
(* bytes and a (column id, kind) tag are staged, no family is touched.     *)
BufOp(s, op) ==
    /\ sbuf[s].st = "open" /\ nops < MaxOps
    /\ sbuf' = [sbuf EXCEPT ![s].ops = Append(@, Bound(op, "none"))]
    /\ nops' = nops + 1
    /\ UNCHANGED <<wide, sets, batch, iters, log, fvars>>

(* consume: the staged ops resolve their families one after the other;    *)
(* result <<bound ops, cache afterwards>>                                  *)
RECURSIVE BindSeq(_, _)
BindSeq(m, ops) ==
    IF ops = <<>> THEN <<<<>>, m>>
    ELSE LET o == Head(ops)
             f == FamUnder(m, o.c, "sb_" \o o.k)
             r == BindSeq(Touch(m, o.c, f), Tail(ops))
         IN <<(<<Bound(o, f)>> \o r[1]), r[2]>>

(* orders in which a consume may append the ops of one buffer *)
Permuted(ops, p) == [i \in 1..Len(ops) |-> ops[p[i]]]
Grouped(ops) == \A i, j, k \in 1..Len(ops) :
                   (i < j /\ j < k /\ ops[i].c = ops[k].c) => ops[j].c = ops[i].c
Orders(ops) ==
    IF BufOrder = "seq" THEN {ops}
    ELSE LET n == Len(ops)
             all == {Permuted(ops, p) : p \in {q \in [1..n -> 1..n] : \A i, j \in 1..n : q[i] = q[j] => i = j}}
         IN IF BufOrder = "any" THEN all ELSE {o \in all : Grouped(o)}

(* WriteBatch::consume_serialization_buffer *)
Consume(b, s) ==
    /\ batch[b].st = "open" /\ sbuf[s].st = "open"
    /\ LET r == BindSeq(cfmap, sbuf[s].ops) IN
       /\ \E o \in Orders(r[1]) :
             batch' = [batch EXCEPT ![b].ops = @ \o o,
                                    ![b].spec = IF BufOrder = "seq" THEN <<>> ELSE @ \o r[1]]
       /\ cfmap' = r[2]
    /\ sbuf' = [sbuf EXCEPT ![s] = FreeBuf]
    /\ UNCHANGED <<wide, sets, iters, log, nops, awide, asets>>

DropBuf(s) ==
    /\ sbuf[s].st = "open"
    /\ sbuf' = [sbuf EXCEPT ![s] = FreeBuf]
    /\ UNCHANGED <<wide, sets, batch, iters, log, nops, fvars>>

(* Open iterators: what they must / may still yield after a state change   *)
(* (an iterator reads the family it was created on).                       *)
TrackIters(newsets, newasets) ==
    [i \in 1..MaxIters |->
        IF iters[i].st = "open"
        THEN LET now == IF iters[i].f = "alt" THEN newasets[<<iters[i].c, iters[i].key>>]
                        ELSE newsets[<<iters[i].c, iters[i].key>>]
             IN [iters[i] EXCEPT !.must = @ \cap now, !.may = @ \cup now]
        ELSE iters[i]]

(* An empty batch leaves no trace (keeps the history, hence the state     *)
(* space, finite).                                                         *)
Logged(ops) == IF ops = <<>> THEN log ELSE Append(log, ops)
(* what the contract says batch b holds *)
SpecOps(b) == IF BufOrder = "seq" THEN batch[b].ops ELSE batch[b].spec

(* every op lands in the family whose handle the batch holds *)
InFam(ops, f) == SelectSeq(ops, LAMBDA o : o.f = f)

(* WriteBatch::commit as the contract has it: one step. *)
Commit(b) ==
    /\ AtomicCommit
    /\ batch[b].st = "open"
    /\ wide' = FoldWide(wide, InFam(batch[b].ops, "own"))
    /\ sets' = FoldSets(sets, InFam(batch[b].ops, "own"))
    /\ awide' = FoldWide(awide, InFam(batch[b].ops, "alt"))
    /\ asets' = FoldSets(asets, InFam(batch[b].ops, "alt"))
    /\ iters' = TrackIters(sets', asets')
    /\ log' = Logged(SpecOps(b))
    /\ batch' = [batch EXCEPT ![b] = FreeBatch]
    /\ UNCHANGED <<sbuf, nops, cfmap>>

(* ... and as fjall applies it for readers that do not take a snapshot:   *)
(* the journal lock serialises committers, items become readable one by   *)
(* one.                                                                    *)
CommitBegin(b) ==
    /\ ~AtomicCommit
    /\ batch[b].st = "open" /\ ~Applying
    /\ batch' = [batch EXCEPT ![b].st = "applying"]
    /\ UNCHANGED <<wide, sets, sbuf, iters, log, nops, fvars>>

CommitStep(b) ==
    /\ ~AtomicCommit
    /\ batch[b].st = "applying"
    /\ IF batch[b].applied < Len(batch[b].ops)
       THEN LET op == batch[b].ops[batch[b].applied + 1] IN
            /\ IF op.f = "alt"
               THEN /\ awide' = ApplyWide(awide, op)
                    /\ asets' = ApplySets(asets, op)
                    /\ UNCHANGED <<wide, sets>>
               ELSE /\ wide' = ApplyWide(wide, op)
                    /\ sets' = ApplySets(sets, op)
                    /\ UNCHANGED <<awide, asets>>
            /\ iters' = TrackIters(sets', asets')
            /\ batch' = [batch EXCEPT ![b].applied = @ + 1]
            /\ UNCHANGED log
       ELSE /\ log' = Logged(SpecOps(b))
            /\ batch' = [batch EXCEPT ![b] = FreeBatch]
            /\ UNCHANGED <<wide, sets, iters, awide, asets>>
    /\ UNCHANGED <<sbuf, nops, cfmap>>

(* drop(batch) without commit *)
DropBatch(b) ==
    /\ batch[b].st = "open"
    /\ batch' = [batch EXCEPT ![b] = FreeBatch]
    /\ UNCHANGED <<wide, sets, sbuf, iters, log, nops, fvars>>

(* get_wide_column / scan_members drained at once: nothing changes but    *)
(* the family cache (a read is a first touch like any other).              *)
Get(c) ==
    /\ c \in WCols
    /\ cfmap' = Touch(cfmap, c, FamOf(c, "get"))
    /\ UNCHANGED <<wide, sets, batch, sbuf, iters, log, nops, awide, asets>>

Scan(c) ==
    /\ c \in SCols
    /\ cfmap' = Touch(cfmap, c, FamOf(c, "scan"))
    /\ UNCHANGED <<wide, sets, batch, sbuf, iters, log, nops, awide, asets>>

(* as steps of the reference on its own: without the cache a read changes  *)
(* nothing at all                                                          *)
ReadGet(c) == TrackTouch /\ Get(c)
ReadScan(c) == TrackTouch /\ Scan(c)

(* the harness' "read everything": every cell and every set is read *)
RECURSIVE TouchAll(_, _)
TouchAll(m, cs) ==
    IF cs = {} THEN m
    ELSE LET c == CHOOSE x \in cs : TRUE
         IN TouchAll(Touch(m, c, FamUnder(m, c, IF c \in WCols THEN "get" ELSE "scan")), cs \ {c})

Sweep ==
    /\ cfmap' = TouchAll(cfmap, Cols)
    /\ UNCHANGED <<wide, sets, batch, sbuf, iters, log, nops, awide, asets>>

(* scan_members: the iterator is created now ... *)
ScanOpen(i, c, key) ==
    /\ iters[i].st = "free"
    /\ LET f == FamOf(c, "scan") IN
       /\ iters' = [iters EXCEPT ![i] = [st |-> "open", c |-> c, key |-> key, f |-> f,
                                         snap |-> ReadSet(f, <<c, key>>),
                                         must |-> ReadSet(f, <<c, key>>),
                                         may |-> ReadSet(f, <<c, key>>)]]
       /\ cfmap' = Touch(cfmap, c, f)
    /\ UNCHANGED <<wide, sets, batch, sbuf, log, nops, awide, asets>>

(* ... and drained later. *)
DrainResults(i) == IF SnapshotScan THEN {iters[i].snap}
                   ELSE {r \in SUBSET iters[i].may : iters[i].must \subseteq r}

ScanDrain(i) ==
    /\ iters[i].st = "open"
    /\ iters' = [iters EXCEPT ![i] = FreeIter]
    /\ UNCHANGED <<wide, sets, batch, sbuf, log, nops, fvars>>

(* drop every handle, open the same directory again: the families and     *)
(* their content stay, the session cache is empty again                    *)
Reopen ==
    /\ ~Applying
    /\ batch' = [b \in 1..MaxBatches |-> FreeBatch]
    /\ sbuf' = [s \in 1..MaxBufs |-> FreeBuf]
    /\ iters' = [i \in 1..MaxIters |-> FreeIter]
    /\ cfmap' = [c \in Cols |-> "none"]
    /\ UNCHANGED <<wide, sets, log, nops, awide, asets>>

Next ==
    \/ \E b \in 1..MaxBatches :
          OpenBatch(b) \/ Commit(b) \/ CommitBegin(b) \/ CommitStep(b) \/ DropBatch(b)
          \/ (\E op \in Ops : BatchOp(b, op))
          \/ (\E s \in 1..MaxBufs : Consume(b, s))
    \/ \E s \in 1..MaxBufs : OpenBuf(s) \/ DropBuf(s) \/ (\E op \in Ops : BufOp(s, op))
    \/ \E i \in 1..MaxIters : ScanDrain(i) \/ (\E c \in SCols, key \in Keys : ScanOpen(i, c, key))
    \/ \E c \in Cols : ReadGet(c) \/ ReadScan(c)
    \/ Reopen

Spec == Init /\ [][Next]_vars

----------------------------------------------------------------------------
(* The property, declaratively: the value of a cell is the value of the    *)
(* last committed put/delete on exactly that cell; an element is a member  *)
(* iff the last committed insert/delete of exactly that (column, key,      *)
(* element) is an insert.  Stated over the log of committed batches only,  *)
(* so open batches, buffers, dropped batches and reopen cannot matter.     *)
Max(S) == CHOOSE m \in S : \A n \in S : n <= m

DeclWide(f, cell) ==
    LET I == {i \in 1..Len(f) : IsWideOp(f[i]) /\ <<f[i].c, f[i].key, f[i].x>> = cell}
    IN IF I = {} THEN 0
       ELSE IF f[Max(I)].k = "put" THEN f[Max(I)].val ELSE 0

DeclMember(f, c, key, e) ==
    LET I == {i \in 1..Len(f) : ~IsWideOp(f[i]) /\ f[i].c = c /\ f[i].key = key /\ f[i].x = e}
    IN I # {} /\ f[Max(I)].k = "ins"

TypeOK ==
    /\ wide \in [Cells -> {0} \cup Vals]
    /\ sets \in [SetIds -> SUBSET Elems]
    /\ \A b \in 1..MaxBatches : batch[b].st \in {"free", "open", "applying"}
    /\ nops \in 0..MaxOps
    /\ cfmap \in [Cols -> {"none", "own", "alt"}]
    /\ awide \in [Cells -> {0} \cup Vals]
    /\ asets \in [SetIds -> SUBSET Elems]
    /\ TrackTouch \in BOOLEAN /\ MisTag \subseteq Forms
    /\ BufOrder \in {"seq", "any", "bycol"}

(* point reads: last committed value of exactly that column, key, type *)
ReadsLastCommitted ==
    LET f == Flat(log) IN
    \A c \in WCols, key \in Keys, vt \in VTypes :
        GetResult(c, key, vt) = DeclWide(f, <<c, key, vt>>)

(* scans: exactly the committed members of exactly that key *)
ScansExactMembers ==
    LET f == Flat(log) IN
    \A c \in SCols, key \in Keys :
        ScanResult(c, key) = {e \in Elems : DeclMember(f, c, key, e)}

(* iterators: pinned at creation (or at least between must and may) *)
IterSound ==
    \A i \in 1..MaxIters : iters[i].st = "open" =>
        /\ iters[i].must \subseteq iters[i].snap /\ iters[i].snap \subseteq iters[i].may
        /\ iters[i].must \subseteq ReadSet(iters[i].f, <<iters[i].c, iters[i].key>>)
        /\ ReadSet(iters[i].f, <<iters[i].c, iters[i].key>>) \subseteq iters[i].may

(* a serialization buffer is a sequence: what a batch holds is what the    *)
(* contract says it holds, in that order                                   *)
BufferIsSequence == \A b \in 1..MaxBatches : batch[b].ops = SpecOps(b)

(* First touch.  Which families could a session bind column c to?  One per *)
(* call-site form that can be the first to touch it.                       *)
PossibleFams(c) == {ResolveOnMiss(fm) : fm \in (IF c \in WCols THEN WForms ELSE SForms)}

(* The result of a read never depends on `touched`: whatever this session  *)
(* has touched so far, and whichever operation a session touches the       *)
(* column with first, every read returns the same as the read through this *)
(* session's cache.                                                        *)
ResultsIgnoreTouched ==
    /\ \A c \in WCols, key \in Keys, vt \in VTypes : \A f \in PossibleFams(c) :
          ReadWide(f, <<c, key, vt>>) = GetResult(c, key, vt)
    /\ \A c \in SCols, key \in Keys : \A f \in PossibleFams(c) :
          ReadSet(f, <<c, key>>) = ScanResult(c, key)

(* mechanism: a column is only ever bound to the family of its own kind,   *)
(* nothing is ever written anywhere else, and without a session cache      *)
(* nothing is bound at all                                                  *)
OwnFamilyOnly ==
    /\ \A c \in Cols : cfmap[c] \in {"none", "own"}
    /\ \A cell \in Cells : awide[cell] = 0
    /\ \A s \in SetIds : asets[s] = {}
    /\ \A b \in 1..MaxBatches : \A i \in 1..Len(batch[b].ops) : batch[b].ops[i].f = "own"
    /\ ~TrackTouch => touched = {}

(* Only a commit changes what is readable: opening, filling, consuming,    *)
(* dropping, scanning and reopening leave the committed maps alone         *)
(* (uncommitted batches are invisible; content survives reopen).           *)
OnlyCommitChanges ==
    [][log' = log => (wide' = wide /\ sets' = sets /\ awide' = awide /\ asets' = asets)]_vars
=============================================================================
