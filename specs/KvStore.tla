------------------------------- MODULE KvStore -------------------------------
(***************************************************************************)
(* C11 - reference semantics of qbice's key-value store contract           *)
(* (crates/storage/src/kv_database.rs: KvDatabase, WriteBatch,             *)
(* SerializationBuffer, WideColumn, WideColumnValue, KeyOfSetColumn).      *)
(*                                                                         *)
(* P-layer: a store is a pair of maps                                      *)
(*    wide : column x key x value-type -> value | absent                   *)
(*    sets : column x key -> set of elements                               *)
(* changed only by `Commit` of a write batch, which applies the batch's    *)
(* ops in order as ONE step.  Ops reach a batch directly (WriteBatch::put  *)
(* ...) or through a SerializationBuffer that is later consumed            *)
(* (consume_serialization_buffer appends the buffer's ops at the point of  *)
(* consumption).  Reads never see open batches or buffers.  `Reopen`       *)
(* drops every handle (open batches and buffers are lost, iterators are    *)
(* gone) and keeps exactly the committed maps.                             *)
(*                                                                         *)
(* One action per critical section of the backends:                       *)
(*   OpenBatch/BatchOp/OpenBuf/BufOp/Consume/DropBuf/DropBatch             *)
(*                    - rocksdb.rs RocksDBWriteBatch / SerializationBuffer *)
(*   Commit           - db.write_opt(batch) / fjall batch.commit()         *)
(*   ScanOpen/ScanDrain - scan_members creates the iterator, the caller    *)
(*                      drains it later                                    *)
(*   Reopen           - drop(Arc<Impl>) ; open(path)                       *)
(*                                                                         *)
(* Switches that model the code AS IT IS where it leaves the contract:     *)
(*   AtomicCommit = FALSE : fjall 3.0.1 `Batch::commit` inserts the items  *)
(*       one by one into the memtables and qbice's fjall.rs reads with     *)
(*       `Keyspace::get/prefix` (SeqNo::MAX, no snapshot), so a concurrent *)
(*       reader can observe a prefix of a batch (CommitStep).              *)
(*   SnapshotScan = FALSE : a fjall iterator is not pinned to the state at *)
(*       creation; what it returns lies between `must` and `may`.          *)
(*   Alias # {} : the composite wide-column key is the plain concatenation *)
(*       of encoded discriminant and encoded key (no framing).  For key    *)
(*       types whose encoding is not self-delimiting two different cells   *)
(*       can share one physical key; Alias lists such pairs <<c1, c2>>     *)
(*       (c1 is stored in c2's slot).  kv_replay computes the pairs for    *)
(*       each concrete key family and backend.                             *)
(* With the switches at their contract values TLC proves the invariants    *)
(* below for the bounded configuration; with a switch at its as-is value   *)
(* TLC produces exactly the corresponding class of wrong reads.            *)
(***************************************************************************)
EXTENDS Naturals, Sequences, FiniteSets, TLC

CONSTANTS WCols,   \* wide columns; the replay uses W1 (Prefixed) and W2 (Suffixed)
          SCols,   \* key-of-set columns S1, S2
          Keys, VTypes, Vals, Elems,
          MaxBatches, MaxBufs, MaxIters, MaxOps,
          AtomicCommit, SnapshotScan, Alias

Cells == WCols \X Keys \X VTypes
SetIds == SCols \X Keys

PutOps == [k : {"put"}, c : WCols, key : Keys, x : VTypes, val : Vals]
DelOps == [k : {"del"}, c : WCols, key : Keys, x : VTypes, val : {0}]
InsOps == [k : {"ins"}, c : SCols, key : Keys, x : Elems, val : {0}]
RemOps == [k : {"rem"}, c : SCols, key : Keys, x : Elems, val : {0}]
Ops == PutOps \cup DelOps \cup InsOps \cup RemOps

VARIABLES wide,    \* [Cells -> {0} \cup Vals]; 0 = absent   (physical slots)
          sets,    \* [SetIds -> SUBSET Elems]
          batch,   \* [1..MaxBatches -> [st, ops, applied]]
          sbuf,    \* [1..MaxBufs -> [st, ops]]
          iters,   \* [1..MaxIters -> [st, c, key, snap, must, may]]
          log,     \* history: committed batches, in commit order
          nops     \* ops issued so far (bound)

vars == <<wide, sets, batch, sbuf, iters, log, nops>>

FreeBatch == [st |-> "free", ops |-> <<>>, applied |-> 0]
FreeBuf == [st |-> "free", ops |-> <<>>]
FreeIter == [st |-> "free", c |-> "-", key |-> "-",
             snap |-> {}, must |-> {}, may |-> {}]

(* Physical slot of a logical cell (identity unless the cell is aliased). *)
Canon(cell) == IF \E p \in Alias : p[1] = cell
               THEN (CHOOSE p \in Alias : p[1] = cell)[2]
               ELSE cell

IsWideOp(op) == op.k \in {"put", "del"}

ApplyWide(w, op) ==
    IF op.k = "put" THEN [w EXCEPT ![Canon(<<op.c, op.key, op.x>>)] = op.val]
    ELSE IF op.k = "del" THEN [w EXCEPT ![Canon(<<op.c, op.key, op.x>>)] = 0]
    ELSE w

ApplySets(s, op) ==
    IF op.k = "ins" THEN [s EXCEPT ![<<op.c, op.key>>] = @ \cup {op.x}]
    ELSE IF op.k = "rem" THEN [s EXCEPT ![<<op.c, op.key>>] = @ \ {op.x}]
    ELSE s

RECURSIVE FoldWide(_, _), FoldSets(_, _), Flat(_)
FoldWide(w, ops) == IF ops = <<>> THEN w ELSE FoldWide(ApplyWide(w, Head(ops)), Tail(ops))
FoldSets(s, ops) == IF ops = <<>> THEN s ELSE FoldSets(ApplySets(s, Head(ops)), Tail(ops))
Flat(l) == IF l = <<>> THEN <<>> ELSE Head(l) \o Flat(Tail(l))

(* Example for KvStoreAsIsAlias.cfg (a cfg file cannot spell tuples): the  *)
(* suffixed pair found by kv_replay for raw byte keys, key [05] with a    *)
(* two-byte discriminant vs key [05 81] with a one-byte discriminant.      *)
AliasDemo == {<< <<"W1", "K1", "V2">>, <<"W1", "K2", "V1">> >>}

(* What the API returns. *)
GetResult(c, key, vt) == wide[Canon(<<c, key, vt>>)]
ScanResult(c, key) == sets[<<c, key>>]

Init ==
    /\ wide = [cell \in Cells |-> 0]
    /\ sets = [s \in SetIds |-> {}]
    /\ batch = [b \in 1..MaxBatches |-> FreeBatch]
    /\ sbuf = [s \in 1..MaxBufs |-> FreeBuf]
    /\ iters = [i \in 1..MaxIters |-> FreeIter]
    /\ log = <<>>
    /\ nops = 0

Applying == \E b \in 1..MaxBatches : batch[b].st = "applying"

(* db.write_batch() *)
OpenBatch(b) ==
    /\ batch[b].st = "free"
    /\ batch' = [batch EXCEPT ![b] = [FreeBatch EXCEPT !.st = "open"]]
    /\ UNCHANGED <<wide, sets, sbuf, iters, log, nops>>

(* WriteBatch::put / delete / insert_member / delete_member *)
BatchOp(b, op) ==
    /\ batch[b].st = "open" /\ nops < MaxOps
    /\ batch' = [batch EXCEPT ![b].ops = Append(@, op)]
    /\ nops' = nops + 1
    /\ UNCHANGED <<wide, sets, sbuf, iters, log>>

(* db.serialization_buffer() *)
OpenBuf(s) ==
    /\ sbuf[s].st = "free"
    /\ sbuf' = [sbuf EXCEPT ![s] = [FreeBuf EXCEPT !.st = "open"]]
    /\ UNCHANGED <<wide, sets, batch, iters, log, nops>>

(* SerializationBuffer::put / delete / insert_member / delete_member *)
BufOp(s, op) ==
    /\ sbuf[s].st = "open" /\ nops < MaxOps
    /\ sbuf' = [sbuf EXCEPT ![s].ops = Append(@, op)]
    /\ nops' = nops + 1
    /\ UNCHANGED <<wide, sets, batch, iters, log>>

(* WriteBatch::consume_serialization_buffer *)
Consume(b, s) ==
    /\ batch[b].st = "open" /\ sbuf[s].st = "open"
    /\ batch' = [batch EXCEPT ![b].ops = @ \o sbuf[s].ops]
    /\ sbuf' = [sbuf EXCEPT ![s] = FreeBuf]
    /\ UNCHANGED <<wide, sets, iters, log, nops>>

DropBuf(s) ==
    /\ sbuf[s].st = "open"
    /\ sbuf' = [sbuf EXCEPT ![s] = FreeBuf]
    /\ UNCHANGED <<wide, sets, batch, iters, log, nops>>

(* Open iterators: what they must / may still yield after a state change. *)
TrackIters(newsets) ==
    [i \in 1..MaxIters |->
        IF iters[i].st = "open"
        THEN [iters[i] EXCEPT !.must = @ \cap newsets[<<iters[i].c, iters[i].key>>],
                              !.may = @ \cup newsets[<<iters[i].c, iters[i].key>>]]
        ELSE iters[i]]

(* An empty batch leaves no trace (keeps the history, hence the state     *)
(* space, finite).                                                         *)
Logged(ops) == IF ops = <<>> THEN log ELSE Append(log, ops)

(* WriteBatch::commit as the contract has it: one step. *)
Commit(b) ==
    /\ AtomicCommit
    /\ batch[b].st = "open"
    /\ wide' = FoldWide(wide, batch[b].ops)
    /\ sets' = FoldSets(sets, batch[b].ops)
    /\ iters' = TrackIters(sets')
    /\ log' = Logged(batch[b].ops)
    /\ batch' = [batch EXCEPT ![b] = FreeBatch]
    /\ UNCHANGED <<sbuf, nops>>

(* ... and as fjall applies it for readers that do not take a snapshot:   *)
(* the journal lock serialises committers, items become readable one by   *)
(* one.                                                                    *)
CommitBegin(b) ==
    /\ ~AtomicCommit
    /\ batch[b].st = "open" /\ ~Applying
    /\ batch' = [batch EXCEPT ![b].st = "applying"]
    /\ UNCHANGED <<wide, sets, sbuf, iters, log, nops>>

CommitStep(b) ==
    /\ ~AtomicCommit
    /\ batch[b].st = "applying"
    /\ IF batch[b].applied < Len(batch[b].ops)
       THEN LET op == batch[b].ops[batch[b].applied + 1] IN
            /\ wide' = ApplyWide(wide, op)
            /\ sets' = ApplySets(sets, op)
            /\ iters' = TrackIters(sets')
            /\ batch' = [batch EXCEPT ![b].applied = @ + 1]
            /\ UNCHANGED log
       ELSE /\ log' = Logged(batch[b].ops)
            /\ batch' = [batch EXCEPT ![b] = FreeBatch]
            /\ UNCHANGED <<wide, sets, iters>>
    /\ UNCHANGED <<sbuf, nops>>

(* drop(batch) without commit *)
DropBatch(b) ==
    /\ batch[b].st = "open"
    /\ batch' = [batch EXCEPT ![b] = FreeBatch]
    /\ UNCHANGED <<wide, sets, sbuf, iters, log, nops>>

(* scan_members: the iterator is created now ... *)
ScanOpen(i, c, key) ==
    /\ iters[i].st = "free"
    /\ iters' = [iters EXCEPT ![i] = [st |-> "open", c |-> c, key |-> key,
                                      snap |-> sets[<<c, key>>],
                                      must |-> sets[<<c, key>>],
                                      may |-> sets[<<c, key>>]]]
    /\ UNCHANGED <<wide, sets, batch, sbuf, log, nops>>

(* ... and drained later. *)
DrainResults(i) == IF SnapshotScan THEN {iters[i].snap}
                   ELSE {r \in SUBSET iters[i].may : iters[i].must \subseteq r}

ScanDrain(i) ==
    /\ iters[i].st = "open"
    /\ iters' = [iters EXCEPT ![i] = FreeIter]
    /\ UNCHANGED <<wide, sets, batch, sbuf, log, nops>>

(* drop every handle, open the same directory again *)
Reopen ==
    /\ ~Applying
    /\ batch' = [b \in 1..MaxBatches |-> FreeBatch]
    /\ sbuf' = [s \in 1..MaxBufs |-> FreeBuf]
    /\ iters' = [i \in 1..MaxIters |-> FreeIter]
    /\ UNCHANGED <<wide, sets, log, nops>>

Next ==
    \/ \E b \in 1..MaxBatches :
          OpenBatch(b) \/ Commit(b) \/ CommitBegin(b) \/ CommitStep(b) \/ DropBatch(b)
          \/ (\E op \in Ops : BatchOp(b, op))
          \/ (\E s \in 1..MaxBufs : Consume(b, s))
    \/ \E s \in 1..MaxBufs : OpenBuf(s) \/ DropBuf(s) \/ (\E op \in Ops : BufOp(s, op))
    \/ \E i \in 1..MaxIters : ScanDrain(i) \/ (\E c \in SCols, key \in Keys : ScanOpen(i, c, key))
    \/ Reopen

Spec == Init /\ [][Next]_vars

----------------------------------------------------------------------------
(* The property, declaratively: the value of a cell is the value of the    *)
(* last committed put/delete on exactly that cell; an element is a member  *)
(* iff the last committed insert/delete of exactly that (column, key,      *)
(* element) is an insert.  Stated over the log of committed batches only,  *)
(* so open batches, buffers, dropped batches and reopen cannot matter.     *)
Max(S) == CHOOSE m \in S : \A n \in S : n <= m

DeclWide(f, cell) ==
    LET I == {i \in 1..Len(f) : IsWideOp(f[i]) /\ <<f[i].c, f[i].key, f[i].x>> = cell}
    IN IF I = {} THEN 0
       ELSE IF f[Max(I)].k = "put" THEN f[Max(I)].val ELSE 0

DeclMember(f, c, key, e) ==
    LET I == {i \in 1..Len(f) : ~IsWideOp(f[i]) /\ f[i].c = c /\ f[i].key = key /\ f[i].x = e}
    IN I # {} /\ f[Max(I)].k = "ins"

TypeOK ==
    /\ wide \in [Cells -> {0} \cup Vals]
    /\ sets \in [SetIds -> SUBSET Elems]
    /\ \A b \in 1..MaxBatches : batch[b].st \in {"free", "open", "applying"}
    /\ nops \in 0..MaxOps

(* point reads: last committed value of exactly that column, key, type *)
ReadsLastCommitted ==
    LET f == Flat(log) IN
    \A c \in WCols, key \in Keys, vt \in VTypes :
        GetResult(c, key, vt) = DeclWide(f, <<c, key, vt>>)

(* scans: exactly the committed members of exactly that key *)
ScansExactMembers ==
    LET f == Flat(log) IN
    \A c \in SCols, key \in Keys :
        ScanResult(c, key) = {e \in Elems : DeclMember(f, c, key, e)}

(* iterators: pinned at creation (or at least between must and may) *)
IterSound ==
    \A i \in 1..MaxIters : iters[i].st = "open" =>
        /\ iters[i].must \subseteq iters[i].snap /\ iters[i].snap \subseteq iters[i].may
        /\ iters[i].must \subseteq sets[<<iters[i].c, iters[i].key>>]
        /\ sets[<<iters[i].c, iters[i].key>>] \subseteq iters[i].may

(* Only a commit changes what is readable: opening, filling, consuming,    *)
(* dropping, scanning and reopening leave the committed maps alone         *)
(* (uncommitted batches are invisible; content survives reopen).           *)
OnlyCommitChanges ==
    [][log' = log => (wide' = wide /\ sets' = sets)]_vars
=============================================================================
