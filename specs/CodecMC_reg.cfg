SPECIFICATION Spec
CONSTANTS
  Pool <- PoolI
  Kids <- KidsI
  TypeOf <- TypeI
  HashOf <- HashI
  MaxEnc = 3
  Aux = TRUE
  AllowUnregistered = FALSE
  PinDecoded = FALSE
  SeenByHashOnly = FALSE
  Emitting = FALSE
CHECK_DEADLOCK FALSE
INVARIANTS
  FIFO
  PosOk
  SelfContained
  TabOk
