\* C14 trace validation: env C14_SIG (signature), TRACE (ndjson), OUT (result json).
SPECIFICATION TSpec
CONSTANTS
  Symbols <- JsonSymbols
  Profiles <- JsonProfiles
  Combine = "free"
  Forget <- NoForget
  Flatten = FALSE
  IgnoreSize = FALSE
  Emit = FALSE
POSTCONDITION TraceAccepted
CHECK_DEADLOCK FALSE
