\* mutant FillOverwrite (plain insert instead of insert-if-vacant), fill otherwise repaired: TLC must report ReadYourWrites violated
SPECIFICATION Spec
CONSTANTS
  Keys = {k1, k2}
  Vals = {1}
  Clients = {c1, c2}
  MaxBatches = 2
  MaxOps = 3
  StaleFill = FALSE
  FillOverwrite = TRUE
  NoNegativeEntry = FALSE
  Gen = FALSE
SYMMETRY Sym
VIEW view
INVARIANTS ReadYourWrites
CHECK_DEADLOCK FALSE
