SPECIFICATION TraceSpec
CONSTANTS
  Keys <- TKeys
  Clients <- TClients
  Elems <- TElems
  MaxBatches = 0
  MaxOps = 0
  T = 1024
  LostInsert = TRUE
  FlushMax = TRUE
  FoldCancel = TRUE
  SpillCut = TRUE
  LateSnapshot = FALSE
  LateSnapFetch = FALSE
  SplitAppend = FALSE
  Gen = TRUE
  PrintCex = FALSE
VIEW tview
INVARIANT NotDone
CHECK_DEADLOCK FALSE
