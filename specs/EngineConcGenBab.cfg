SPECIFICATION GSpec
CONSTANTS
  Tasks = {1, 2, 3}
  Queries = {1, 2, 3, 4, 5}
  Deps <- DepsB
  Roots <- RootsB
  SubscribeLate = FALSE
  MaxAbandon = 1
  SilentAbandon = FALSE
  RegisterLate = FALSE
  MarkCallerOnly = FALSE
INVARIANT Emit
INVARIANT SingleFlight
INVARIANT OncePerEpoch
VIEW View
CHECK_DEADLOCK FALSE
