SPECIFICATION Spec
CONSTANTS
  MaxEpochs = 1
  MaxSets = 1
  MaxQueries = 2
  Restarts = FALSE
CHECK_DEADLOCK FALSE
