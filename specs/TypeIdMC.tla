------------------------------ MODULE TypeIdMC ------------------------------
(***************************************************************************)
(* C14 - design-level model checking of the identifier scheme over a small *)
(* hand-written signature that has one representative of every rule of     *)
(* stable_type_id/src/lib.rs and of the derive (TypeId_small.cfg), and the *)
(* same signature with one thing broken (mutation configurations: each     *)
(* must make TLC find a collision, otherwise `Injective` would be vacuous).*)
(*                                                                         *)
(* TypeId_local.cfg is the scheme AS CODED for one more kind of type: two  *)
(* types of the same name declared inside two function bodies of one       *)
(* module.  The derive names a type "pkg@version::" module_path!() "::"    *)
(* Name and module_path!() does not contain the function, so both get the  *)
(* same leaf (finding KF_C14_LOCAL_TYPES; reproduced on the real code by   *)
(* the bases LocalA / LocalB of tools/typeid_sig.json).                    *)
(***************************************************************************)
EXTENDS TypeId

B(n, leaf, sized) ==
    [name |-> n, style |-> "base", arity |-> 0, leaf |-> leaf, size |-> 0, sized |-> sized, unsized_args |-> FALSE, inline |-> FALSE]
C(n, style, k, leaf, size, sized, ua) ==
    [name |-> n, style |-> style, arity |-> k, leaf |-> leaf, size |-> size, sized |-> sized, unsized_args |-> ua, inline |-> FALSE]

SmallSymbols == <<
    B("u8", "u8", TRUE), B("u16", "u16", TRUE), B("str", "str", FALSE),
    B("Sa", "p@1::p::ma::S", TRUE), B("Sb", "p@1::p::mb::S", TRUE),
    C("Option", "std", 1, "core::option::Option", 0, TRUE, FALSE),
    C("Box", "std", 1, "alloc::boxed::Box", 0, TRUE, TRUE),
    C("slice", "std", 1, "std::slice::Slice", 0, FALSE, FALSE),
    C("Result", "std", 2, "core::result::Result", 0, TRUE, FALSE),
    C("tuple1", "tuple", 1, "std::tuple::Tuple", 0, TRUE, FALSE),
    C("tuple2", "tuple", 2, "std::tuple::Tuple", 0, TRUE, FALSE),
    C("tuple3", "tuple", 3, "std::tuple::Tuple", 0, TRUE, FALSE),
    C("arr2", "array", 1, "core::primitive::array", 2, TRUE, FALSE),
    C("arr3", "array", 1, "core::primitive::array", 3, TRUE, FALSE),
    C("G1", "derived", 1, "p@1::p::G1", 0, TRUE, FALSE),
    C("G2", "derived", 2, "p@1::p::G2", 0, TRUE, FALSE) >>

SmallProfiles == <<
    [name |-> "all1", depth |-> 1, extra |-> <<>>,
     bases |-> <<"u8", "u16", "str", "Sa", "Sb">>,
     ctors |-> <<"Option", "Box", "slice", "Result", "tuple1", "tuple2", "tuple3", "arr2", "arr3", "G1", "G2">>],
    [name |-> "unary3", depth |-> 3, extra |-> <<>>,
     bases |-> <<"u8", "str">>,
     ctors |-> <<"Option", "Box", "slice", "tuple1", "arr2", "arr3", "G1">>],
    [name |-> "nary2", depth |-> 2, extra |-> <<>>,
     bases |-> <<"u8">>,
     ctors |-> <<"Result", "tuple1", "tuple2", "tuple3", "G2">>] >>

(* (c) two constructors sharing one name: BinaryHeap written with the name *)
(* string of BTreeSet, here Box with the one of Option                     *)
Rename(syms, n, leaf) == [i \in DOMAIN syms |-> IF syms[i].name = n THEN [syms[i] EXCEPT !.leaf = leaf] ELSE syms[i]]
SameNameSymbols == Rename(SmallSymbols, "Box", "core::option::Option")

(* the derive without module_path!(): same-named types of two modules      *)
NoModuleSymbols == Rename(Rename(SmallSymbols, "Sa", "p@1::S"), "Sb", "p@1::S")

(* as coded: same-named types local to two functions of one module         *)
LocalSymbols == SmallSymbols \o << B("LocalA", "p@1::p::local::Local", TRUE), B("LocalB", "p@1::p::local::Local", TRUE) >>
LocalProfiles == <<
    [name |-> "local1", depth |-> 1, extra |-> <<>>,
     bases |-> <<"u8", "LocalA", "LocalB">>,
     ctors |-> <<"Option", "tuple2", "G1">>] >>

NoForget == {}
ForgetOption == {<<"Option", 1>>}
ForgetResultErr == {<<"Result", 2>>}
=============================================================================
