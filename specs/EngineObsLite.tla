--------------------------- MODULE EngineObsLite ---------------------------
(***************************************************************************)
(* A light P-layer trace spec for executions on WIDE programs (a callee    *)
(* with more than 1024 callers): EngineObsTrace evaluates the whole        *)
(* program at every event, which is quadratic in the number of nodes;      *)
(* this module judges only what such runs are made for:                    *)
(*   query_value   a value handed to the user equals the from-scratch      *)
(*                 value of THAT node under the committed inputs           *)
(*                 (evaluated on demand, depth first)                      *)
(*   double_exec   an executor runs at most once per node between two      *)
(*                 commits                                                 *)
(*   overlap       one node is never executed by two executors at once     *)
(*   unjustified_exec  (C03) an executor run of a node that completed a    *)
(*                 run before although every dependency value it read in   *)
(*                 that run is still the from-scratch value                *)
(*   external inputs: an external node's value is the outside-world value  *)
(*                 its executor sampled on first demand or in the last     *)
(*                 committed refresh (external_value); a refresh re-samples *)
(*                 EVERY external node sampled before, the new samples     *)
(*                 take effect together at the commit                      *)
(*                 (refresh_skipped_external, then query_value);           *)
(*                 external executors run only on first demand or refresh  *)
(* Events (same vocabulary as EngineObsTrace): prog, begin, set, commit,   *)
(* world, refresh_start, refresh, query, enter, exec, reset; everything    *)
(* else is consumed unjudged.                                              *)
(***************************************************************************)
EXTENDS Program, TLC, Json, IOUtils

Rec == ndJsonDeserialize(IOEnv.TRACE)

VARIABLES l, done, prog, inputs, pend, ran, running, viol, stats, lastReads,
          world,       \* node -> outside-world value (external nodes)
          refreshing   \* between refresh_start and refresh
vars == <<l, done, prog, inputs, pend, ran, running, viol, stats, lastReads, world, refreshing>>

Ev == Rec[l]
Is(e) == l <= Len(Rec) /\ Ev.e = e
Consume == l' = l + 1 /\ done' = done

V(kind, n, got, want) == [at |-> l, kind |-> kind, n |-> n, got |-> got, want |-> want]

EmptyProg == [m |-> 1, nodes |-> <<>>]

Init == /\ l = 1 /\ done = FALSE /\ prog = EmptyProg /\ inputs = <<>> /\ pend = <<>>
        /\ ran = {} /\ running = {} /\ viol = <<>> /\ lastReads = <<>>
        /\ stats = [queries |-> 0, execs |-> 0, commits |-> 0, runs |-> 0]
        /\ world = <<>> /\ refreshing = FALSE

(* from-scratch value of one node, evaluated on demand *)
RECURSIVE NodeVal(_)
NodeVal(n) ==
    LET nd == prog.nodes[n] IN
    IF IsSource(nd) THEN inputs[n]
    ELSE LET deps == StaticDeps(prog, n)
             \* Eval reads val[d] only for the dependencies it really reads; supplying
             \* the statically possible ones is enough (programs of this family are shallow)
             val == [d \in 1..Len(prog.nodes) |-> IF d \in deps THEN NodeVal(d) ELSE None]
         IN  Eval(prog, n, val).out

StartRun ==
    /\ Is("prog")
    /\ prog' = Ev.prog
    /\ inputs' = [n \in 1..Len(Ev.prog.nodes) |-> None]
    /\ pend' = [n \in 1..Len(Ev.prog.nodes) |-> None]
    /\ ran' = {} /\ running' = {}
    /\ lastReads' = [n \in 1..Len(Ev.prog.nodes) |-> [has |-> FALSE, reads |-> <<>>]]
    /\ stats' = [stats EXCEPT !.runs = @ + 1]
    /\ world' = [n \in 1..Len(Ev.prog.nodes) |-> 0] /\ refreshing' = FALSE
    /\ UNCHANGED viol /\ Consume

TBegin == Is("begin") /\ pend' = [n \in DOMAIN pend |-> None]
          /\ UNCHANGED <<prog, inputs, ran, running, viol, stats, lastReads, world, refreshing>> /\ Consume
TSet == Is("set") /\ pend' = [pend EXCEPT ![Ev.n] = Ev.v]
        /\ UNCHANGED <<prog, inputs, ran, running, viol, stats, lastReads, world, refreshing>> /\ Consume
TCommit ==
    /\ Is("commit")
    /\ inputs' = [n \in DOMAIN inputs |-> IF pend[n] # None THEN pend[n] ELSE inputs[n]]
    /\ pend' = [n \in DOMAIN pend |-> None]
    /\ ran' = {}
    /\ stats' = [stats EXCEPT !.commits = @ + 1]
    /\ UNCHANGED <<prog, running, viol, lastReads, world, refreshing>> /\ Consume
TQuery ==
    /\ Is("query")
    /\ LET want == NodeVal(Ev.n) IN
       viol' = IF Ev.v # want THEN Append(viol, V("query_value", Ev.n, Ev.v, want)) ELSE viol
    /\ stats' = [stats EXCEPT !.queries = @ + 1]
    /\ UNCHANGED <<prog, inputs, pend, ran, running, lastReads, world, refreshing>> /\ Consume
TEnter ==
    /\ Is("enter")
    /\ viol' = IF Ev.n \in running THEN Append(viol, V("overlap", Ev.n, 0, 0)) ELSE viol
    /\ running' = running \cup {Ev.n}
    /\ UNCHANGED <<prog, inputs, pend, ran, stats, lastReads, world, refreshing>> /\ Consume
TExec ==
    /\ Is("exec") /\ prog.nodes[Ev.n].kind # "Ex"
    /\ running' = running \ {Ev.n}
    /\ LET lr == lastReads[Ev.n]
           \* every value read by the previous completed run is still the from-scratch value
           same == lr.has /\ \A i \in 1..Len(lr.reads) : NodeVal(lr.reads[i][1]) = lr.reads[i][2]
           v1 == IF Ev.ok /\ Ev.n \in ran THEN Append(viol, V("double_exec", Ev.n, 0, 0)) ELSE viol
       IN viol' = IF Ev.ok /\ same THEN Append(v1, V("unjustified_exec", Ev.n, 0, 0)) ELSE v1
    /\ lastReads' = IF Ev.ok THEN [lastReads EXCEPT ![Ev.n] = [has |-> TRUE, reads |-> Ev.reads]] ELSE lastReads
    /\ ran' = IF Ev.ok THEN ran \cup {Ev.n} ELSE ran
    /\ stats' = [stats EXCEPT !.execs = @ + 1]
    /\ UNCHANGED <<prog, inputs, pend, world, refreshing>> /\ Consume
(* the executor of an external node samples the outside world: on first demand the sample is the   *)
(* node's value at once, in a refresh it becomes the value at the commit of the session            *)
TExecExternal ==
    /\ Is("exec") /\ prog.nodes[Ev.n].kind = "Ex"
    /\ running' = running \ {Ev.n}
    /\ LET n == Ev.n
           wrong == IF Ev.out # world[n] THEN Append(viol, V("external_value", n, Ev.out, world[n])) ELSE viol
       IN IF refreshing
          THEN /\ pend' = [pend EXCEPT ![n] = Ev.out] /\ inputs' = inputs
               /\ viol' = IF inputs[n] = None THEN Append(viol, V("refresh_of_unsampled_external", n, 0, 0)) ELSE wrong
          ELSE /\ inputs' = [inputs EXCEPT ![n] = Ev.out] /\ pend' = pend
               /\ viol' = IF inputs[n] # None THEN Append(viol, V("external_rerun_without_refresh", n, 0, 0)) ELSE wrong
    /\ stats' = [stats EXCEPT !.execs = @ + 1]
    /\ UNCHANGED <<prog, ran, lastReads, world, refreshing>> /\ Consume
TWorld == Is("world") /\ world' = [world EXCEPT ![Ev.n] = Ev.v]
          /\ UNCHANGED <<prog, inputs, pend, ran, running, viol, stats, lastReads, refreshing>> /\ Consume
TRefreshStart == Is("refresh_start") /\ refreshing' = TRUE
          /\ UNCHANGED <<prog, inputs, pend, ran, running, viol, stats, lastReads, world>> /\ Consume
(* refresh() has returned: every external node sampled before has been sampled again; one that was  *)
(* skipped is reported once, and is expected to show the outside world's value all the same         *)
TRefresh ==
    /\ Is("refresh") /\ refreshing' = FALSE
    /\ LET missed == {n \in DOMAIN inputs : prog.nodes[n].kind = "Ex" /\ inputs[n] # None /\ pend[n] = None}
       IN /\ viol' = IF missed # {} THEN Append(viol, V("refresh_skipped_external", CHOOSE n \in missed : TRUE, Cardinality(missed), 0))
                                    ELSE viol
          /\ pend' = [n \in DOMAIN pend |-> IF n \in missed THEN world[n] ELSE pend[n]]
    /\ UNCHANGED <<prog, inputs, ran, running, stats, lastReads, world>> /\ Consume
THang ==
    /\ Is("hang")
    /\ viol' = Append(viol, V("no_progress", 0, 0, 0))
    /\ UNCHANGED <<prog, inputs, pend, ran, running, stats, lastReads, world, refreshing>> /\ Consume
TReset == Is("reset") /\ ran' = {} /\ running' = {} /\ refreshing' = FALSE
          /\ UNCHANGED <<prog, inputs, pend, viol, stats, lastReads, world>> /\ Consume
TOther ==
    /\ l <= Len(Rec)
    /\ Ev.e \notin {"prog", "begin", "set", "commit", "query", "enter", "exec", "hang", "reset",
                    "world", "refresh_start", "refresh"}
    /\ UNCHANGED <<prog, inputs, pend, ran, running, viol, stats, lastReads, world, refreshing>> /\ Consume

Finish ==
    /\ l = Len(Rec) + 1 /\ ~done
    /\ JsonSerialize(IOEnv.OUT, [events |-> Len(Rec), stats |-> stats, viol |-> viol])
    /\ done' = TRUE
    /\ UNCHANGED <<l, prog, inputs, pend, ran, running, viol, stats, lastReads, world, refreshing>>

Next == StartRun \/ TBegin \/ TSet \/ TCommit \/ TQuery \/ TEnter \/ TExec \/ TExecExternal \/ TWorld
        \/ TRefreshStart \/ TRefresh \/ THang \/ TReset \/ TOther \/ Finish
Spec == Init /\ [][Next]_vars
Accepted ==
    LET d == TLCGet("stats").diameter IN
    IF d >= Len(Rec) + 2 THEN TRUE ELSE Print(<<"TRACE NOT CONSUMED: stopped before event", d, "of", Len(Rec)>>, FALSE)
=============================================================================
