--------------------------- MODULE EngineObsLite ---------------------------
(***************************************************************************)
(* A light P-layer trace spec for executions on WIDE programs (a callee    *)
(* with more than 1024 callers): EngineObsTrace evaluates the whole        *)
(* program at every event, which is quadratic in the number of nodes;      *)
(* this module judges only what such runs are made for:                    *)
(*   query_value   a value handed to the user equals the from-scratch      *)
(*                 value of THAT node under the committed inputs           *)
(*                 (evaluated on demand, depth first)                      *)
(*   double_exec   an executor runs at most once per node between two      *)
(*                 commits                                                 *)
(*   overlap       one node is never executed by two executors at once     *)
(*   unjustified_exec  (C03) an executor run of a node that completed a    *)
(*                 run before although every dependency value it read in   *)
(*                 that run is still the from-scratch value                *)
(* Events (same vocabulary as EngineObsTrace): prog, begin, set, commit,   *)
(* query, enter, exec, reset; everything else is consumed unjudged.        *)
(***************************************************************************)
EXTENDS Program, TLC, Json, IOUtils

Rec == ndJsonDeserialize(IOEnv.TRACE)

VARIABLES l, done, prog, inputs, pend, ran, running, viol, stats, lastReads
vars == <<l, done, prog, inputs, pend, ran, running, viol, stats, lastReads>>

Ev == Rec[l]
Is(e) == l <= Len(Rec) /\ Ev.e = e
Consume == l' = l + 1 /\ done' = done

V(kind, n, got, want) == [at |-> l, kind |-> kind, n |-> n, got |-> got, want |-> want]

EmptyProg == [m |-> 1, nodes |-> <<>>]

Init == /\ l = 1 /\ done = FALSE /\ prog = EmptyProg /\ inputs = <<>> /\ pend = <<>>
        /\ ran = {} /\ running = {} /\ viol = <<>> /\ lastReads = <<>>
        /\ stats = [queries |-> 0, execs |-> 0, commits |-> 0, runs |-> 0]

(* from-scratch value of one node, evaluated on demand *)
RECURSIVE NodeVal(_)
NodeVal(n) ==
    LET nd == prog.nodes[n] IN
    IF IsSource(nd) THEN inputs[n]
    ELSE LET deps == StaticDeps(prog, n)
             \* Eval reads val[d] only for the dependencies it really reads; supplying
             \* the statically possible ones is enough (programs of this family are shallow)
             val == [d \in 1..Len(prog.nodes) |-> IF d \in deps THEN NodeVal(d) ELSE None]
         IN  Eval(prog, n, val).out

StartRun ==
    /\ Is("prog")
    /\ prog' = Ev.prog
    /\ inputs' = [n \in 1..Len(Ev.prog.nodes) |-> None]
    /\ pend' = [n \in 1..Len(Ev.prog.nodes) |-> None]
    /\ ran' = {} /\ running' = {}
    /\ lastReads' = [n \in 1..Len(Ev.prog.nodes) |-> [has |-> FALSE, reads |-> <<>>]]
    /\ stats' = [stats EXCEPT !.runs = @ + 1]
    /\ UNCHANGED viol /\ Consume

TBegin == Is("begin") /\ pend' = [n \in DOMAIN pend |-> None]
          /\ UNCHANGED <<prog, inputs, ran, running, viol, stats, lastReads>> /\ Consume
TSet == Is("set") /\ pend' = [pend EXCEPT ![Ev.n] = Ev.v]
        /\ UNCHANGED <<prog, inputs, ran, running, viol, stats, lastReads>> /\ Consume
TCommit ==
    /\ Is("commit")
    /\ inputs' = [n \in DOMAIN inputs |-> IF pend[n] # None THEN pend[n] ELSE inputs[n]]
    /\ pend' = [n \in DOMAIN pend |-> None]
    /\ ran' = {}
    /\ stats' = [stats EXCEPT !.commits = @ + 1]
    /\ UNCHANGED <<prog, running, viol, lastReads>> /\ Consume
TQuery ==
    /\ Is("query")
    /\ LET want == NodeVal(Ev.n) IN
       viol' = IF Ev.v # want THEN Append(viol, V("query_value", Ev.n, Ev.v, want)) ELSE viol
    /\ stats' = [stats EXCEPT !.queries = @ + 1]
    /\ UNCHANGED <<prog, inputs, pend, ran, running, lastReads>> /\ Consume
TEnter ==
    /\ Is("enter")
    /\ viol' = IF Ev.n \in running THEN Append(viol, V("overlap", Ev.n, 0, 0)) ELSE viol
    /\ running' = running \cup {Ev.n}
    /\ UNCHANGED <<prog, inputs, pend, ran, stats, lastReads>> /\ Consume
TExec ==
    /\ Is("exec")
    /\ running' = running \ {Ev.n}
    /\ LET lr == lastReads[Ev.n]
           \* every value read by the previous completed run is still the from-scratch value
           same == lr.has /\ \A i \in 1..Len(lr.reads) : NodeVal(lr.reads[i][1]) = lr.reads[i][2]
           v1 == IF Ev.ok /\ Ev.n \in ran THEN Append(viol, V("double_exec", Ev.n, 0, 0)) ELSE viol
       IN viol' = IF Ev.ok /\ same THEN Append(v1, V("unjustified_exec", Ev.n, 0, 0)) ELSE v1
    /\ lastReads' = IF Ev.ok THEN [lastReads EXCEPT ![Ev.n] = [has |-> TRUE, reads |-> Ev.reads]] ELSE lastReads
    /\ ran' = IF Ev.ok THEN ran \cup {Ev.n} ELSE ran
    /\ stats' = [stats EXCEPT !.execs = @ + 1]
    /\ UNCHANGED <<prog, inputs, pend>> /\ Consume
THang ==
    /\ Is("hang")
    /\ viol' = Append(viol, V("no_progress", 0, 0, 0))
    /\ UNCHANGED <<prog, inputs, pend, ran, running, stats, lastReads>> /\ Consume
TReset == Is("reset") /\ ran' = {} /\ running' = {}
          /\ UNCHANGED <<prog, inputs, pend, viol, stats, lastReads>> /\ Consume
TOther ==
    /\ l <= Len(Rec)
    /\ Ev.e \notin {"prog", "begin", "set", "commit", "query", "enter", "exec", "hang", "reset"}
    /\ UNCHANGED <<prog, inputs, pend, ran, running, viol, stats, lastReads>> /\ Consume

Finish ==
    /\ l = Len(Rec) + 1 /\ ~done
    /\ JsonSerialize(IOEnv.OUT, [events |-> Len(Rec), stats |-> stats, viol |-> viol])
    /\ done' = TRUE
    /\ UNCHANGED <<l, prog, inputs, pend, ran, running, viol, stats, lastReads>>

Next == StartRun \/ TBegin \/ TSet \/ TCommit \/ TQuery \/ TEnter \/ TExec \/ THang \/ TReset \/ TOther \/ Finish
Spec == Init /\ [][Next]_vars
Accepted ==
    LET d == TLCGet("stats").diameter IN
    IF d >= Len(Rec) + 2 THEN TRUE ELSE Print(<<"TRACE NOT CONSUMED: stopped before event", d, "of", Len(Rec)>>, FALSE)
=============================================================================
