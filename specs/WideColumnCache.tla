--------------------------- MODULE WideColumnCache ---------------------------
(***************************************************************************)
(* M-layer model of crates/storage/src/wide_column_cache.rs as used by     *)
(* CacheSingleMap and CacheDynamicMap (the dynamic map only adds the value *)
(* type to the cache key, so a "key" here is a (key, type) pair), composed *)
(* with the commit / after-commit part of the write-behind manager.        *)
(*                                                                         *)
(* One action per critical section of the code:                            *)
(*   get      = Probe (tiny_lfu.get_map) / Flight (single_flight           *)
(*              wait_or_work: leader or waiter) / ReadDb (init(), the      *)
(*              store read) / Fill (tiny_lfu.entry: insert only if vacant, *)
(*              remove the flight, notify waiters) / loop to Probe         *)
(*   insert / remove = put_wide_column (batch local, `updated` = first     *)
(*              write of the key in this batch) + cache.insert/remove      *)
(*              (one entry critical section, pin count += updated)         *)
(*   Submit, Commit (epoch order, one logical batch per physical commit),  *)
(*   Notify (after_commit -> flush_staging: pin count -= 1)                *)
(*   Evict(k) = TinyLFU removes an entry whose pin count is not positive   *)
(*              (free action: sound abstraction of the admission policy,   *)
(*              whose own contract is property C16).                       *)
(*                                                                         *)
(* P-layer: `ref` is the reference map, updated at the linearisation point *)
(* of a write; `allowed[c]` collects the values a get of client c may      *)
(* return (the value current when it started plus every value written      *)
(* while it runs).  ReadYourWrites: a finished get returned an allowed     *)
(* value.                                                                  *)
(*                                                                         *)
(* Defect switch (TRUE = as the code is):                                  *)
(*   StaleFill - Fill inserts the value read from the store whenever the   *)
(*     slot is vacant, although a write to the key completed (and was      *)
(*     committed, unpinned and evicted) after the store read  (DESIGN 6#4).*)
(*     FALSE = the fill is skipped when a write touched the key after this *)
(*     reader's probe missed (a per-key write stamp taken before the probe *)
(*     and compared under the entry lock); the reader loops.               *)
(*                                                                         *)
(* Mutation switches (FALSE = as the code is; TRUE = a plausible slip used  *)
(* to GENERATE behaviours that would expose it; their counterexamples are  *)
(* replayed on the real code, where they must pass):                       *)
(*   FillOverwrite    the fill is a plain insert: it replaces an entry a   *)
(*                    writer created while the reader was in the store.    *)
(*   NoNegativeEntry  remove() of a key that is not cached leaves no       *)
(*                    negative entry: the next get reads the old value     *)
(*                    from the store until the remove is committed.        *)
(*                                                                         *)
(* Deliberate deviations from the code: the caller obeys the epoch rule    *)
(* (a key is written through batches in epoch order - the store commits in *)
(* epoch order, so anything else is the caller's bug, DESIGN 6#2); the     *)
(* serialisation workers and physical grouping are left to WriteBehind.tla.*)
(***************************************************************************)
EXTENDS Naturals, Integers, Sequences, FiniteSets, TLC, Json

CONSTANTS Keys, Vals, Clients, MaxBatches, MaxOps,
          StaleFill,   \* defect switch #4, TRUE = as coded
          FillOverwrite, NoNegativeEntry,   \* mutation switches (slips the code does NOT have)
          Gen          \* TRUE: only interleavings the harness can replay

NoVal == 0       \* absent
NoWrite == -1

VARIABLES cache,     \* [k -> [present, val, pin, stale]]
          db,        \* [k -> value or NoVal]
          batch,     \* sequence, batch[e+1] = [st, owner, w: k -> value/NoVal/NoWrite]
          flight,    \* [k -> leader client or -1]
          pc,        \* [c -> get state]
          ref,       \* reference map
          allowed,   \* [c -> values the running get may return]
          nops,      \* [c -> operations started]
          hist       \* replayable step list (hidden by VIEW)

vars == <<cache, db, batch, flight, pc, ref, allowed, nops, hist>>
view == <<cache, db, batch, flight, pc, ref, allowed, nops>>

NoClient == -1
Idle == [st |-> "idle", k |-> 0, rd |-> NoVal, res |-> NoVal, ndb |-> 0, tag |-> "", first |-> TRUE, raced |-> FALSE]
Absent == [present |-> FALSE, val |-> NoVal, pin |-> 0, stale |-> FALSE]

NextEpoch == Len(batch)
B(e) == batch[e + 1]

InitWith(keys, clients) ==
    /\ cache = [k \in keys |-> Absent]
    /\ db = [k \in keys |-> NoVal]
    /\ batch = <<>>
    /\ flight = [k \in keys |-> NoClient]
    /\ pc = [c \in clients |-> Idle]
    /\ ref = [k \in keys |-> NoVal]
    /\ allowed = [c \in clients |-> {}]
    /\ nops = [c \in clients |-> 0]
    /\ hist = <<>>

Init == InitWith(Keys, Clients)

(* back to the initial state (trace validation of concatenated runs) *)
ResetWith(keys, clients) ==
    /\ cache' = [k \in keys |-> Absent]
    /\ db' = [k \in keys |-> NoVal]
    /\ batch' = <<>>
    /\ flight' = [k \in keys |-> NoClient]
    /\ pc' = [c \in clients |-> Idle]
    /\ ref' = [k \in keys |-> NoVal]
    /\ allowed' = [c \in clients |-> {}]
    /\ nops' = [c \in clients |-> 0]
    /\ hist' = <<>>

Log(step) == hist' = IF Gen THEN Append(hist, step) ELSE hist

(* ---------------------------------------------------------------- writes *)

NewBatch(c) ==
    /\ batch' = Append(batch, [st |-> "open", owner |-> c, w |-> [k \in DOMAIN cache |-> NoWrite]])
    /\ Log([a |-> "new", c |-> c, b |-> NextEpoch])
    /\ UNCHANGED <<cache, db, flight, pc, ref, allowed, nops>>

(* the caller's side of the contract: keys are written in epoch order *)
EpochRule(e, k) == \A e2 \in (e + 1)..(NextEpoch - 1) : B(e2).w[k] = NoWrite

CacheInsert(k, v, upd) ==
    IF cache[k].present
    THEN [cache EXCEPT ![k].val = v, ![k].pin = @ + upd, ![k].stale = FALSE]
    ELSE [cache EXCEPT ![k] = [present |-> TRUE, val |-> v, pin |-> upd, stale |-> FALSE]]

CacheRemove(k, upd) ==
    IF ~cache[k].present
    THEN IF upd = 1 /\ ~NoNegativeEntry   \* (mutant NoNegativeEntry) no remembered absence for a vacant slot
         THEN [cache EXCEPT ![k] = [present |-> TRUE, val |-> NoVal, pin |-> 1, stale |-> FALSE]]
         ELSE cache
    ELSE IF upd = 1
         THEN [cache EXCEPT ![k].val = NoVal, ![k].pin = @ + 1, ![k].stale = FALSE]
         ELSE IF cache[k].pin = 0
              THEN [cache EXCEPT ![k] = Absent]
              ELSE [cache EXCEPT ![k].val = NoVal, ![k].stale = FALSE]

(* One write (v = NoVal: remove) of client c through its batch e.          *)
DoWrite(c, e, k, v) ==
    /\ B(e).st = "open" /\ B(e).owner = c
    /\ EpochRule(e, k)
    /\ LET upd == IF B(e).w[k] = NoWrite THEN 1 ELSE 0 IN
        /\ batch' = [batch EXCEPT ![e + 1].w[k] = v]
        /\ cache' = IF v = NoVal THEN CacheRemove(k, upd) ELSE CacheInsert(k, v, upd)
    /\ ref' = [ref EXCEPT ![k] = v]
    /\ allowed' = [x \in DOMAIN allowed |->
                     IF pc[x].st # "idle" /\ pc[x].k = k THEN allowed[x] \cup {v} ELSE allowed[x]]
    /\ pc' = [x \in DOMAIN pc |->
                IF pc[x].k = k /\ pc[x].st \in {"flight", "readdb", "fill"}
                THEN [pc[x] EXCEPT !.raced = TRUE] ELSE pc[x]]
    /\ UNCHANGED <<db, flight>>

Write(c, e, k, v) ==
    /\ pc[c].st = "idle"
    /\ DoWrite(c, e, k, v)
    /\ nops' = [nops EXCEPT ![c] = @ + 1]
    /\ Log([a |-> IF v = NoVal THEN "rem" ELSE "ins", c |-> c, b |-> e, k |-> k, v |-> v])

Submit(c, e) ==
    /\ pc[c].st = "idle"
    /\ B(e).st = "open" /\ B(e).owner = c
    /\ batch' = [batch EXCEPT ![e + 1].st = "sub"]
    /\ Log([a |-> "submit", c |-> c, b |-> e])
    /\ UNCHANGED <<cache, db, flight, pc, ref, allowed, nops>>

(* ------------------------------------------------- background committer *)

Commit(e) ==
    /\ B(e).st = "sub"
    /\ \A e2 \in 0..(e - 1) : B(e2).st \in {"com", "not"}
    /\ db' = [k \in DOMAIN db |-> IF B(e).w[k] = NoWrite THEN db[k] ELSE B(e).w[k]]
    /\ batch' = [batch EXCEPT ![e + 1].st = "com"]
    /\ Log([a |-> "commit", b |-> e])
    /\ UNCHANGED <<cache, flight, pc, ref, allowed, nops>>

(* after_commit: flush_staging decrements the pin count of every key of    *)
(* the batch that is (still) cached.                                       *)
Notify(e) ==
    /\ B(e).st = "com"
    /\ \A e2 \in 0..(e - 1) : B(e2).st = "not"
    /\ cache' = [k \in DOMAIN cache |->
                   IF B(e).w[k] # NoWrite /\ cache[k].present
                   THEN [cache[k] EXCEPT !.pin = @ - 1] ELSE cache[k]]
    \* (the write set is dead from here on: clearing it merges equivalent states)
    /\ batch' = [batch EXCEPT ![e + 1].st = "not", ![e + 1].w = [k \in DOMAIN cache |-> NoWrite]]
    /\ UNCHANGED <<db, flight, pc, ref, allowed, nops, hist>>

Evictable(k) == cache[k].present /\ cache[k].pin <= 0

Evict(k) ==
    /\ Evictable(k)
    /\ cache' = [cache EXCEPT ![k] = Absent]
    /\ UNCHANGED <<db, batch, flight, pc, ref, allowed, nops, hist>>

(* what a flood of other keys does at capacity 1: every unpinned entry goes *)
EvictAll ==
    /\ \E k \in DOMAIN cache : Evictable(k)
    /\ cache' = [k \in DOMAIN cache |-> IF Evictable(k) THEN Absent ELSE cache[k]]
    /\ Log([a |-> "evict"])
    /\ UNCHANGED <<db, batch, flight, pc, ref, allowed, nops>>

(* ------------------------------------------------------------------ get *)

GetStart(c, k) ==
    /\ pc[c].st = "idle"
    /\ pc' = [pc EXCEPT ![c] = [Idle EXCEPT !.st = "probe", !.k = k]]
    /\ allowed' = [allowed EXCEPT ![c] = {ref[k]}]
    /\ nops' = [nops EXCEPT ![c] = @ + 1]
    /\ UNCHANGED <<cache, db, batch, flight, ref, hist>>

(* model checking only: a get starts with its first probe (one step)      *)
GetProbe(c, k) ==
    /\ pc[c].st = "idle"
    /\ allowed' = [allowed EXCEPT ![c] = {ref[k]}]
    /\ nops' = [nops EXCEPT ![c] = @ + 1]
    /\ IF cache[k].present
       THEN /\ pc' = [pc EXCEPT ![c] = [Idle EXCEPT !.st = "done", !.k = k, !.res = cache[k].val,
                                 !.tag = IF cache[k].stale THEN "KF4" ELSE "", !.first = ~Gen]]
            /\ hist' = IF Gen THEN Append(hist, [a |-> "get", c |-> c, k |-> k, park |-> TRUE]) ELSE hist
       ELSE /\ pc' = [pc EXCEPT ![c] = [Idle EXCEPT !.st = "flight", !.k = k]]
            /\ hist' = hist
    /\ UNCHANGED <<cache, db, batch, flight, ref>>

Probe(c) ==
    /\ pc[c].st = "probe"
    /\ LET k == pc[c].k IN
        IF cache[k].present
        THEN /\ pc' = [pc EXCEPT ![c].st = "done", ![c].res = cache[k].val,
                                 ![c].tag = IF cache[k].stale THEN "KF4" ELSE "", ![c].first = ~Gen]
             /\ hist' = IF Gen /\ pc[c].first
                        THEN Append(hist, [a |-> "get", c |-> c, k |-> k, park |-> TRUE]) ELSE hist
        ELSE /\ pc' = [pc EXCEPT ![c].st = "flight"]
             /\ hist' = hist
    /\ UNCHANGED <<cache, db, batch, flight, ref, allowed, nops>>

Flight(c) ==
    /\ pc[c].st = "flight"
    /\ LET k == pc[c].k IN
        IF flight[k] = NoClient
        THEN /\ flight' = [flight EXCEPT ![k] = c]
             /\ pc' = [pc EXCEPT ![c].st = "readdb"]
             /\ hist' = hist
        ELSE /\ pc' = [pc EXCEPT ![c].st = "wait", ![c].first = ~Gen]
             /\ hist' = IF Gen /\ pc[c].first
                        THEN Append(hist, [a |-> "get", c |-> c, k |-> k, park |-> TRUE, wait |-> TRUE])
                        ELSE hist
             /\ UNCHANGED flight
    /\ UNCHANGED <<cache, db, batch, ref, allowed, nops>>

ReadDb(c) ==
    /\ pc[c].st = "readdb"
    /\ pc' = [pc EXCEPT ![c].st = "fill", ![c].rd = db[pc[c].k],
                          ![c].ndb = IF Gen THEN @ + 1 ELSE @, ![c].first = ~Gen]
    /\ hist' = IF ~Gen THEN hist
               ELSE IF pc[c].first THEN Append(hist, [a |-> "get", c |-> c, k |-> pc[c].k, park |-> TRUE])
               ELSE Append(hist, [a |-> "await_park", c |-> c])
    /\ UNCHANGED <<cache, db, batch, flight, ref, allowed, nops>>

(* tiny_lfu.entry(): insert only into a vacant slot; then the flight is    *)
(* removed and the waiters are notified; everybody loops to the fast path. *)
Fill(c) ==
    /\ pc[c].st = "fill"
    /\ LET k == pc[c].k
           \* (mutant FillOverwrite) a plain insert instead of insert-if-vacant: the value read
           \* from the store replaces whatever a writer put there meanwhile (and its pin)
           fillIt == \/ ~cache[k].present /\ (StaleFill \/ ~pc[c].raced)
                     \/ FillOverwrite /\ cache[k].present IN
        /\ cache' = IF fillIt
                    THEN [cache EXCEPT ![k] = [present |-> TRUE, val |-> pc[c].rd, pin |-> 0,
                                               stale |-> pc[c].raced]]
                    ELSE cache
        /\ flight' = [flight EXCEPT ![k] = NoClient]
        /\ pc' = [x \in DOMAIN pc |->
                    IF x = c \/ (pc[x].st = "wait" /\ pc[x].k = k)
                    THEN [pc[x] EXCEPT !.st = "probe", !.raced = FALSE] ELSE pc[x]]
    /\ Log([a |-> "release", c |-> c, park |-> TRUE])
    /\ UNCHANGED <<db, batch, ref, allowed, nops>>

GetOk(c) == pc[c].res \in allowed[c]

Done(c) ==
    /\ pc[c].st = "done"
    /\ pc' = [pc EXCEPT ![c] = Idle]
    /\ allowed' = [allowed EXCEPT ![c] = {}]
    /\ Log([a |-> "res", c |-> c, k |-> pc[c].k, exp |-> allowed[c], asis |-> pc[c].res,
            tag |-> pc[c].tag, ndb |-> pc[c].ndb])
    /\ UNCHANGED <<cache, db, batch, flight, ref, nops>>

(* --------------------------------------------------- model-checking Next *)

(* Generator mode: the harness can stop a reader only inside the store     *)
(* read (state "fill") or while it waits for a flight; a notification      *)
(* follows its commit immediately.                                         *)
Busy(c) == pc[c].st \in {"probe", "flight", "readdb", "done"}
NoPendingNotify == \A e \in 0..(NextEpoch - 1) : B(e).st # "com"
MayStep(c) == ~Gen \/ ((\A x \in Clients \ {c} : ~Busy(x)) /\ NoPendingNotify)
EnvMayStep == ~Gen \/ ((\A x \in Clients : ~Busy(x)) /\ NoPendingNotify)

OpenOf(c) == {e \in 0..(NextEpoch - 1) : B(e).st = "open" /\ B(e).owner = c}

ClientNext(c) ==
    /\ MayStep(c)
    /\ \/ /\ pc[c].st = "idle" /\ OpenOf(c) = {} /\ NextEpoch < MaxBatches /\ nops[c] < MaxOps
          /\ NewBatch(c)
       \/ /\ nops[c] < MaxOps
          /\ \E e \in OpenOf(c), k \in Keys, v \in Vals \cup {NoVal} : Write(c, e, k, v)
       \/ \E e \in OpenOf(c) : Submit(c, e)
       \/ /\ nops[c] < MaxOps
          /\ \E k \in Keys : GetProbe(c, k)
       \/ Probe(c) \/ Flight(c) \/ ReadDb(c) \/ Fill(c) \/ Done(c)

EnvNext ==
    \/ /\ EnvMayStep
       /\ \/ \E e \in 0..(NextEpoch - 1) : Commit(e)
          \/ IF Gen THEN EvictAll ELSE \E k \in Keys : Evict(k)
    \/ \E e \in 0..(NextEpoch - 1) : Notify(e)

Terminal ==
    /\ \A c \in Clients : pc[c].st = "idle" /\ nops[c] = MaxOps
    /\ \A e \in 0..(NextEpoch - 1) : B(e).st = "not"

(* generator: print the finished behaviour once *)
Emit ==
    /\ Gen /\ Terminal
    /\ hist # <<>> /\ hist[Len(hist)].a # "end"
    /\ PrintT(ToJson([map |-> "wide", clients |-> Cardinality(Clients), steps |-> hist]))
    /\ hist' = Append(hist, [a |-> "end"])
    /\ UNCHANGED <<cache, db, batch, flight, pc, ref, allowed, nops>>

Next == (\E c \in Clients : ClientNext(c)) \/ EnvNext \/ Emit

Spec == Init /\ [][Next]_vars

Sym == Permutations(Keys) \cup Permutations(Clients)

(* ------------------------------------------------------------ properties *)

(* P: a finished get returned a value that was current at some instant of  *)
(* the get (writes are atomic in this model, so this is linearisability of *)
(* a register).                                                            *)
ReadYourWrites == \A c \in Clients : pc[c].st = "done" => GetOk(c)

(* M: while a batch that wrote k is not committed the cache holds k pinned *)
(* with the latest value - in particular the remembered absence after a    *)
(* remove although the store still has the old value.                      *)
Uncommitted(k) == \E e \in 0..(NextEpoch - 1) : B(e).st \in {"open", "sub"} /\ B(e).w[k] # NoWrite
RememberedAbsence ==
    \A k \in Keys : Uncommitted(k) =>
        cache[k].present /\ cache[k].pin > 0 /\ cache[k].val = ref[k]

(* M: with nothing uncommitted and nothing cached the store is current     *)
StoreCurrent == \A k \in Keys : (~Uncommitted(k) /\ ~cache[k].present) => db[k] = ref[k]

(* M (only without the defect): a cached value is the current value        *)
CacheCurrent == \A k \in Keys : cache[k].present => cache[k].val = ref[k]

(* every failure of the model as coded carries the signature of finding #4 *)
OnlyKnown == \A c \in Clients : (pc[c].st = "done" /\ ~GetOk(c)) => pc[c].tag = "KF4"

(* counterexample printer: the replayable history of every violating state *)
RYWPrint ==
    \A c \in Clients : (pc[c].st = "done" /\ ~GetOk(c)) =>
        (PrintT(ToJson([map |-> "wide", clients |-> Cardinality(Clients), cex |-> "ReadYourWrites",
                        steps |-> Append(hist, [a |-> "res", c |-> c, k |-> pc[c].k, exp |-> allowed[c],
                                                asis |-> pc[c].res, tag |-> pc[c].tag, ndb |-> pc[c].ndb])]))
         /\ FALSE)
=============================================================================
