SPECIFICATION Spec
INVARIANT DepthOk
CHECK_DEADLOCK FALSE
