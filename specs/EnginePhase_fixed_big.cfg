SPECIFICATION Spec
CONSTANTS
  Readers = {1, 2, 3, 4}
  MaxSessions = 3
  QueriesPerReader = 2
  LockBeforeBump = TRUE
  DropSessions = TRUE
  EarlyRelease = FALSE
  Emit = FALSE
INVARIANT ReaderSeesSnap
INVARIANT Exclusion
INVARIANT DroppedStaysExclusive
VIEW View
CHECK_DEADLOCK FALSE
