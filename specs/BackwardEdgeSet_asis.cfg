SPECIFICATION Spec
CONSTANTS
  Threads = {1, 2}
  Elems <- ElemsDef
  Thr = 2
  Atomic = FALSE
  Emit = FALSE
INVARIANT IterSeesCompleted
VIEW View
CHECK_DEADLOCK FALSE
