----------------------------- MODULE EngineConc -----------------------------
(***************************************************************************)
(* M-layer specification of the single-flight protocol of the engine        *)
(* (computation_graph.rs query_for, computing.rs exit_scc /                 *)
(* computing_lock_guard / ComputingLockGuard::done): several tasks request  *)
(* queries of one acyclic program concurrently; a query is executed by at   *)
(* most one task at a time, the others wait on the computing entry's        *)
(* Notify and retry.                                                        *)
(*                                                                         *)
(* Small-step: every task has an explicit call stack of frames              *)
(* [q, pc, i] (query, program counter, index of the next dependency);       *)
(* one action = one step between two suspension points of the code:         *)
(*                                                                         *)
(*   start  -> scc     register the callee at the caller, look the callee   *)
(*                     up in the computing table (exit_scc)                 *)
(*   scc               a *query* caller subscribes to the entry's Notify    *)
(*                     (notified_owned() is created while the entry is      *)
(*                     read-locked) and waits; a user caller goes on        *)
(*   fast              verified in this epoch -> return                     *)
(*   lock              computing_lock_guard: re-check verified (-> fast);   *)
(*                     entry occupied -> subscribe and wait, then retry;    *)
(*                     vacant -> insert the entry, execute                  *)
(*   exec              the executor reads its dependencies one by one       *)
(*                     (a nested frame each)                                *)
(*   publish           set_computed + ComputingLockGuard::done: mark        *)
(*                     verified, remove the entry, wake every subscriber    *)
(*                                                                         *)
(* tokio's notify_waiters() wakes exactly the Notified futures that exist   *)
(* when it is called, polled or not; a future created later waits for the   *)
(* next call.  `sub` models that set.  The mutation constant                *)
(* SubscribeLate = TRUE creates the future only after the entry lock was    *)
(* released (a separate step): TLC then finds the lost wake-up.             *)
(*                                                                         *)
(* Properties: SingleFlight (C02), NoOrphanWaiter (a task never waits on an *)
(* entry that is gone), and under weak fairness every request completes.    *)
(***************************************************************************)
EXTENDS Integers, Sequences, FiniteSets, TLC

CONSTANTS Tasks,          \* task ids
          Queries,        \* query ids (integers)
          Deps,           \* function query -> sequence of dependencies (acyclic)
          Roots,          \* function task -> query it requests
          SubscribeLate   \* mutation switch (FALSE = as coded)

VARIABLES stack,      \* task -> sequence of frames, top = last
          verified,   \* set of queries verified in this epoch
          computing,  \* set of queries that have a computing entry
          owner,      \* query -> task that executes it (for SingleFlight)
          sub,        \* query -> set of tasks subscribed to the entry's Notify
          execs       \* query -> number of executor runs (once per epoch)

vars == <<stack, verified, computing, owner, sub, execs>>

None == -1
Frame(q, pc) == [q |-> q, pc |-> pc, i |-> 1]
Top(t) == stack[t][Len(stack[t])]
SetTop(t, f) == [stack EXCEPT ![t] = [@ EXCEPT ![Len(@)] = f]]
Push(t, f) == [stack EXCEPT ![t] = Append(@, f)]
Pop(t) == [stack EXCEPT ![t] = SubSeq(@, 1, Len(@) - 1)]
IsUser(t) == Len(stack[t]) = 1   \* the bottom frame is the user's request

Init ==
    /\ stack = [t \in Tasks |-> <<Frame(Roots[t], "start")>>]
    /\ verified = {} /\ computing = {}
    /\ owner = [q \in Queries |-> None]
    /\ sub = [q \in Queries |-> {}]
    /\ execs = [q \in Queries |-> 0]

Active(t) == Len(stack[t]) > 0

(* exit_scc: look up the computing entry *)
Start(t) ==
    /\ Active(t) /\ Top(t).pc = "start"
    /\ LET q == Top(t).q IN
       IF q \in computing /\ ~IsUser(t)
       THEN IF SubscribeLate
            THEN /\ stack' = SetTop(t, [Top(t) EXCEPT !.pc = "scc_sub"]) /\ UNCHANGED sub
            ELSE /\ sub' = [sub EXCEPT ![q] = @ \cup {t}]
                 /\ stack' = SetTop(t, [Top(t) EXCEPT !.pc = "scc_wait"])
       ELSE /\ stack' = SetTop(t, [Top(t) EXCEPT !.pc = "fast"]) /\ UNCHANGED sub
    /\ UNCHANGED <<verified, computing, owner, execs>>

(* mutation only: the Notified future is created after the lock was dropped *)
LateSubscribe(t) ==
    /\ Active(t) /\ Top(t).pc \in {"scc_sub", "lock_sub"}
    /\ sub' = [sub EXCEPT ![Top(t).q] = @ \cup {t}]
    /\ stack' = SetTop(t, [Top(t) EXCEPT !.pc = IF Top(t).pc = "scc_sub" THEN "scc_wait" ELSE "lock_wait"])
    /\ UNCHANGED <<verified, computing, owner, execs>>

(* woken by notify_waiters *)
Woken(t) ==
    /\ Active(t) /\ Top(t).pc \in {"scc_wait", "lock_wait"}
    /\ t \notin sub[Top(t).q]
    /\ stack' = SetTop(t, [Top(t) EXCEPT !.pc = "fast"])
    /\ UNCHANGED <<verified, computing, owner, sub, execs>>

Fast(t) ==
    /\ Active(t) /\ Top(t).pc = "fast"
    /\ IF Top(t).q \in verified
       THEN stack' = Pop(t)                      \* hit: value returned to the caller frame
       ELSE stack' = SetTop(t, [Top(t) EXCEPT !.pc = "lock"])
    /\ UNCHANGED <<verified, computing, owner, sub, execs>>

Lock(t) ==
    /\ Active(t) /\ Top(t).pc = "lock"
    /\ LET q == Top(t).q IN
       IF q \in verified
       THEN /\ stack' = SetTop(t, [Top(t) EXCEPT !.pc = "fast"])
            /\ UNCHANGED <<computing, owner, sub>>
       ELSE IF q \in computing
       THEN /\ IF SubscribeLate
               THEN /\ stack' = SetTop(t, [Top(t) EXCEPT !.pc = "lock_sub"]) /\ UNCHANGED sub
               ELSE /\ sub' = [sub EXCEPT ![q] = @ \cup {t}]
                    /\ stack' = SetTop(t, [Top(t) EXCEPT !.pc = "lock_wait"])
            /\ UNCHANGED <<computing, owner>>
       ELSE /\ computing' = computing \cup {q}
            /\ owner' = [owner EXCEPT ![q] = t]
            /\ stack' = SetTop(t, [Top(t) EXCEPT !.pc = "exec"])
            /\ UNCHANGED sub
    /\ UNCHANGED <<verified, execs>>

(* the executor asks for its next dependency, or is done *)
Exec(t) ==
    /\ Active(t) /\ Top(t).pc = "exec"
    /\ LET f == Top(t) IN
       IF f.i <= Len(Deps[f.q])
       THEN stack' = [stack EXCEPT ![t] =
                          Append([@ EXCEPT ![Len(@)] = [f EXCEPT !.i = f.i + 1]],
                                 Frame(Deps[f.q][f.i], "start"))]
       ELSE stack' = SetTop(t, [f EXCEPT !.pc = "publish"])
    /\ UNCHANGED <<verified, computing, owner, sub, execs>>

Publish(t) ==
    /\ Active(t) /\ Top(t).pc = "publish"
    /\ LET q == Top(t).q IN
       /\ verified' = verified \cup {q}
       /\ computing' = computing \ {q}
       /\ owner' = [owner EXCEPT ![q] = None]
       /\ sub' = [sub EXCEPT ![q] = {}]          \* notify_waiters
       /\ execs' = [execs EXCEPT ![q] = @ + 1]
    /\ stack' = SetTop(t, [Top(t) EXCEPT !.pc = "fast"])

Next == \E t \in Tasks : Start(t) \/ LateSubscribe(t) \/ Woken(t) \/ Fast(t) \/ Lock(t) \/ Exec(t) \/ Publish(t)

Spec == Init /\ [][Next]_vars
FairSpec == Spec /\ \A t \in Tasks : WF_vars(Start(t) \/ LateSubscribe(t) \/ Woken(t) \/ Fast(t) \/ Lock(t) \/ Exec(t) \/ Publish(t))

(* C02: one query key is never executed by two tasks at once *)
Executing(t, q) == \E k \in 1..Len(stack[t]) : stack[t][k].q = q /\ stack[t][k].pc \in {"exec", "publish"}
SingleFlight == \A q \in Queries : Cardinality({t \in Tasks : Executing(t, q)}) <= 1
(* ... and at most once per epoch *)
OncePerEpoch == \A q \in Queries : execs[q] <= 1
(* a task waits only on an entry that still exists, or it has been woken *)
NoOrphanWaiter ==
    \A t \in Tasks : Active(t) /\ Top(t).pc \in {"scc_wait", "lock_wait"} /\ t \in sub[Top(t).q]
                     => Top(t).q \in computing
(* every request completes *)
AllDone == \A t \in Tasks : ~Active(t)
Progress == <>AllDone
=============================================================================
