----------------------------- MODULE EngineConc -----------------------------
(***************************************************************************)
(* M-layer specification of the single-flight protocol of the engine        *)
(* (computation_graph.rs query_for, computing.rs exit_scc /                 *)
(* computing_lock_guard / ComputingLockGuard::done): several tasks request  *)
(* queries of one acyclic program concurrently; a query is executed by at   *)
(* most one task at a time, the others wait on the computing entry's        *)
(* Notify and retry.                                                        *)
(*                                                                         *)
(* Small-step: every task has an explicit call stack of frames              *)
(* [q, pc, i] (query, program counter, index of the next dependency);       *)
(* one action = one step between two suspension points of the code:         *)
(*                                                                         *)
(*   start  -> scc     register the callee at the caller, look the callee   *)
(*                     up in the computing table (exit_scc)                 *)
(*   scc               a *query* caller subscribes to the entry's Notify    *)
(*                     (notified_owned() is created while the entry is      *)
(*                     read-locked) and waits; a user caller goes on        *)
(*   fast              under the read snapshot of the query: verified in    *)
(*                     this epoch -> return; otherwise                      *)
(*                     computing_lock_guard: entry occupied -> subscribe    *)
(*                     and wait, then retry; vacant -> insert the entry,    *)
(*                     execute                                              *)
(*   exec              the executor reads its dependencies one by one       *)
(*                     (a nested frame each); when it returns, set_computed *)
(*                     marks the query verified                             *)
(*   publish           ComputingLockGuard::done: remove the entry, wake     *)
(*                     every subscriber; then the loop of query_for starts  *)
(*                     over (start -> fast -> hit)                          *)
(*                                                                         *)
(* The program counters are the cfg-guarded points of the code             *)
(* (qbice::verif::point_query): start = q_start, fast = q_fast,            *)
(* scc_wait = q_scc_wait, lock_wait = q_lock_wait, publish = q_publish;    *)
(* exec = the executor body between two dependency reads.  A    *)
(* behaviour of this module is therefore a schedule that can be forced on  *)
(* the real engine step by step (EngineConcGen, harness conc_sched).       *)
(*                                                                         *)
(* tokio's notify_waiters() wakes exactly the Notified futures that exist   *)
(* when it is called, polled or not; a future created later waits for the   *)
(* next call.  `sub` models that set.  The mutation constant                *)
(* SubscribeLate = TRUE creates the future only after the entry lock was    *)
(* released (a separate step): TLC then finds the lost wake-up.             *)
(*                                                                         *)
(* Dependency cycles (C06).  Deps may be cyclic.  A computing entry carries *)
(* the callees registered so far (`callees`, register_callee happens at the *)
(* top of query_for, before the loop: it is part of the step that pushes    *)
(* the frame) and the in-SCC flag (`scc`).  exit_scc of a *query* caller    *)
(* that finds the callee computing runs check_cyclic: the computing queries *)
(* reachable from the callee through registered callees, those of them from *)
(* which the caller can be reached are marked; if the callee is among them  *)
(* the caller is marked too and the read returns CyclicError: the caller's  *)
(* executor unwinds, the caller publishes its cycle default (`cut`) - no    *)
(* point of the code lies in between, so it is one step that ends at the    *)
(* caller's q_publish.  Otherwise the task subscribes and waits.  After a   *)
(* value was obtained (FastHit) is_query_running_in_scc(caller) unwinds a   *)
(* caller that was marked meanwhile by some other task's search.  Mutation  *)
(* switches: RegisterLate = TRUE registers the callee only after exit_scc   *)
(* returned, i.e. after the wait (TLC: two tasks entering a 2-cycle from    *)
(* both ends wait for each other for ever); MarkCallerOnly = TRUE marks     *)
(* only the caller when the search succeeds (TLC: the other members of the  *)
(* cycle publish ordinary results).  Dropping is_query_running_in_scc after *)
(* the value was obtained is NOT a property-breaking mutation: a marked     *)
(* query publishes its default at the end of its executor anyway (checked:  *)
(* the model with that check removed satisfies the same invariants).        *)
(*                                                                         *)
(* Properties: SingleFlight (C02), NoOrphanWaiter (a task never waits on an *)
(* entry that is gone), NoStall (some step is enabled until every request   *)
(* is complete), CutOnlyOnCycle / CutExact (C06: exactly the executed       *)
(* queries that lie on a cycle publish their cycle default), and under      *)
(* weak fairness every request completes.                                   *)
(***************************************************************************)
EXTENDS Integers, Sequences, FiniteSets, TLC

CONSTANTS Tasks,          \* task ids
          Queries,        \* query ids (integers)
          Deps,           \* function query -> sequence of dependencies (acyclic)
          Roots,          \* function task -> query it requests
          SubscribeLate,  \* mutation switch (FALSE = as coded)
          MaxAbandon,     \* how many requests may be abandoned (future dropped / executor panic)
          SilentAbandon,  \* mutation switch: an abandoned computation does not wake its waiters
          RegisterLate,   \* mutation switch: the callee is registered after exit_scc (FALSE = as coded)
          MarkCallerOnly  \* mutation switch: a successful search marks the caller only, not the members it found

VARIABLES stack,      \* task -> sequence of frames, top = last
          verified,   \* set of queries verified in this epoch
          computing,  \* set of queries that have a computing entry
          owner,      \* query -> task that executes it (for SingleFlight)
          sub,        \* query -> set of tasks subscribed to the entry's Notify
          execs,      \* query -> number of executor runs (once per epoch)
          abandoned,  \* number of abandoned requests so far
          callees,    \* computing query -> callees registered so far
          scc,        \* set of computing queries marked in-SCC
          cut         \* set of queries that published their cycle default

vars == <<stack, verified, computing, owner, sub, execs, abandoned, callees, scc, cut>>
cycVars == <<callees, scc, cut>>

None == -1
Frame(q, pc) == [q |-> q, pc |-> pc, i |-> 1]
Top(t) == stack[t][Len(stack[t])]
SetTop(t, f) == [stack EXCEPT ![t] = [@ EXCEPT ![Len(@)] = f]]
Push(t, f) == [stack EXCEPT ![t] = Append(@, f)]
Pop(t) == [stack EXCEPT ![t] = SubSeq(@, 1, Len(@) - 1)]
IsUser(t) == Len(stack[t]) = 1   \* the bottom frame is the user's request

Init ==
    /\ stack = [t \in Tasks |-> <<Frame(Roots[t], "start")>>]
    /\ verified = {} /\ computing = {}
    /\ owner = [q \in Queries |-> None]
    /\ sub = [q \in Queries |-> {}]
    /\ execs = [q \in Queries |-> 0]
    /\ abandoned = 0
    /\ callees = [q \in Queries |-> {}]
    /\ scc = {} /\ cut = {}

Active(t) == Len(stack[t]) > 0

(* check_cyclic(callee, target): the computing queries reachable from the   *)
(* callee through registered callees; those from which the target is        *)
(* reachable are marked.                                                    *)
RECURSIVE ReachC(_, _, _)
ReachC(cs, frontier, seen) ==
    LET nxt == {k \in UNION {cs[x] : x \in frontier} : k \in computing} \ seen
    IN IF nxt = {} THEN seen ELSE ReachC(cs, nxt, seen \cup nxt)
RECURSIVE InScc(_, _, _, _)
InScc(cs, R, target, acc) ==
    LET add == {x \in R \ acc : target \in cs[x] \/ cs[x] \cap acc # {}}
    IN IF add = {} THEN acc ELSE InScc(cs, R, target, acc \cup add)

CallerQ(t) == stack[t][Len(stack[t]) - 1].q     \* only for ~IsUser(t)

(* the stack of t after its top frame returned CyclicError or a value to a  *)
(* caller that is marked: the caller's executor unwinds, set_computed       *)
(* stores the cycle default, the task stands at the caller's q_publish      *)
Unwound(t) ==
    LET n == Len(stack[t]) - 1
    IN [stack EXCEPT ![t] = [k \in 1..n |-> IF k = n THEN [stack[t][k] EXCEPT !.pc = "publish"] ELSE stack[t][k]]]

(* exit_scc: look up the computing entry *)
Start(t) ==
    /\ Active(t) /\ Top(t).pc = "start"
    /\ LET q == Top(t).q
           \* mutation: the registration that belongs to the step before happens only now, after the search
           cs == callees
       IN
       IF q \in computing /\ ~IsUser(t)
       THEN LET c == CallerQ(t)
                R == ReachC(cs, {q}, {q})
                M == InScc(cs, R, c, {})
            IN IF q \in M
               THEN \* cycle: mark, CyclicError, the caller unwinds and publishes its default
                    /\ scc' = IF MarkCallerOnly THEN scc \cup {c} ELSE scc \cup M \cup {c}
                    /\ stack' = Unwound(t)
                    /\ verified' = verified \cup {c}
                    /\ execs' = [execs EXCEPT ![c] = @ + 1]
                    /\ cut' = cut \cup {c}
                    /\ callees' = IF RegisterLate THEN [callees EXCEPT ![c] = @ \cup {q}] ELSE callees
                    /\ UNCHANGED sub
               ELSE /\ scc' = IF MarkCallerOnly THEN scc ELSE scc \cup M
                    /\ UNCHANGED <<verified, execs, cut, callees>>   \* (RegisterLate: registered when the wait is over)
                    /\ IF SubscribeLate
                       THEN /\ stack' = SetTop(t, [Top(t) EXCEPT !.pc = "scc_sub"]) /\ UNCHANGED sub
                       ELSE /\ sub' = [sub EXCEPT ![q] = @ \cup {t}]
                            /\ stack' = SetTop(t, [Top(t) EXCEPT !.pc = "scc_wait"])
       ELSE /\ stack' = SetTop(t, [Top(t) EXCEPT !.pc = "fast"])
            /\ callees' = IF RegisterLate /\ ~IsUser(t) THEN [callees EXCEPT ![CallerQ(t)] = @ \cup {q}] ELSE callees
            /\ UNCHANGED <<sub, verified, execs, scc, cut>>
    /\ UNCHANGED <<computing, owner, abandoned>>

(* mutation only: the Notified future is created after the lock was dropped *)
LateSubscribe(t) ==
    /\ Active(t) /\ Top(t).pc \in {"scc_sub", "lock_sub"}
    /\ sub' = [sub EXCEPT ![Top(t).q] = @ \cup {t}]
    /\ stack' = SetTop(t, [Top(t) EXCEPT !.pc = IF Top(t).pc = "scc_sub" THEN "scc_wait" ELSE "lock_wait"])
    /\ UNCHANGED <<verified, computing, owner, execs, abandoned, cycVars>>

(* woken by notify_waiters *)
Woken(t) ==
    /\ Active(t) /\ Top(t).pc \in {"scc_wait", "lock_wait"}
    /\ t \notin sub[Top(t).q]
    \* exit_scc returns and query_for goes on to the fast path; a failed
    \* computing_lock_guard makes query_for start its loop over
    /\ stack' = SetTop(t, [Top(t) EXCEPT !.pc = IF Top(t).pc = "scc_wait" THEN "fast" ELSE "start"])
    /\ callees' = IF RegisterLate /\ Top(t).pc = "scc_wait" THEN [callees EXCEPT ![CallerQ(t)] = @ \cup {Top(t).q}] ELSE callees
    /\ UNCHANGED <<verified, computing, owner, sub, execs, abandoned, scc, cut>>

(* One critical section of the code: query_for takes the read snapshot of   *)
(* the query (which excludes set_computed of the same query), tries the     *)
(* fast path and, on a miss, goes straight into computing_lock_guard with   *)
(* the snapshot still held: re-check, then either subscribe to the existing *)
(* entry or insert a new one.                                               *)
FastHit(t) ==
    /\ Active(t) /\ Top(t).pc = "fast"
    /\ Top(t).q \in verified
    /\ IF ~IsUser(t) /\ CallerQ(t) \in scc
       THEN \* is_query_running_in_scc(caller): the caller was marked meanwhile, it unwinds
            LET c == CallerQ(t) IN
            /\ stack' = Unwound(t)
            /\ verified' = verified \cup {c}
            /\ execs' = [execs EXCEPT ![c] = @ + 1]
            /\ cut' = cut \cup {c}
       ELSE /\ stack' = Pop(t)                      \* value returned to the caller frame
            /\ UNCHANGED <<verified, execs, cut>>
    /\ UNCHANGED <<computing, owner, sub, abandoned, callees, scc>>

FastMiss(t) ==
    /\ Active(t) /\ Top(t).pc = "fast"
    /\ LET q == Top(t).q IN
       /\ q \notin verified
       /\ IF q \in computing
          THEN /\ IF SubscribeLate
                  THEN /\ stack' = SetTop(t, [Top(t) EXCEPT !.pc = "lock_sub"]) /\ UNCHANGED sub
                  ELSE /\ sub' = [sub EXCEPT ![q] = @ \cup {t}]
                       /\ stack' = SetTop(t, [Top(t) EXCEPT !.pc = "lock_wait"])
               /\ UNCHANGED <<computing, owner>>
          ELSE /\ computing' = computing \cup {q}
               /\ owner' = [owner EXCEPT ![q] = t]
               /\ stack' = SetTop(t, [Top(t) EXCEPT !.pc = "exec"])
               /\ UNCHANGED sub
    /\ UNCHANGED <<verified, execs, abandoned, cycVars>>

Fast(t) == FastHit(t) \/ FastMiss(t)

(* the executor asks for its next dependency, or is done *)
Exec(t) ==
    /\ Active(t) /\ Top(t).pc = "exec"
    /\ LET f == Top(t) IN
       IF f.i <= Len(Deps[f.q])
       THEN \* query_for: register_callee, then the loop (q_start)
            /\ stack' = [stack EXCEPT ![t] =
                          Append([@ EXCEPT ![Len(@)] = [f EXCEPT !.i = f.i + 1]],
                                 Frame(Deps[f.q][f.i], "start"))]
            /\ callees' = IF RegisterLate THEN callees ELSE [callees EXCEPT ![f.q] = @ \cup {Deps[f.q][f.i]}]
            /\ UNCHANGED <<verified, execs, abandoned, cut>>
       ELSE \* the executor returned: set_computed (the cycle default if the query was marked meanwhile)
            /\ stack' = SetTop(t, [f EXCEPT !.pc = "publish"])
            /\ verified' = verified \cup {f.q}
            /\ execs' = [execs EXCEPT ![f.q] = @ + 1]
            /\ cut' = IF f.q \in scc THEN cut \cup {f.q} ELSE cut
            /\ UNCHANGED <<callees, abandoned>>
    /\ UNCHANGED <<computing, owner, sub, scc>>

Publish(t) ==
    /\ Active(t) /\ Top(t).pc = "publish"
    /\ LET q == Top(t).q IN
       /\ computing' = computing \ {q}
       /\ owner' = [owner EXCEPT ![q] = None]
       /\ sub' = [sub EXCEPT ![q] = {}]          \* notify_waiters
       /\ callees' = [callees EXCEPT ![q] = {}]     \* the entry is gone
       /\ scc' = scc \ {q}
    /\ stack' = SetTop(t, [Top(t) EXCEPT !.pc = "start"])
    /\ UNCHANGED <<verified, execs, abandoned, cut>>

(* The request of task t is abandoned while its innermost executor is       *)
(* suspended: the caller dropped the future (cancellation) or the executor  *)
(* panicked.  Unwinding drops the ComputingLockGuard of every query the     *)
(* task was executing: Drop calls done(), i.e. the entry is removed and its *)
(* subscribers are woken; nothing is published (the queries stay           *)
(* unverified) and some other task has to compute them again.              *)
Owned(t) == {stack[t][k].q : k \in {j \in 1..Len(stack[t]) : stack[t][j].pc = "exec"}}
Abandon(t) ==
    /\ abandoned < MaxAbandon
    /\ Active(t) /\ Top(t).pc = "exec"
    /\ computing' = computing \ Owned(t)
    /\ owner' = [q \in Queries |-> IF q \in Owned(t) THEN None ELSE owner[q]]
    /\ sub' = IF SilentAbandon THEN sub
              ELSE [q \in Queries |-> IF q \in Owned(t) THEN {} ELSE sub[q]]
    /\ stack' = [stack EXCEPT ![t] = <<>>]
    /\ abandoned' = abandoned + 1
    /\ callees' = [q \in Queries |-> IF q \in Owned(t) THEN {} ELSE callees[q]]
    /\ scc' = scc \ Owned(t)
    /\ UNCHANGED <<verified, execs, cut>>

Next == \E t \in Tasks : Abandon(t) \/ Start(t) \/ LateSubscribe(t) \/ Woken(t) \/ Fast(t) \/ Exec(t) \/ Publish(t)

Spec == Init /\ [][Next]_vars
\* abandoning is never forced
FairSpec == Spec /\ \A t \in Tasks : WF_vars(Start(t) \/ LateSubscribe(t) \/ Woken(t) \/ Fast(t) \/ Exec(t) \/ Publish(t))

(* C02: one query key is never executed by two tasks at once *)
Executing(t, q) == \E k \in 1..Len(stack[t]) : stack[t][k].q = q /\ stack[t][k].pc \in {"exec", "publish"}
SingleFlight == \A q \in Queries : Cardinality({t \in Tasks : Executing(t, q)}) <= 1
(* ... and at most once per epoch *)
OncePerEpoch == \A q \in Queries : execs[q] <= 1
(* a task waits only on an entry that still exists, or it has been woken *)
NoOrphanWaiter ==
    \A t \in Tasks : Active(t) /\ Top(t).pc \in {"scc_wait", "lock_wait"} /\ t \in sub[Top(t).q]
                     => Top(t).q \in computing
(* every request completes *)
AllDone == \A t \in Tasks : ~Active(t)
Progress == <>AllDone
(* ... and until then some step is enabled (no deadlock) *)
NoStall == AllDone \/ ENABLED Next

(* C06: the queries on a (static) dependency cycle *)
RECURSIVE ReachD(_, _)
ReachD(frontier, seen) ==
    LET nxt == UNION {{Deps[x][i] : i \in 1..Len(Deps[x])} : x \in frontier} \ seen
    IN IF nxt = {} THEN seen ELSE ReachD(nxt, seen \cup nxt)
DepSet(q) == {Deps[q][i] : i \in 1..Len(Deps[q])}
OnCycle(q) == q \in ReachD(DepSet(q), DepSet(q))
(* a query whose dependencies contain no cycle through it is never cut ... *)
CutOnlyOnCycle == \A q \in cut : OnCycle(q)
(* ... and every executed query that lies on a cycle publishes its default  *)
(* (programs whose cycle members have one successor on a cycle)             *)
CutExact == \A q \in verified : (q \in cut) = OnCycle(q)
=============================================================================
