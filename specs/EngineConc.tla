----------------------------- MODULE EngineConc -----------------------------
(***************************************************************************)
(* M-layer specification of the single-flight protocol of the engine        *)
(* (computation_graph.rs query_for, computing.rs exit_scc /                 *)
(* computing_lock_guard / ComputingLockGuard::done): several tasks request  *)
(* queries of one acyclic program concurrently; a query is executed by at   *)
(* most one task at a time, the others wait on the computing entry's        *)
(* Notify and retry.                                                        *)
(*                                                                         *)
(* Small-step: every task has an explicit call stack of frames              *)
(* [q, pc, i] (query, program counter, index of the next dependency);       *)
(* one action = one step between two suspension points of the code:         *)
(*                                                                         *)
(*   start  -> scc     register the callee at the caller, look the callee   *)
(*                     up in the computing table (exit_scc)                 *)
(*   scc               a *query* caller subscribes to the entry's Notify    *)
(*                     (notified_owned() is created while the entry is      *)
(*                     read-locked) and waits; a user caller goes on        *)
(*   fast              under the read snapshot of the query: verified in    *)
(*                     this epoch -> return; otherwise                      *)
(*                     computing_lock_guard: entry occupied -> subscribe    *)
(*                     and wait, then retry; vacant -> insert the entry,    *)
(*                     execute                                              *)
(*   exec              the executor reads its dependencies one by one       *)
(*                     (a nested frame each); when it returns, set_computed *)
(*                     marks the query verified                             *)
(*   publish           ComputingLockGuard::done: remove the entry, wake     *)
(*                     every subscriber; then the loop of query_for starts  *)
(*                     over (start -> fast -> hit)                          *)
(*                                                                         *)
(* The program counters are the cfg-guarded points of the code             *)
(* (qbice::verif::point_query): start = q_start, fast = q_fast,            *)
(* scc_wait = q_scc_wait, lock_wait = q_lock_wait, publish = q_publish;    *)
(* exec = the executor body between two dependency reads.  A    *)
(* behaviour of this module is therefore a schedule that can be forced on  *)
(* the real engine step by step (EngineConcGen, harness conc_sched).       *)
(*                                                                         *)
(* tokio's notify_waiters() wakes exactly the Notified futures that exist   *)
(* when it is called, polled or not; a future created later waits for the   *)
(* next call.  `sub` models that set.  The mutation constant                *)
(* SubscribeLate = TRUE creates the future only after the entry lock was    *)
(* released (a separate step): TLC then finds the lost wake-up.             *)
(*                                                                         *)
(* Properties: SingleFlight (C02), NoOrphanWaiter (a task never waits on an *)
(* entry that is gone), and under weak fairness every request completes.    *)
(***************************************************************************)
EXTENDS Integers, Sequences, FiniteSets, TLC

CONSTANTS Tasks,          \* task ids
          Queries,        \* query ids (integers)
          Deps,           \* function query -> sequence of dependencies (acyclic)
          Roots,          \* function task -> query it requests
          SubscribeLate,  \* mutation switch (FALSE = as coded)
          MaxAbandon,     \* how many requests may be abandoned (future dropped / executor panic)
          SilentAbandon   \* mutation switch: an abandoned computation does not wake its waiters

VARIABLES stack,      \* task -> sequence of frames, top = last
          verified,   \* set of queries verified in this epoch
          computing,  \* set of queries that have a computing entry
          owner,      \* query -> task that executes it (for SingleFlight)
          sub,        \* query -> set of tasks subscribed to the entry's Notify
          execs,      \* query -> number of executor runs (once per epoch)
          abandoned   \* number of abandoned requests so far

vars == <<stack, verified, computing, owner, sub, execs, abandoned>>

None == -1
Frame(q, pc) == [q |-> q, pc |-> pc, i |-> 1]
Top(t) == stack[t][Len(stack[t])]
SetTop(t, f) == [stack EXCEPT ![t] = [@ EXCEPT ![Len(@)] = f]]
Push(t, f) == [stack EXCEPT ![t] = Append(@, f)]
Pop(t) == [stack EXCEPT ![t] = SubSeq(@, 1, Len(@) - 1)]
IsUser(t) == Len(stack[t]) = 1   \* the bottom frame is the user's request

Init ==
    /\ stack = [t \in Tasks |-> <<Frame(Roots[t], "start")>>]
    /\ verified = {} /\ computing = {}
    /\ owner = [q \in Queries |-> None]
    /\ sub = [q \in Queries |-> {}]
    /\ execs = [q \in Queries |-> 0]
    /\ abandoned = 0

Active(t) == Len(stack[t]) > 0

(* exit_scc: look up the computing entry *)
Start(t) ==
    /\ Active(t) /\ Top(t).pc = "start"
    /\ LET q == Top(t).q IN
       IF q \in computing /\ ~IsUser(t)
       THEN IF SubscribeLate
            THEN /\ stack' = SetTop(t, [Top(t) EXCEPT !.pc = "scc_sub"]) /\ UNCHANGED sub
            ELSE /\ sub' = [sub EXCEPT ![q] = @ \cup {t}]
                 /\ stack' = SetTop(t, [Top(t) EXCEPT !.pc = "scc_wait"])
       ELSE /\ stack' = SetTop(t, [Top(t) EXCEPT !.pc = "fast"]) /\ UNCHANGED sub
    /\ UNCHANGED <<verified, computing, owner, execs, abandoned>>

(* mutation only: the Notified future is created after the lock was dropped *)
LateSubscribe(t) ==
    /\ Active(t) /\ Top(t).pc \in {"scc_sub", "lock_sub"}
    /\ sub' = [sub EXCEPT ![Top(t).q] = @ \cup {t}]
    /\ stack' = SetTop(t, [Top(t) EXCEPT !.pc = IF Top(t).pc = "scc_sub" THEN "scc_wait" ELSE "lock_wait"])
    /\ UNCHANGED <<verified, computing, owner, execs, abandoned>>

(* woken by notify_waiters *)
Woken(t) ==
    /\ Active(t) /\ Top(t).pc \in {"scc_wait", "lock_wait"}
    /\ t \notin sub[Top(t).q]
    \* exit_scc returns and query_for goes on to the fast path; a failed
    \* computing_lock_guard makes query_for start its loop over
    /\ stack' = SetTop(t, [Top(t) EXCEPT !.pc = IF Top(t).pc = "scc_wait" THEN "fast" ELSE "start"])
    /\ UNCHANGED <<verified, computing, owner, sub, execs, abandoned>>

(* One critical section of the code: query_for takes the read snapshot of   *)
(* the query (which excludes set_computed of the same query), tries the     *)
(* fast path and, on a miss, goes straight into computing_lock_guard with   *)
(* the snapshot still held: re-check, then either subscribe to the existing *)
(* entry or insert a new one.                                               *)
FastHit(t) ==
    /\ Active(t) /\ Top(t).pc = "fast"
    /\ Top(t).q \in verified
    /\ stack' = Pop(t)                      \* value returned to the caller frame
    /\ UNCHANGED <<verified, computing, owner, sub, execs, abandoned>>

FastMiss(t) ==
    /\ Active(t) /\ Top(t).pc = "fast"
    /\ LET q == Top(t).q IN
       /\ q \notin verified
       /\ IF q \in computing
          THEN /\ IF SubscribeLate
                  THEN /\ stack' = SetTop(t, [Top(t) EXCEPT !.pc = "lock_sub"]) /\ UNCHANGED sub
                  ELSE /\ sub' = [sub EXCEPT ![q] = @ \cup {t}]
                       /\ stack' = SetTop(t, [Top(t) EXCEPT !.pc = "lock_wait"])
               /\ UNCHANGED <<computing, owner>>
          ELSE /\ computing' = computing \cup {q}
               /\ owner' = [owner EXCEPT ![q] = t]
               /\ stack' = SetTop(t, [Top(t) EXCEPT !.pc = "exec"])
               /\ UNCHANGED sub
    /\ UNCHANGED <<verified, execs, abandoned>>

Fast(t) == FastHit(t) \/ FastMiss(t)

(* the executor asks for its next dependency, or is done *)
Exec(t) ==
    /\ Active(t) /\ Top(t).pc = "exec"
    /\ LET f == Top(t) IN
       IF f.i <= Len(Deps[f.q])
       THEN /\ stack' = [stack EXCEPT ![t] =
                          Append([@ EXCEPT ![Len(@)] = [f EXCEPT !.i = f.i + 1]],
                                 Frame(Deps[f.q][f.i], "start"))]
            /\ UNCHANGED <<verified, execs, abandoned>>
       ELSE \* the executor returned: set_computed
            /\ stack' = SetTop(t, [f EXCEPT !.pc = "publish"])
            /\ verified' = verified \cup {f.q}
            /\ execs' = [execs EXCEPT ![f.q] = @ + 1]
    /\ UNCHANGED <<computing, owner, sub, abandoned>>

Publish(t) ==
    /\ Active(t) /\ Top(t).pc = "publish"
    /\ LET q == Top(t).q IN
       /\ computing' = computing \ {q}
       /\ owner' = [owner EXCEPT ![q] = None]
       /\ sub' = [sub EXCEPT ![q] = {}]          \* notify_waiters
    /\ stack' = SetTop(t, [Top(t) EXCEPT !.pc = "start"])
    /\ UNCHANGED <<verified, execs, abandoned>>

(* The request of task t is abandoned while its innermost executor is       *)
(* suspended: the caller dropped the future (cancellation) or the executor  *)
(* panicked.  Unwinding drops the ComputingLockGuard of every query the     *)
(* task was executing: Drop calls done(), i.e. the entry is removed and its *)
(* subscribers are woken; nothing is published (the queries stay           *)
(* unverified) and some other task has to compute them again.              *)
Owned(t) == {stack[t][k].q : k \in {j \in 1..Len(stack[t]) : stack[t][j].pc = "exec"}}
Abandon(t) ==
    /\ abandoned < MaxAbandon
    /\ Active(t) /\ Top(t).pc = "exec"
    /\ computing' = computing \ Owned(t)
    /\ owner' = [q \in Queries |-> IF q \in Owned(t) THEN None ELSE owner[q]]
    /\ sub' = IF SilentAbandon THEN sub
              ELSE [q \in Queries |-> IF q \in Owned(t) THEN {} ELSE sub[q]]
    /\ stack' = [stack EXCEPT ![t] = <<>>]
    /\ abandoned' = abandoned + 1
    /\ UNCHANGED <<verified, execs>>

Next == \E t \in Tasks : Abandon(t) \/ Start(t) \/ LateSubscribe(t) \/ Woken(t) \/ Fast(t) \/ Exec(t) \/ Publish(t)

Spec == Init /\ [][Next]_vars
\* abandoning is never forced
FairSpec == Spec /\ \A t \in Tasks : WF_vars(Start(t) \/ LateSubscribe(t) \/ Woken(t) \/ Fast(t) \/ Exec(t) \/ Publish(t))

(* C02: one query key is never executed by two tasks at once *)
Executing(t, q) == \E k \in 1..Len(stack[t]) : stack[t][k].q = q /\ stack[t][k].pc \in {"exec", "publish"}
SingleFlight == \A q \in Queries : Cardinality({t \in Tasks : Executing(t, q)}) <= 1
(* ... and at most once per epoch *)
OncePerEpoch == \A q \in Queries : execs[q] <= 1
(* a task waits only on an entry that still exists, or it has been woken *)
NoOrphanWaiter ==
    \A t \in Tasks : Active(t) /\ Top(t).pc \in {"scc_wait", "lock_wait"} /\ t \in sub[Top(t).q]
                     => Top(t).q \in computing
(* every request completes *)
AllDone == \A t \in Tasks : ~Active(t)
Progress == <>AllDone
=============================================================================
