SPECIFICATION Spec
CONSTANTS
  Pool <- PoolI
  Kids <- KidsI
  MaxEnc = 3
  Aux = TRUE
  AllowUnregistered = TRUE
  PinDecoded = FALSE
  Emitting = TRUE
CHECK_DEADLOCK FALSE

