\* everything as coded: every failing get carries a known-finding signature; the log stays pinned
SPECIFICATION Spec
CONSTANTS
  Keys = {k1}
  Elems = {1, 2}
  Clients = {c1, c2}
  MaxBatches = 3
  MaxOps = 2
  T = 1
  LostInsert = TRUE
  FlushMax = TRUE
  FoldCancel = TRUE
  SpillCut = TRUE
  LateSnapshot = FALSE
  LateSnapFetch = FALSE
  SplitAppend = FALSE
  Gen = FALSE
  PrintCex = FALSE
SYMMETRY Sym
VIEW view
INVARIANTS OnlyKnown LogPinned
CHECK_DEADLOCK FALSE
