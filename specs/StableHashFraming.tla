-------------------------- MODULE StableHashFraming --------------------------
(***************************************************************************)
(* C13 - the framing rules of crates/stable_hash/src/lib.rs as data.       *)
(*                                                                         *)
(* A value of a type is modelled three ways:                               *)
(*   rep   - the concrete representation a construction history leaves     *)
(*           behind: ordered things are sequences, UNORDERED collections   *)
(*           (HashMap/HashSet/DashMap/BinaryHeap) are sequences in their   *)
(*           current *iteration order*, which depends on insertion order,  *)
(*           capacity, rehashing and the RandomState;                      *)
(*   Abs   - the abstract value (the content): sets for sets, sets of      *)
(*           <<k,v>> for maps, multisets for heaps;                        *)
(*   Tok   - the stream the `StableHash` impl feeds to the hasher, at the  *)
(*           granularity the hasher sees: BYTES (write boundaries are not  *)
(*           visible to SipHash, so none are modelled) plus one structured *)
(*           token per unordered collection: the multiset of the           *)
(*           sub-streams given to `sub_hash` (the 16 bytes written after   *)
(*           it are `sum of sub-hashes`, a function of that multiset and   *)
(*           of the prefix, and are folded into the token).                *)
(*                                                                         *)
(* Rules as implemented (lib.rs line numbers of the unchanged tree):       *)
(*   u8/bool/char/uN/iN/fN  fixed width little endian            (351-433) *)
(*   str/String/CStr/FlexStr  write_length_prefix(len) ++ bytes  (258,435) *)
(*       write_length_prefix = write_usize: 8 bytes little endian    (247) *)
(*   Vec/[T]/[T;N]/VecDeque/LinkedList  length prefix ++ items   (447,629) *)
(*   Option/Result/derived enum  Discriminant raw bytes ++ payload (546,   *)
(*                               stable_hash_derive impl_stable_hash_enum) *)
(*   tuple/struct/Range  concatenation of the fields             (586-618) *)
(*   HashMap/HashSet/DashMap/DashSet/BinaryHeap  len ++ wrapping sum of    *)
(*           sub_hash(entry)                                 (479-510,724) *)
(*   BTreeMap/BTreeSet  len ++ entries in key order              (512-531) *)
(*   (), PhantomData, RangeFull  nothing                                   *)
(*                                                                         *)
(* Switches (TRUE = as the code is).  Turning one off models a framing     *)
(* without that rule; TLC then produces the classical ambiguity, which     *)
(* shows the invariants of StableHash.tla are not vacuous.                 *)
(***************************************************************************)
EXTENDS Integers, Sequences, FiniteSets, TLC

CONSTANTS LengthPrefix,  \* sequences/strings/collections write their length
          DiscPrefix,    \* Option/Result/enum write their discriminant
          Commutative,   \* unordered collections combine sub-hashes with +
          LenW,          \* bytes of a usize  (8 on the replay target)
          DiscW,         \* bytes of a Discriminant<T> (8: isize)
          Bytes,         \* universe of u8 values
          Chars,         \* universe of string bytes
          MaxLen         \* bound on every sequence / collection

(* ------------------------------ type terms ----------------------------- *)
U8 == [k |-> "u8", a |-> <<>>]
Unit == [k |-> "unit", a |-> <<>>]
Str == [k |-> "str", a |-> <<>>]
Vec(t) == [k |-> "vec", a |-> <<t>>]
Opt(t) == [k |-> "opt", a |-> <<t>>]
Res(t, e) == [k |-> "res", a |-> <<t, e>>]
Tup(ts) == [k |-> "tup", a |-> ts]          \* tuples and derived structs
Set(t) == [k |-> "set", a |-> <<t>>]        \* HashSet / DashSet
Heap(t) == [k |-> "heap", a |-> <<t>>]      \* BinaryHeap (a multiset)
Map(kt, vt) == [k |-> "map", a |-> <<kt, vt>>]    \* HashMap / DashMap
BMap(kt, vt) == [k |-> "bmap", a |-> <<kt, vt>>]  \* BTreeMap, kt = U8
Enum(vs) == [k |-> "enum", a |-> vs]        \* derived enum: a[i] = field types

(* enum E { A, B(u8), C { x: u8, y: Vec<u8> }, D(Vec<u8>) }                 *)
EnumE == Enum(<< <<>>, <<U8>>, <<U8, Vec(U8)>>, <<Vec(U8)>> >>)

TypeDef ==
       "u8" :> U8
    @@ "str" :> Str
    @@ "pair_str_str" :> Tup(<<Str, Str>>)
    @@ "vec_u8" :> Vec(U8)
    @@ "vec_vec_u8" :> Vec(Vec(U8))
    @@ "vec_unit" :> Vec(Unit)
    @@ "vec_str" :> Vec(Str)
    @@ "opt_u8" :> Opt(U8)
    @@ "opt_opt_u8" :> Opt(Opt(U8))
    @@ "pair_opt_u8_vec_u8" :> Tup(<<Opt(U8), Vec(U8)>>)
    @@ "res_u8_str" :> Res(U8, Str)
    @@ "set_u8" :> Set(U8)
    @@ "set_set_u8" :> Set(Set(U8))
    @@ "set_vec_u8" :> Set(Vec(U8))
    @@ "vec_set_u8" :> Vec(Set(U8))
    @@ "map_u8_u8" :> Map(U8, U8)
    @@ "map_u8_set_u8" :> Map(U8, Set(U8))
    @@ "map_str_u8" :> Map(Str, U8)
    @@ "bmap_u8_vec_u8" :> BMap(U8, Vec(U8))
    @@ "heap_u8" :> Heap(U8)
    @@ "pair_set_u8_set_u8" :> Tup(<<Set(U8), Set(U8)>>)
    @@ "enum_e" :> EnumE
    @@ "pair_enum_e_u8" :> Tup(<<EnumE, U8>>)

AllTypeNames == DOMAIN TypeDef

(* ------------------------ representations, Abs ------------------------- *)
SeqsUpTo(S, n) == UNION {[1..m -> S] : m \in 0..n}

RECURSIVE Univ(_), Prod(_), Abs(_, _), Tok(_, _, _)

Prod(ts) == IF ts = <<>> THEN {<<>>}
            ELSE {<<x>> \o r : x \in Univ(Head(ts)), r \in Prod(Tail(ts))}

DistinctBy(s, F(_)) == \A i, j \in DOMAIN s : i < j => F(s[i]) # F(s[j])

Univ(t) ==
    CASE t.k = "u8" -> Bytes
      [] t.k = "unit" -> {0}
      [] t.k = "str" -> SeqsUpTo(Chars, MaxLen)
      [] t.k = "vec" -> SeqsUpTo(Univ(t.a[1]), MaxLen)
      [] t.k = "heap" -> SeqsUpTo(Univ(t.a[1]), MaxLen)
      [] t.k = "opt" -> SeqsUpTo(Univ(t.a[1]), 1)
      [] t.k = "res" -> {<<0, x>> : x \in Univ(t.a[1])} \cup {<<1, x>> : x \in Univ(t.a[2])}
      [] t.k = "tup" -> Prod(t.a)
      [] t.k = "set" -> LET A(x) == Abs(t.a[1], x)
                        IN {s \in SeqsUpTo(Univ(t.a[1]), MaxLen) : DistinctBy(s, A)}
      [] t.k = "map" -> LET A(x) == Abs(t.a[1], x[1])
                        IN {s \in SeqsUpTo(Univ(t.a[1]) \X Univ(t.a[2]), MaxLen) : DistinctBy(s, A)}
      [] t.k = "bmap" -> {s \in SeqsUpTo(Univ(t.a[1]) \X Univ(t.a[2]), MaxLen) :
                              \A i, j \in DOMAIN s : i < j => s[i][1] < s[j][1]}
      [] t.k = "enum" -> UNION {{<<i - 1, f>> : f \in Prod(t.a[i])} : i \in DOMAIN t.a}

Abs(t, r) ==
    CASE t.k \in {"u8", "unit", "str"} -> r
      [] t.k \in {"vec", "opt"} -> [i \in DOMAIN r |-> Abs(t.a[1], r[i])]
      [] t.k = "res" -> <<r[1], Abs(t.a[r[1] + 1], r[2])>>
      [] t.k = "tup" -> [i \in DOMAIN r |-> Abs(t.a[i], r[i])]
      [] t.k = "set" -> {Abs(t.a[1], r[i]) : i \in DOMAIN r}
      [] t.k = "heap" -> LET A == [i \in DOMAIN r |-> Abs(t.a[1], r[i])]
                         IN {<<A[i], Cardinality({j \in DOMAIN r : A[j] = A[i]})>> : i \in DOMAIN r}
      [] t.k \in {"map", "bmap"} -> {<<Abs(t.a[1], r[i][1]), Abs(t.a[2], r[i][2])>> : i \in DOMAIN r}
      [] t.k = "enum" -> <<r[1], [i \in DOMAIN r[2] |-> Abs(t.a[r[1] + 1][i], r[2][i])]>>

(* ------------------------------- streams ------------------------------- *)
(* J = FALSE: uniform tokens for comparison inside TLC;                    *)
(* J = TRUE : plain ints and [bag |-> <<streams in rep order>>] for JSON.  *)
B(v, J) == IF J THEN v ELSE [b |-> v, bag |-> <<>>]
LE(n, w, J) == [i \in 1..w |-> B(IF i = 1 THEN n ELSE 0, J)]
LenTok(n, J) == IF LengthPrefix THEN LE(n, LenW, J) ELSE <<>>
DiscTok(d, J) == IF DiscPrefix THEN LE(d, DiscW, J) ELSE <<>>

RECURSIVE Cat(_)
Cat(ss) == IF ss = <<>> THEN <<>> ELSE Head(ss) \o Cat(Tail(ss))

BagOf(ss) == [x \in {ss[i] : i \in DOMAIN ss} |->
                 Cardinality({i \in DOMAIN ss : ss[i] = x})]

(* the combination of the sub-hashes of an unordered collection: a         *)
(* multiset if the combination is commutative (wrapping_add, as coded),    *)
(* the sequence in iteration order otherwise (e.g. feeding the sub-hashes  *)
(* to the hasher one after the other).                                     *)
Unordered(ss, J) ==
    IF J THEN <<[bag |-> ss]>>
    ELSE <<[b |-> -1, bag |-> IF Commutative THEN BagOf(ss) ELSE ss]>>

Tok(t, r, J) ==
    CASE t.k = "u8" -> <<B(r, J)>>
      [] t.k = "unit" -> <<>>
      [] t.k = "str" -> LenTok(Len(r), J) \o [i \in DOMAIN r |-> B(r[i], J)]
      [] t.k = "vec" -> LenTok(Len(r), J) \o Cat([i \in DOMAIN r |-> Tok(t.a[1], r[i], J)])
      [] t.k = "opt" -> IF r = <<>> THEN DiscTok(0, J)
                        ELSE DiscTok(1, J) \o Tok(t.a[1], r[1], J)
      [] t.k = "res" -> DiscTok(r[1], J) \o Tok(t.a[r[1] + 1], r[2], J)
      [] t.k = "tup" -> Cat([i \in DOMAIN r |-> Tok(t.a[i], r[i], J)])
      [] t.k = "enum" -> DiscTok(r[1], J)
                         \o Cat([i \in DOMAIN r[2] |-> Tok(t.a[r[1] + 1][i], r[2][i], J)])
      [] t.k \in {"set", "heap"} ->
            LenTok(Len(r), J) \o Unordered([i \in DOMAIN r |-> Tok(t.a[1], r[i], J)], J)
      [] t.k = "map" ->
            LenTok(Len(r), J)
            \o Unordered([i \in DOMAIN r |-> Tok(t.a[1], r[i][1], J) \o Tok(t.a[2], r[i][2], J)], J)
      [] t.k = "bmap" ->
            LenTok(Len(r), J)
            \o Cat([i \in DOMAIN r |-> Tok(t.a[1], r[i][1], J) \o Tok(t.a[2], r[i][2], J)])

IsPrefix(s, t) == Len(s) <= Len(t) /\ SubSeq(t, 1, Len(s)) = s

(* ------------------- requirement on the length encoding ---------------- *)
(* "Unambiguous byte stream" rests on ONE property of the encoder behind   *)
(* `write_length_prefix`: the byte strings it produces over all lengths    *)
(* form a PREFIX CODE - no encoding is a prefix of the encoding of another *)
(* length.  Then the end of the length field is determined by the bytes    *)
(* read so far, and `length ++ payload` frames concatenate to a uniquely   *)
(* decodable stream whatever the payload bytes are.  The fixed-width       *)
(* little-endian encoding used here (LE, as `write_usize`) satisfies it    *)
(* trivially (all encodings have one length and differ).  The requirement  *)
(* itself, other encoders (compact with escape byte, with and without the  *)
(* off-by-one threshold; variable length without terminator) and the       *)
(* derivation of stream injectivity for composite values are in            *)
(* StableHashLenCode.tla; the bytes the real code writes are validated     *)
(* against it by StableHashLenTrace.tla.                                   *)
IsPrefixCode(E(_), L) == \A n, m \in L : n # m => ~IsPrefix(E(n), E(m))
LenEnc(n) == LenTok(n, FALSE)
LenCodeIsPrefixCode == IsPrefixCode(LenEnc, 0..(MaxLen + 1))

(* ------------------------------- helpers ------------------------------- *)
InsertAt(s, p, x) == SubSeq(s, 1, p - 1) \o <<x>> \o SubSeq(s, p, Len(s))
RemoveAt(s, p) == SubSeq(s, 1, p - 1) \o SubSeq(s, p + 1, Len(s))
PermsOf(s) == {[i \in DOMAIN s |-> s[f[i]]] : f \in Permutations(DOMAIN s)}

ElemUniv(t) ==
    CASE t.k = "str" -> Chars
      [] t.k \in {"vec", "set", "heap"} -> Univ(t.a[1])
      [] t.k \in {"map", "bmap"} -> Univ(t.a[1]) \X Univ(t.a[2])
      [] OTHER -> {}

IsCollection(t) == t.k \in {"str", "vec", "set", "heap", "map", "bmap"}
IsUnordered(t) == t.k \in {"set", "heap", "map"}

Default(t) == IF IsCollection(t) \/ t.k = "opt" THEN <<>>
              ELSE CHOOSE x \in Univ(t) : TRUE
=============================================================================
