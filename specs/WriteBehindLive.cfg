\* liveness in the smallest configuration, weak fairness, no symmetry, no
\* state constraint: provided every created batch is eventually submitted
\* (AllowGap = FALSE: Drop starts only when no batch is open; WF on Submit)
\* and the environment eventually shuts down, every submitted batch becomes
\* durable and Drop returns.
SPECIFICATION FairSpec
CONSTANTS
  Threads = {t1, t2}
  Sers = {s1, s2}
  MaxBatch = 2
  Keys = {k1}
  MaxFill = 1
  MaxGroup = 2
  Gated = TRUE
  AllowGap = FALSE
  AllowPass = FALSE
  AbortOnGap = TRUE
  DefectTakeAny = FALSE
  DefectNoJoin = FALSE
INVARIANTS
  TypeOK
  NoCrashWithoutGap
PROPERTIES
  EventuallyDurable
  DropReturns
  ShutdownHappens
CHECK_DEADLOCK FALSE
