SPECIFICATION Spec
CONSTANTS
  FixUnpin = TRUE
  Recheck = TRUE
  Concurrent = FALSE
  DuelChoices <- Tie
  MaxW = 3
  MaxVal = 1
  MaxPin = 1
  TrackRounds = TRUE
  Confs <- C1P4
CONSTRAINT Constraint
INVARIANTS TypeOK BoundedStrict
CHECK_DEADLOCK FALSE
