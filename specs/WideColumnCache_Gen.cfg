\* behaviour generator (use with -simulate): as coded, replayable interleavings
SPECIFICATION Spec
CONSTANTS
  Keys = {0, 1}
  Vals = {1, 2}
  Clients = {1, 2}
  MaxBatches = 3
  MaxOps = 5
  StaleFill = TRUE
  FillOverwrite = FALSE
  NoNegativeEntry = FALSE
  Gen = TRUE
CHECK_DEADLOCK FALSE
