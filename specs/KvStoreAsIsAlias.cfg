\* AS-IS (unframed composite key, non self-delimiting key encoding): two cells share a slot -> ReadsLastCommitted is violated
SPECIFICATION Spec
CONSTANTS
  WCols = {"W1"}
  SCols = {}
  Keys = {"K1", "K2"}
  VTypes = {"V1", "V2"}
  Vals = {1, 2}
  Elems = {}
  MaxBatches = 2
  MaxBufs = 1
  MaxIters = 0
  MaxOps = 2
  AtomicCommit = TRUE
  SnapshotScan = TRUE
  Alias <- AliasDemo
  TrackTouch = FALSE
  MisTag = {}
  BufOrder = "seq"
INVARIANTS TypeOK ReadsLastCommitted ScansExactMembers IterSound
PROPERTY OnlyCommitChanges
CHECK_DEADLOCK FALSE
