SPECIFICATION Spec
CONSTANTS
  Pool <- PoolX
  Kids <- KidsX
  TypeOf <- TypeX
  HashOf <- HashX
  MaxEnc = 1
  Aux = TRUE
  AllowUnregistered = FALSE
  PinDecoded = FALSE
  SeenByHashOnly = TRUE
  Emitting = TRUE
CHECK_DEADLOCK FALSE
