---------------------------- MODULE TypeIdTrace ----------------------------
(***************************************************************************)
(* C14 - validation (implementation -> spec) of the identities recorded    *)
(* from the real code by harness/src/bin/typeid_terms.rs and               *)
(* typeid_query.rs, several processes ("runs") concatenated in env TRACE:  *)
(*                                                                         *)
(*  {"k":"type","run":r,"term":..,"tree":..,"id":hex,"scheme":hex}         *)
(*        id     = <T as Identifiable>::STABLE_TYPE_ID of the real impls / *)
(*                 the real derive, for the Rust type that `term` denotes  *)
(*        tree   = the identifier tree TypeId.tla gives the term           *)
(*        scheme = that tree evaluated with the real from_unique_type_name *)
(*                 / combine / from_raw_parts                              *)
(*  {"k":"query","run":r,"ty":..,"key":..,"tid":hex,"hash":hex,            *)
(*   "etid":hex,"ehash":hex,"slots":..}                                    *)
(*        tid:hash = QueryID of the query (type ty, key value key) as the  *)
(*                 engine computes it; etid/ehash = what the engine really *)
(*                 used as store address; slots = every store cell the     *)
(*                 engine wrote for the query (column, discriminant, key)  *)
(*  {"k":"value","run":r,"phase":"shared"|"reopen","ty":..,"key":..,       *)
(*   "got_ty":..,"got_key":..,"tag":..,"executed":n}                       *)
(*        the engine's answer to the query: every harness value names the  *)
(*        (type, key) it was computed for and the run that computed it.    *)
(*        shared: one engine executes all queries; reopen: an engine over  *)
(*        the store that ANOTHER process wrote (executed = 0: answered     *)
(*        from that store).  An answer computed for another query means    *)
(*        two queries share a slot -> value_of_other_query.                *)
(*  {"k":"end",..}                                                         *)
(*                                                                         *)
(* Admit (one step per record): the record must be one the specification   *)
(* generates - <<term, tree>> is a pair of the universe of TypeId.tla for  *)
(* the same signature (env C14_SIG) - else `unknown_term`; id # scheme is  *)
(* counted as DRIFT (the code uses another scheme than the model: allowed  *)
(* by the property as long as it is injective), never as a violation.      *)
(* Then the facts <<namespace, id, owner>> of all runs  are scanned twice in *)
(* sorted order (one step per fact):                                       *)
(*   ScanIds     equal ids, different owners   -> *_collision              *)
(*   ScanOwners  equal owners, different ids   -> *_unstable               *)
(* namespaces: T type ids, Q query ids, S store slots.  All actions are    *)
(* total; violations are collected in `viol` and written to env OUT.       *)
(* (The position variable must not be called `i`: TLC then stops caching   *)
(* the constant definitions of TypeId.tla that bind an `i`.)               *)
(***************************************************************************)
EXTENDS TypeIdJson, SequencesExt

VARIABLES ph, pos, viol, drift, ndrift, stats
tvars == <<ph, pos, viol, drift, ndrift, stats, cur, via>>

Rec == ndJsonDeserialize(IOEnv.TRACE)

(* what the specification generates for this signature *)
SpecPairs == {<<Str(t), IdStr(IdOf[t])>> : t \in Universe}

OwnerOf(r) == IF r.k = "type" THEN r.term ELSE r.ty \o " " \o r.key
(* facts <<namespace, id, owner>> *)
FactsOf(r) ==
    CASE r.k = "type" -> {<<"T", r.id, OwnerOf(r)>>}
      [] r.k = "query" -> {<<"Q", r.tid \o ":" \o r.hash, OwnerOf(r)>>, <<"S", r.slots, OwnerOf(r)>>}
      [] OTHER -> {}
Facts == UNION {FactsOf(Rec[k]) : k \in DOMAIN Rec}
ById == SetToSeq(Facts)                                    \* sorted: equal <<ns, id>> are adjacent
ByOwner == SetToSeq({<<f[1], f[3], f[2]>> : f \in Facts})  \* sorted: equal <<ns, owner>> are adjacent
Steps(L) == IF L = 0 THEN 0 ELSE L - 1
KindOf(ns, what) ==
    (CASE ns = "T" -> "type_id" [] ns = "Q" -> "query_id" [] OTHER -> "store_slot") \o "_" \o what

V(kind, a, b, x) == [kind |-> kind, a |-> a, b |-> b, id |-> x]

TInit ==
    /\ ph = "admit" /\ pos = 1 /\ viol = <<>> /\ drift = <<>> /\ ndrift = 0
    /\ stats = [types |-> 0, queries |-> 0, values |-> 0, reopened |-> 0, reused |-> 0, ends |-> 0]
    /\ cur = NoTerm /\ via = "trace"

Ev == Rec[pos]

Admit ==
    /\ ph = "admit" /\ pos <= Len(Rec)
    /\ pos' = pos + 1 /\ ph' = ph
    /\ CASE Ev.k = "type" ->
              /\ stats' = [stats EXCEPT !.types = @ + 1]
              /\ viol' = IF <<Ev.term, Ev.tree>> \in SpecPairs THEN viol
                         ELSE Append(viol, V("unknown_term", Ev.term, Ev.tree, Ev.id))
              /\ ndrift' = IF Ev.id = Ev.scheme THEN ndrift ELSE ndrift + 1
              /\ drift' = IF Ev.id = Ev.scheme \/ Len(drift) >= 8 THEN drift
                          ELSE Append(drift, [term |-> Ev.term, id |-> Ev.id, scheme |-> Ev.scheme, run |-> Ev.run])
         [] Ev.k = "query" ->
              /\ stats' = [stats EXCEPT !.queries = @ + 1]
              /\ viol' = IF Ev.tid = Ev.etid /\ Ev.hash = Ev.ehash THEN viol
                         ELSE Append(viol, V("query_id_not_engine_address", OwnerOf(Ev), Ev.etid \o ":" \o Ev.ehash,
                                             Ev.tid \o ":" \o Ev.hash))
              /\ UNCHANGED <<drift, ndrift>>
         [] Ev.k = "value" ->
              /\ stats' = [stats EXCEPT !.values = @ + 1,
                                        !.reopened = @ + (IF Ev.phase = "reopen" THEN 1 ELSE 0),
                                        !.reused = @ + (IF Ev.phase = "reopen" /\ Ev.executed = 0 THEN 1 ELSE 0)]
              /\ viol' = IF Ev.got_ty = Ev.ty /\ Ev.got_key = Ev.key THEN viol
                         ELSE Append(viol, V("value_of_other_query", OwnerOf(Ev), Ev.got_ty \o " " \o Ev.got_key, Ev.phase))
              /\ UNCHANGED <<drift, ndrift>>
         [] OTHER ->
              /\ stats' = [stats EXCEPT !.ends = @ + 1]
              /\ UNCHANGED <<viol, drift, ndrift>>
    /\ UNCHANGED <<cur, via>>

AdmitDone ==
    /\ ph = "admit" /\ pos > Len(Rec)
    /\ ph' = "ids" /\ pos' = 1
    /\ UNCHANGED <<viol, drift, ndrift, stats, cur, via>>

(* distinct types / (type, key) pairs -> distinct ids, over all runs *)
ScanIds ==
    /\ ph = "ids" /\ pos < Len(ById)
    /\ pos' = pos + 1 /\ ph' = ph
    /\ viol' = IF ById[pos][1] = ById[pos + 1][1] /\ ById[pos][2] = ById[pos + 1][2]
               THEN Append(viol, V(KindOf(ById[pos][1], "collision"), ById[pos][3], ById[pos + 1][3], ById[pos][2]))
               ELSE viol
    /\ UNCHANGED <<drift, ndrift, stats, cur, via>>

ScanIdsDone ==
    /\ ph = "ids" /\ pos >= Len(ById)
    /\ ph' = "owners" /\ pos' = 1
    /\ UNCHANGED <<viol, drift, ndrift, stats, cur, via>>

(* the same type / (type, key) -> the same id in every process *)
ScanOwners ==
    /\ ph = "owners" /\ pos < Len(ByOwner)
    /\ pos' = pos + 1 /\ ph' = ph
    /\ viol' = IF ByOwner[pos][1] = ByOwner[pos + 1][1] /\ ByOwner[pos][2] = ByOwner[pos + 1][2]
               THEN Append(viol, V(KindOf(ByOwner[pos][1], "unstable"), ByOwner[pos][2], ByOwner[pos][3], ByOwner[pos + 1][3]))
               ELSE viol
    /\ UNCHANGED <<drift, ndrift, stats, cur, via>>

Finish ==
    /\ ph = "owners" /\ pos >= Len(ByOwner)
    /\ ph' = "done" /\ pos' = pos
    /\ JsonSerialize(IOEnv.OUT, [viol |-> viol, drift |-> drift, ndrift |-> ndrift, stats |-> stats,
                                 records |-> Len(Rec), facts |-> Len(ById), universe |-> Cardinality(Universe),
                                 recorded_terms |-> Cardinality({Rec[k].term : k \in {x \in DOMAIN Rec : Rec[x].k = "type"}})])
    /\ UNCHANGED <<viol, drift, ndrift, stats, cur, via>>

TNext == Admit \/ AdmitDone \/ ScanIds \/ ScanIdsDone \/ ScanOwners \/ Finish
TSpec == TInit /\ [][TNext]_tvars

TraceAccepted == TLCGet("stats").diameter = Len(Rec) + Steps(Len(ById)) + Steps(Len(ByOwner)) + 4
=============================================================================
