\* C14 design-level check: the scheme as coded over the small signature.
SPECIFICATION Spec
CONSTANTS
  Symbols <- SmallSymbols
  Profiles <- SmallProfiles
  Combine = "free"
  Forget <- NoForget
  Flatten = FALSE
  IgnoreSize = FALSE
  Emit = FALSE
INVARIANTS TypeOK Injective OrderSensitive NestingSensitive UniqueDecoding
POSTCONDITION Stats
ALIAS Shown
CHECK_DEADLOCK FALSE
