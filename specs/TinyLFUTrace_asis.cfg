SPECIFICATION TraceSpec
CONSTANTS
  FixUnpin = FALSE
  Recheck = TRUE
  Concurrent = FALSE
  DuelChoices = {TRUE, FALSE}
  MaxW = 100
  MaxVal = 1
  MaxPin = 1
  TrackRounds = FALSE
  Confs = {}
INVARIANT TraceInv
POSTCONDITION Report
CHECK_DEADLOCK FALSE
