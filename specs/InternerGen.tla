----------------------------- MODULE InternerGen -----------------------------
(***************************************************************************)
(* Behaviour generator for spec -> implementation replay (S->I) of C15.    *)
(*                                                                         *)
(* One thread drives Interner.tla sequentially: an operation (and a whole  *)
(* vacuum() call over every shard) runs to completion before the next one  *)
(* starts, so the behaviours are schedule-free and can be replayed on the  *)
(* real interner without hooks.  The thread's handles live in named        *)
(* variables hv[1..MaxHandles].  `hist` is part of the state: exhaustive   *)
(* exploration enumerates every history of MaxOps operations; each is      *)
(* printed as one JSON line.  After every operation the line carries the   *)
(* model's prediction: `pat` = the allocation id behind every handle       *)
(* variable (0 = empty; equal ids <=> same pointer), the variable that     *)
(* received a result (0 = get_from_hash returned None), and for a decode   *)
(* the allocation ids of the decoded leaves.                               *)
(* harness/src/bin/intern_replay.rs --mode replay executes the operations  *)
(* on the real code and compares pointer equalities with the prediction.   *)
(***************************************************************************)
EXTENDS Interner, Json

CONSTANTS MaxOps, Shapes   \* Shapes: sequences of handle-variable indices that may be encoded

VARIABLES hv, hist, cur, vq, done

gvars == <<vars, hv, hist, cur, vq, done>>

T == CHOOSE t \in Threads : TRUE
Empty == [p |-> 0, ty |-> 0, v |-> 0]
NoCur == [o |-> "none"]
Vars == 1..MaxHandles
FreeV == {i \in Vars : hv[i].p = 0}
LowFree == CHOOSE i \in FreeV : \A j \in FreeV : i <= j
Pat(h) == [i \in Vars |-> h[i].p]

RECURSIVE SeqOf(_)
SeqOf(S) == IF S = {} THEN <<>> ELSE LET x == CHOOSE y \in S : \A z \in S : (y[1] < z[1]) \/ (y[1] = z[1] /\ y[2] <= z[2]) IN <<x>> \o SeqOf(S \ {x})
AllShards == SeqOf(TableTypes \X Shards)

GInit ==
    /\ Init
    /\ hv = [i \in Vars |-> Empty]
    /\ hist = <<>>
    /\ cur = NoCur
    /\ vq = <<>>
    /\ done = FALSE

Ready == pc[T] = "idle" /\ vac.pc = "idle" /\ cur = NoCur /\ ~done /\ Len(hist) < MaxOps

GStart ==
    /\ Ready
    /\ \E ty \in Types, v \in Values :
        \/ StartIntern(T, ty, v) /\ cur' = [o |-> "intern", ty |-> ty, v |-> v]
        \/ StartGet(T, ty, v) /\ cur' = [o |-> "get", ty |-> ty, v |-> v]
    /\ UNCHANGED <<hv, hist, vq, done>>

NewHandle == CHOOSE h \in BagSet(held'[T]) : BagCount(held'[T], h) > BagCount(held[T], h)

(* internal steps of intern / get_from_hash; the last one completes the op *)
GLookupStep ==
    /\ cur # NoCur /\ cur.o \in {"intern", "get"}
    /\ Probe(T) \/ Recheck(T)
    /\ IF pc'[T] = "idle" THEN
           /\ cur' = NoCur
           /\ IF held'[T] # held[T] THEN
                  /\ hv' = [hv EXCEPT ![LowFree] = NewHandle]
                  /\ hist' = Append(hist, [o |-> cur.o, ty |-> cur.ty, v |-> cur.v, var |-> LowFree, pat |-> Pat(hv')])
              ELSE
                  /\ hv' = hv
                  /\ hist' = Append(hist, [o |-> cur.o, ty |-> cur.ty, v |-> cur.v, var |-> 0, pat |-> Pat(hv)])
       ELSE UNCHANGED <<cur, hv, hist>>
    /\ UNCHANGED <<vq, done>>

GClone(i) ==
    /\ Ready /\ hv[i].p # 0 /\ FreeV # {}
    /\ Clone(T, hv[i])
    /\ hv' = [hv EXCEPT ![LowFree] = hv[i]]
    /\ hist' = Append(hist, [o |-> "clone", src |-> i, var |-> LowFree, pat |-> Pat(hv')])
    /\ UNCHANGED <<cur, vq, done>>

GDrop(i) ==
    /\ Ready /\ hv[i].p # 0
    /\ DropHandle(T, hv[i])
    /\ hv' = [hv EXCEPT ![i] = Empty]
    /\ hist' = Append(hist, [o |-> "drop", var |-> i, pat |-> Pat(hv')])
    /\ UNCHANGED <<cur, vq, done>>

GEncode(items) ==
    /\ Ready /\ \A i \in 1..Len(items) : hv[items[i]].p # 0
    /\ Encode(T, [i \in 1..Len(items) |-> hv[items[i]]])
    /\ hist' = Append(hist, [o |-> "enc", items |-> items,
                             srcp |-> [i \in 1..Len(items) |-> hv[items[i]].p], pat |-> Pat(hv)])
    /\ UNCHANGED <<hv, cur, vq, done>>

GDecodeStart ==
    /\ Ready
    /\ DecodeStart(T)
    /\ cur' = [o |-> "dec", out |-> <<>>]
    /\ UNCHANGED <<hv, hist, vq, done>>

GDecodeStep ==
    /\ cur # NoCur /\ cur.o = "dec"
    /\ Probe(T) \/ Recheck(T) \/ DecFin(T) \/ DecDrop(T)
    /\ IF pc[T] = "decfin" THEN
           /\ cur' = [cur EXCEPT !.out = [i \in 1..Len(sess[T].out) |-> sess[T].out[i].p]]
           /\ hist' = hist
       ELSE IF pc'[T] = "idle" THEN
           /\ cur' = NoCur
           /\ hist' = Append(hist, [o |-> "dec", out |-> cur.out, err |-> err', pat |-> Pat(hv)])
       ELSE UNCHANGED <<cur, hist>>
    /\ UNCHANGED <<hv, vq, done>>

(* Interner::vacuum(): every shard of every type, one after the other      *)
GVacuumStart ==
    /\ Ready /\ VacuumOn
    /\ (IF hist = <<>> THEN TRUE ELSE hist[Len(hist)].o # "vacuum")
    /\ cur' = [o |-> "vacuum"]
    /\ vq' = AllShards
    /\ UNCHANGED <<vars, hv, hist, done>>

GVacuumStep ==
    /\ cur # NoCur /\ cur.o = "vacuum"
    /\ IF vac.pc = "idle" THEN
           IF vq # <<>> THEN
               /\ VacTry(Head(vq)[1], Head(vq)[2])
               /\ vq' = Tail(vq)
               /\ UNCHANGED <<cur, hist>>
           ELSE
               /\ cur' = NoCur
               /\ hist' = Append(hist, [o |-> "vacuum", pat |-> Pat(hv)])
               /\ UNCHANGED <<vars, vq>>
       ELSE VacStep /\ UNCHANGED <<cur, hist, vq>>
    /\ UNCHANGED <<hv, done>>

Emit ==
    /\ pc[T] = "idle" /\ vac.pc = "idle" /\ cur = NoCur /\ ~done /\ Len(hist) = MaxOps
    /\ PrintT(ToJson([ops |-> hist]))
    /\ done' = TRUE
    /\ UNCHANGED <<vars, hv, hist, cur, vq>>

GNext ==
    \/ GStart \/ GLookupStep
    \/ \E i \in Vars : GClone(i) \/ GDrop(i)
    \/ \E items \in Shapes : GEncode(items)
    \/ GDecodeStart \/ GDecodeStep
    \/ GVacuumStart \/ GVacuumStep
    \/ Emit

GSpec == GInit /\ [][GNext]_gvars

(* the generator only emits behaviours of the mechanism model that satisfy *)
(* the property                                                            *)
GenOK == Canonical /\ DecodeOK

NoShapes == {}
Shapes3 == {<<1, 1>>, <<1, 2>>, <<1, 2, 1>>, <<2, 1, 1>>}
=============================================================================
