SPECIFICATION Spec
CONSTANTS
  Pool <- PoolN
  Kids <- KidsN
  TypeOf <- TypeN
  HashOf <- HashN
  MaxEnc = 3
  Aux = TRUE
  AllowUnregistered = FALSE
  PinDecoded = FALSE
  SeenByHashOnly = FALSE
  Emitting = TRUE
CHECK_DEADLOCK FALSE
INVARIANTS
  FIFO
  PosOk
