\* as coded: the other invariants hold and every failing get carries the KF4 signature
SPECIFICATION Spec
CONSTANTS
  Keys = {k1, k2}
  Vals = {1}
  Clients = {c1, c2}
  MaxBatches = 2
  MaxOps = 3
  StaleFill = TRUE
  FillOverwrite = FALSE
  NoNegativeEntry = FALSE
  Gen = FALSE
SYMMETRY Sym
VIEW view
INVARIANTS RememberedAbsence StoreCurrent OnlyKnown
CHECK_DEADLOCK FALSE
