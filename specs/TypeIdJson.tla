----------------------------- MODULE TypeIdJson -----------------------------
(***************************************************************************)
(* C14 - the identifier scheme over the WIDE signature of the real side:   *)
(* every constructor stable_type_id/src/lib.rs implements, and the derived *)
(* types of harness/src/typeid.rs.  The signature is data: env C14_SIG     *)
(* names a JSON file {"symbols": [...], "profiles": [...]} written by      *)
(* checks/c14.py from tools/typeid_sig.json (fields as in TypeId.tla).     *)
(* With Emit = TRUE (TypeId_json.cfg) TLC checks the invariants on this    *)
(* universe and prints it; tools/gen_typeid_terms.py compiles the printed  *)
(* terms and trees into harness/src/bin/typeid_terms.rs.                   *)
(***************************************************************************)
EXTENDS TypeId, IOUtils

JsonSig == JsonDeserialize(IOEnv.C14_SIG)
JsonSymbols == JsonSig.symbols
JsonProfiles == JsonSig.profiles
NoForget == {}
=============================================================================
