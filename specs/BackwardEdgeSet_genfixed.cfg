SPECIFICATION Spec
CONSTANTS
  Threads = {1, 2}
  Elems <- ElemsDef
  Thr = 2
  Atomic = TRUE
  Emit = TRUE
CHECK_DEADLOCK FALSE
