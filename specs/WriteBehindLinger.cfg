\* expected counterexample: without shutdown a submitted batch may linger in the
\* open physical batch for ever (limit 2, one batch submitted)
SPECIFICATION FairSpecNoShutdown
CONSTANTS
  Threads = {t1, t2}
  Sers = {s1, s2}
  MaxBatch = 2
  Keys = {k1}
  MaxFill = 1
  MaxGroup = 2
  Gated = FALSE
  AllowGap = FALSE
  AllowPass = FALSE
  AbortOnGap = TRUE
  DefectTakeAny = FALSE
  DefectNoJoin = FALSE
INVARIANTS
  TypeOK
  NoCrashWithoutGap
PROPERTIES
  EventuallyDurable
CHECK_DEADLOCK FALSE
