\* only FoldCancel as coded (flush repaired): ReadYourWrites still violated (cancel / order shapes)
SPECIFICATION Spec
CONSTANTS
  Keys = {k1}
  Elems = {1, 2}
  Clients = {c1, c2}
  MaxBatches = 3
  MaxOps = 2
  T = 1
  LostInsert = FALSE
  FlushMax = FALSE
  FoldCancel = TRUE
  SpillCut = FALSE
  LateSnapshot = FALSE
  LateSnapFetch = FALSE
  SplitAppend = FALSE
  Gen = FALSE
  PrintCex = FALSE
SYMMETRY Sym
VIEW view
INVARIANTS ReadYourWrites
CHECK_DEADLOCK FALSE
