----------------------------- MODULE InternerMC -----------------------------
(* Model-checking instances of Interner.tla (constants that a .cfg file     *)
(* cannot express).                                                         *)
EXTENDS Interner

NoCodec == {}
Codec2 == {<<1, 2>>, <<1, 1>>, <<1, 2, 1>>}
=============================================================================
