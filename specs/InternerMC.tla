----------------------------- MODULE InternerMC -----------------------------
(* Model-checking instances of Interner.tla (definitions that a .cfg file   *)
(* cannot express).                                                         *)
EXTENDS Interner

NoCodec == {}
Codec3 == {<<1, 1>>, <<1, 2>>, <<1, 2, 1>>}

Sym == Permutations(Threads) \cup Permutations(Types) \cup Permutations(Values)
SymA == Sym \cup Permutations(Allocs)
SymC == Permutations(Types) \cup Permutations(Values) \cup Permutations(Allocs)
Codec1 == {<<1, 2, 1>>}
NoThreads == {}
=============================================================================
