SPECIFICATION Spec
CONSTANTS
  Readers = {1, 2}
  MaxSessions = 2
  QueriesPerReader = 2
  LockBeforeBump = TRUE
  DropSessions = TRUE
  EarlyRelease = TRUE
  Emit = FALSE
INVARIANT ReaderSeesSnap
VIEW View
CHECK_DEADLOCK FALSE
