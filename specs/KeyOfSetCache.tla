---------------------------- MODULE KeyOfSetCache ----------------------------
(***************************************************************************)
(* M-layer model of crates/storage/src/key_of_set_map/cache.rs             *)
(* (CacheKeyOfSetMap) composed with the commit / after-commit part of the  *)
(* write-behind manager.  One action per critical section of the code:     *)
(*                                                                         *)
(*   staging log   per key a BinaryHeap of epoch-stamped operations; the   *)
(*                 heap is modelled as its backing array (push = append +  *)
(*                 sift-up on the epoch, exactly as std does it), because  *)
(*                 get_snapshot folds the operations in ARRAY order.       *)
(*   apply_op      WStart (put_set into the batch, pin: dirty += updated)  *)
(*                 / WAppend (push into the log) / WUpdate (update the     *)
(*                 cached set only if present; InMemory -> TooLarge when   *)
(*                 it grows past the threshold T; 1024 in the code).       *)
(*   get_entry     Snapshot (fold of the log) / Probe (cache.get) /        *)
(*                 Flight (single flight leader or waiter) / Scan (store   *)
(*                 scan) / Install (build the entry from scan + snapshot,  *)
(*                 insert only if vacant, release the flight) / Read (the  *)
(*                 iteration: InMemory set, or store scan + snapshot for   *)
(*                 TooLarge, or the Spilled iterator after a fetch that    *)
(*                 exceeded T).                                            *)
(*   Commit        physical commit of the next batch in epoch order.       *)
(*   Notify        flush_staging: dirty -= 1, FlushUpTo(epoch).            *)
(*   EvictEntry / EvictLog   TinyLFU removes a cached set (never pinned)   *)
(*                 or an unpinned (dirty = 0) staging log; free actions.   *)
(*                                                                         *)
(* P-layer: per key `must` / `may` are the elements that are certainly /   *)
(* possibly members (they differ only while a write is in progress);       *)
(* a get collects the weakest bounds over its own duration and             *)
(* ReadYourWrites demands  gmust \subseteq result \subseteq gmay.          *)
(*                                                                         *)
(* Defect switches (TRUE = as the code is):                                *)
(*   LostInsert  Install inserts the set built from the OLD snapshot       *)
(*               although the log was appended to since (DESIGN 6#5).      *)
(*               FALSE: the leader retries when the log changed.           *)
(*   FlushMax    FlushUpTo(e) pops only while the MAXIMUM epoch <= e, so   *)
(*               committed operations stay in the log while a later one is *)
(*               pending.  FALSE: every operation with epoch <= e goes.    *)
(*   FoldCancel  the snapshot fold cancels insert/remove pairs in heap     *)
(*               array order (DESIGN 6#6 and the other order/cancel        *)
(*               shapes).  FALSE: last write per element wins.             *)
(*   SpillCut    the Spilled iterator ends as soon as an element of the    *)
(*               half-constructed set is staged-removed and the rest of    *)
(*               the scan and the staged additions are exhausted.          *)
(*               FALSE: it skips the removed element and continues.        *)
(*                                                                         *)
(* Mutation switches (FALSE = as the code is; TRUE = a plausible slip of    *)
(* the read path, used to GENERATE behaviours that would expose it: the    *)
(* counterexamples of the mutant model are replayed on the real code,      *)
(* where they must pass):                                                  *)
(*   LateSnapshot   get() takes the staging snapshot AFTER the store scan  *)
(*               was opened on the TooLarge / streaming path (and re-takes *)
(*               it after the fetch on the Spilled path): an operation     *)
(*               committed and flushed from the log in between is visible  *)
(*               in neither the scan nor the overlay.  The streaming read  *)
(*               then is two steps (StreamScan, StreamDone) so that the    *)
(*               commit and the flush can fall between them.               *)
(*   LateSnapFetch  fetch_entry takes the staging snapshot after its store *)
(*               scan (inside the single flight) instead of before the     *)
(*               probe: same hole, but the wrong set is installed.         *)
(*                                                                         *)
(* Deliberate deviations: the deferred-message queue of ConcurrentLog      *)
(* (try_write failure) is not modelled (messages are applied before the    *)
(* next snapshot in any case); callers obey the epoch rule per element;    *)
(* the scan order of the store is ascending element order.                 *)
(***************************************************************************)
EXTENDS Naturals, Integers, Sequences, FiniteSets, TLC, Json

CONSTANTS Keys, Elems, Clients, MaxBatches, MaxOps, T,
          LostInsert, FlushMax, FoldCancel, SpillCut,
          LateSnapshot, LateSnapFetch,   \* mutation switches (slips the code does NOT have)
          SplitAppend,   \* TRUE: pin and append of apply_op are separate steps
          Gen,
          PrintCex       \* TRUE: print the replayable history of every failing get

VARIABLES log,     \* [k -> heap array of [op, e, ep, n]]
          lpres,   \* [k -> the staging TinyLFU holds a log for k]
          dirty,   \* [k -> pin count of the log]
          lver,    \* [k -> appends so far]
          entry,   \* [k -> [st, set, taint]]
          db,      \* [k -> set of elements]
          batch,   \* sequence: batch[ep+1] = [st, owner, ops: k -> set of [e, op]]
          flight,  \* [k -> leader or -1]
          pc,      \* [c -> operation state]
          must, may,     \* P-layer reference, per key
          gmust, gmay,   \* P-layer bounds of the running get, per client
          nops, hist,
          viol     \* worst verdict of a finished get so far (model checking)

vars == <<log, lpres, dirty, lver, entry, db, batch, flight, pc, must, may, gmust, gmay, nops, hist, viol>>
view == <<log, lpres, dirty, lver, entry, db, batch, flight, pc, must, may, gmust, gmay, nops, viol>>

NoClient == -1
NoEntry == [st |-> "absent", set |-> {}, taint |-> {}]
Idle == [st |-> "idle", k |-> 0, e |-> 0, op |-> "", ep |-> 0,
         sa |-> {}, sr |-> {}, stag |-> {}, since |-> {},
         scan |-> {}, spilled |-> FALSE, ent |-> -1, est |-> "", eset |-> {}, etag |-> {},
         res |-> {}, tags |-> {}, ndb |-> 0, first |-> TRUE]

NextEpoch == Len(batch)
B(ep) == batch[ep + 1]

InitWith(keys, clients) ==
    /\ log = [k \in keys |-> <<>>]
    /\ lpres = [k \in keys |-> FALSE]
    /\ dirty = [k \in keys |-> 0]
    /\ lver = [k \in keys |-> 0]
    /\ entry = [k \in keys |-> NoEntry]
    /\ db = [k \in keys |-> {}]
    /\ batch = <<>>
    /\ flight = [k \in keys |-> NoClient]
    /\ pc = [c \in clients |-> Idle]
    /\ must = [k \in keys |-> {}]
    /\ may = [k \in keys |-> {}]
    /\ gmust = [c \in clients |-> {}]
    /\ gmay = [c \in clients |-> {}]
    /\ nops = [c \in clients |-> 0]
    /\ hist = <<>>
    /\ viol = 0

Init == InitWith(Keys, Clients)

(* back to the initial state (trace validation of concatenated runs) *)
ResetWith(keys, clients) ==
    /\ log' = [k \in keys |-> <<>>]
    /\ lpres' = [k \in keys |-> FALSE]
    /\ dirty' = [k \in keys |-> 0]
    /\ lver' = [k \in keys |-> 0]
    /\ entry' = [k \in keys |-> NoEntry]
    /\ db' = [k \in keys |-> {}]
    /\ batch' = <<>>
    /\ flight' = [k \in keys |-> NoClient]
    /\ pc' = [c \in clients |-> Idle]
    /\ must' = [k \in keys |-> {}]
    /\ may' = [k \in keys |-> {}]
    /\ gmust' = [c \in clients |-> {}]
    /\ gmay' = [c \in clients |-> {}]
    /\ nops' = [c \in clients |-> 0]
    /\ hist' = <<>>
    /\ viol' = 0

Log(step) == hist' = IF Gen THEN Append(hist, step) ELSE hist

(* ------------------------------------------------------- the staging log *)

Swap(a, i, j) == [a EXCEPT ![i] = a[j], ![j] = a[i]]

RECURSIVE SiftUp(_, _)
SiftUp(a, pos) ==
    IF pos = 1 THEN a
    ELSE LET par == pos \div 2 IN
         IF a[pos].ep <= a[par].ep THEN a ELSE SiftUp(Swap(a, pos, par), par)

Push(h, x) == SiftUp(Append(h, x), Len(h) + 1)

MaxEp(h) == h[1].ep   \* root of the max-heap

FlushUpTo(h, ep) ==
    IF FlushMax
    THEN IF h # <<>> /\ MaxEp(h) <= ep THEN <<>> ELSE h        \* pop while peek <= ep
    ELSE SelectSeq(h, LAMBDA x : x.ep > ep)

(* the fold of get_snapshot, in array order, with cancellation            *)
RECURSIVE FoldFrom(_, _, _, _)
FoldFrom(h, i, A, R) ==
    IF i > Len(h) THEN <<A, R>>
    ELSE LET x == h[i] IN
         IF x.op = "ins"
         THEN IF x.e \in R THEN FoldFrom(h, i + 1, A, R \ {x.e}) ELSE FoldFrom(h, i + 1, A \cup {x.e}, R)
         ELSE IF x.e \in A THEN FoldFrom(h, i + 1, A \ {x.e}, R) ELSE FoldFrom(h, i + 1, A, R \cup {x.e})

LogElems(h) == {h[i].e : i \in 1..Len(h)}
(* the last write to e recorded in the log (appends are numbered)         *)
LastOp(h, e) ==
    LET idx == {i \in 1..Len(h) : h[i].e = e}
        last == CHOOSE i \in idx : \A j \in idx : h[j].n <= h[i].n
    IN h[last].op
LastWins(h) == <<{e \in LogElems(h) : LastOp(h, e) = "ins"}, {e \in LogElems(h) : LastOp(h, e) = "rem"}>>

Snap(h) == IF FoldCancel THEN FoldFrom(h, 1, {}, {}) ELSE LastWins(h)

Committed(ep) == ep < NextEpoch /\ B(ep).st \in {"com", "not"}

(* signature of the overlay findings: elements whose folded state is not   *)
(* the last write; KF6 when a committed operation on the element is still  *)
(* in the log, FOLD when everything involved is still pending.             *)
SnapTags(h) ==
    LET s == Snap(h) lw == LastWins(h) IN
    {<<e, IF \E i \in 1..Len(h) : h[i].e = e /\ Committed(h[i].ep) THEN "KF6" ELSE "FOLD">> :
        e \in {x \in LogElems(h) : (x \in s[1]) # (x \in lw[1]) \/ (x \in s[2]) # (x \in lw[2])}}

(* ---------------------------------------------------------------- writes *)

NewBatch(c) ==
    /\ batch' = Append(batch, [st |-> "open", owner |-> c, ops |-> [k \in DOMAIN db |-> {}]])
    /\ Log([a |-> "new", c |-> c, b |-> NextEpoch])
    /\ UNCHANGED <<log, lpres, dirty, lver, entry, db, flight, pc, must, may, gmust, gmay, nops, viol>>

(* caller's side of the contract, per element *)
EpochRule(ep, k, e) ==
    /\ \A ep2 \in (ep + 1)..(NextEpoch - 1) : \A o \in B(ep2).ops[k] : o.e # e
    /\ \A x \in DOMAIN pc : ~(pc[x].st \in {"w_append", "w_update"} /\ pc[x].k = k /\ pc[x].e = e)

(* P-layer bookkeeping *)
PStart(k, op, e) ==
    /\ may' = IF op = "ins" THEN [may EXCEPT ![k] = @ \cup {e}] ELSE may
    /\ must' = IF op = "rem" THEN [must EXCEPT ![k] = @ \ {e}] ELSE must
    /\ gmay' = [x \in DOMAIN gmay |->
                  IF op = "ins" /\ pc[x].k = k /\ pc[x].st \notin {"idle", "w_append", "w_update"}
                  THEN gmay[x] \cup {e} ELSE gmay[x]]
    /\ gmust' = [x \in DOMAIN gmust |->
                  IF op = "rem" /\ pc[x].k = k /\ pc[x].st \notin {"idle", "w_append", "w_update"}
                  THEN gmust[x] \ {e} ELSE gmust[x]]

PEnd(k, op, e) ==
    /\ must' = IF op = "ins" THEN [must EXCEPT ![k] = @ \cup {e}] ELSE must
    /\ may' = IF op = "rem" THEN [may EXCEPT ![k] = @ \ {e}] ELSE may

(* put_set (batch local) + step 1 of apply_op: make sure the log exists    *)
(* and pin it if this is the batch's first write to the key.               *)
DoWStart(c, ep, k, op, e) ==
    /\ pc[c].st = "idle"
    /\ B(ep).st = "open" /\ B(ep).owner = c
    /\ EpochRule(ep, k, e)
    /\ LET upd == IF B(ep).ops[k] = {} THEN 1 ELSE 0 IN
        /\ batch' = [batch EXCEPT ![ep + 1].ops[k] = {o \in @ : o.e # e} \cup {[e |-> e, op |-> op]}]
        /\ dirty' = [dirty EXCEPT ![k] = IF lpres[k] THEN @ + upd ELSE upd]
        /\ lpres' = [lpres EXCEPT ![k] = TRUE]
    /\ IF SplitAppend
       THEN /\ pc' = [pc EXCEPT ![c] = [Idle EXCEPT !.st = "w_append", !.k = k, !.e = e, !.op = op, !.ep = ep]]
            /\ UNCHANGED <<log, lver>>
       ELSE /\ log' = [log EXCEPT ![k] = Push(@, [op |-> op, e |-> e, ep |-> ep, n |-> lver[k] + 1])]
            /\ lver' = [lver EXCEPT ![k] = @ + 1]
            /\ pc' = [x \in DOMAIN pc |->
                        IF x = c THEN [Idle EXCEPT !.st = "w_update", !.k = k, !.e = e, !.op = op, !.ep = ep]
                        ELSE IF pc[x].k = k /\ pc[x].st \in {"probe", "flight", "scan", "install"}
                             THEN [pc[x] EXCEPT !.since = @ \cup {e}]
                             ELSE pc[x]]
    /\ PStart(k, op, e)
    /\ UNCHANGED <<entry, db, flight, viol>>

WStart(c, ep, k, op, e) ==
    /\ DoWStart(c, ep, k, op, e)
    /\ nops' = [nops EXCEPT ![c] = @ + 1]
    /\ Log([a |-> op, c |-> c, b |-> ep, k |-> k, v |-> e])

(* step 1b: push the operation into the heap                               *)
WAppend(c) ==
    /\ pc[c].st = "w_append"
    /\ LET k == pc[c].k IN
        /\ log' = [log EXCEPT ![k] = Push(@, [op |-> pc[c].op, e |-> pc[c].e, ep |-> pc[c].ep, n |-> lver[k] + 1])]
        /\ lver' = [lver EXCEPT ![k] = @ + 1]
        /\ pc' = [x \in DOMAIN pc |->
                    IF x = c THEN [pc[x] EXCEPT !.st = "w_update"]
                    ELSE IF pc[x].k = k /\ pc[x].st \in {"probe", "flight", "scan", "install"}
                         THEN [pc[x] EXCEPT !.since = @ \cup {pc[c].e}]
                         ELSE pc[x]]
    /\ UNCHANGED <<lpres, dirty, entry, db, batch, flight, must, may, gmust, gmay, nops, hist, viol>>

(* step 2/3: update the cached set if there is one; threshold check        *)
WUpdate(c) ==
    /\ pc[c].st = "w_update"
    /\ LET k == pc[c].k
           e == pc[c].e
           ns == IF pc[c].op = "ins" THEN entry[k].set \cup {e} ELSE entry[k].set \ {e} IN
        /\ entry' = IF entry[k].st = "mem"
                    THEN IF Cardinality(ns) > T
                         THEN [entry EXCEPT ![k].st = "large", ![k].set = {}, ![k].taint = {}]
                         ELSE [entry EXCEPT ![k].set = ns, ![k].taint = {t \in @ : t[1] # e}]
                    ELSE entry
        /\ PEnd(k, pc[c].op, e)
    /\ pc' = [pc EXCEPT ![c] = Idle]
    /\ UNCHANGED <<log, lpres, dirty, lver, db, batch, flight, gmust, gmay, nops, hist, viol>>

Submit(c, ep) ==
    /\ pc[c].st = "idle"
    /\ B(ep).st = "open" /\ B(ep).owner = c
    /\ batch' = [batch EXCEPT ![ep + 1].st = "sub"]
    /\ Log([a |-> "submit", c |-> c, b |-> ep])
    /\ UNCHANGED <<log, lpres, dirty, lver, entry, db, flight, pc, must, may, gmust, gmay, nops, viol>>

(* ------------------------------------------------- background committer *)

ApplyOps(s, ops) == (s \ {o.e : o \in {x \in ops : x.op = "rem"}}) \cup {o.e : o \in {x \in ops : x.op = "ins"}}

Commit(ep) ==
    /\ B(ep).st = "sub"
    /\ \A e2 \in 0..(ep - 1) : B(e2).st \in {"com", "not"}
    /\ db' = [k \in DOMAIN db |-> ApplyOps(db[k], B(ep).ops[k])]
    /\ batch' = [batch EXCEPT ![ep + 1].st = "com"]
    /\ Log([a |-> "commit", b |-> ep])
    /\ UNCHANGED <<log, lpres, dirty, lver, entry, flight, pc, must, may, gmust, gmay, nops, viol>>

(* after_commit -> flush_staging for every key of the batch                *)
Notify(ep) ==
    /\ B(ep).st = "com"
    /\ \A e2 \in 0..(ep - 1) : B(e2).st = "not"
    /\ LET ks == {k \in DOMAIN db : B(ep).ops[k] # {} /\ lpres[k]} IN
        /\ dirty' = [k \in DOMAIN dirty |-> IF k \in ks THEN dirty[k] - 1 ELSE dirty[k]]
        /\ log' = [k \in DOMAIN log |-> IF k \in ks THEN FlushUpTo(log[k], ep) ELSE log[k]]
        \* (the append counter only orders entries of one log: restart it with an empty log)
        /\ lver' = [k \in DOMAIN lver |-> IF k \in ks /\ FlushUpTo(log[k], ep) = <<>> THEN 0 ELSE lver[k]]
    /\ batch' = [batch EXCEPT ![ep + 1].st = "not", ![ep + 1].ops = [k \in DOMAIN db |-> {}]]
    /\ UNCHANGED <<lpres, entry, db, flight, pc, must, may, gmust, gmay, nops, hist, viol>>

(* a reader that already holds the Arc of an evicted entry keeps reading   *)
(* that (now private) set: freeze a copy                                   *)
Detach(x, ks) ==
    IF pc[x].st = "read" /\ pc[x].ent = 1 /\ pc[x].k \in ks
    THEN [pc[x] EXCEPT !.ent = -1, !.est = entry[pc[x].k].st, !.eset = entry[pc[x].k].set,
                       !.etag = entry[pc[x].k].taint]
    ELSE pc[x]

EvictEntry(k) ==
    /\ entry[k].st # "absent"
    /\ entry' = [entry EXCEPT ![k] = NoEntry]
    /\ pc' = [x \in DOMAIN pc |-> Detach(x, {k})]
    /\ UNCHANGED <<log, lpres, dirty, lver, db, batch, flight, must, may, gmust, gmay, nops, hist, viol>>

EvictLog(k) ==
    /\ lpres[k] /\ dirty[k] <= 0
    /\ lpres' = [lpres EXCEPT ![k] = FALSE]
    /\ log' = [log EXCEPT ![k] = <<>>]
    /\ dirty' = [dirty EXCEPT ![k] = 0]
    /\ lver' = [lver EXCEPT ![k] = 0]
    /\ UNCHANGED <<entry, db, batch, flight, pc, must, may, gmust, gmay, nops, hist, viol>>

(* generator: a flood of other keys evicts every cached set                *)
EvictAll ==
    /\ \E k \in DOMAIN entry : entry[k].st # "absent"
    /\ entry' = [k \in DOMAIN entry |-> NoEntry]
    /\ pc' = [x \in DOMAIN pc |-> Detach(x, DOMAIN entry)]
    /\ Log([a |-> "evict"])
    /\ UNCHANGED <<log, lpres, dirty, lver, db, batch, flight, must, may, gmust, gmay, nops, viol>>

(* ------------------------------------------------------------------ get *)

SnapshotOf(c, k) ==
    LET h == IF lpres[k] THEN log[k] ELSE <<>>
        s == Snap(h) IN
    [pc[c] EXCEPT !.st = "probe", !.k = k, !.sa = s[1], !.sr = s[2], !.stag = SnapTags(h), !.since = {}]

GetStart(c, k) ==
    /\ pc[c].st = "idle"
    /\ pc' = [pc EXCEPT ![c] = [Idle EXCEPT !.st = "snap", !.k = k]]
    /\ gmust' = [gmust EXCEPT ![c] = must[k]]
    /\ gmay' = [gmay EXCEPT ![c] = may[k]]
    /\ nops' = [nops EXCEPT ![c] = @ + 1]
    /\ UNCHANGED <<log, lpres, dirty, lver, entry, db, batch, flight, must, may, hist, viol>>

Snapshot(c) ==
    /\ pc[c].st = "snap"
    /\ pc' = [pc EXCEPT ![c] = SnapshotOf(c, pc[c].k)]
    /\ UNCHANGED <<log, lpres, dirty, lver, entry, db, batch, flight, must, may, gmust, gmay, nops, hist, viol>>

(* model checking: a get starts with its first snapshot (one step)         *)
GetSnap(c, k) ==
    /\ pc[c].st = "idle"
    /\ pc' = [pc EXCEPT ![c] = SnapshotOf(c, k)]
    /\ gmust' = [gmust EXCEPT ![c] = must[k]]
    /\ gmay' = [gmay EXCEPT ![c] = may[k]]
    /\ nops' = [nops EXCEPT ![c] = @ + 1]
    /\ UNCHANGED <<log, lpres, dirty, lver, entry, db, batch, flight, must, may, hist, viol>>

Probe(c) ==
    /\ pc[c].st = "probe"
    /\ LET k == pc[c].k IN
        IF entry[k].st # "absent"
        THEN /\ pc' = [pc EXCEPT ![c].st = "read", ![c].ent = 1, ![c].est = "", ![c].eset = {}, ![c].etag = {},
                                 ![c].spilled = FALSE, ![c].first = ~Gen]
             /\ hist' = IF Gen /\ pc[c].first
                        THEN Append(hist, [a |-> "get", c |-> c, k |-> k, park |-> TRUE]) ELSE hist
        ELSE /\ pc' = [pc EXCEPT ![c].st = "flight"]
             /\ hist' = hist
    /\ UNCHANGED <<log, lpres, dirty, lver, entry, db, batch, flight, must, may, gmust, gmay, nops, viol>>

Flight(c) ==
    /\ pc[c].st = "flight"
    /\ LET k == pc[c].k IN
        IF flight[k] = NoClient
        THEN /\ flight' = [flight EXCEPT ![k] = c]
             /\ pc' = [pc EXCEPT ![c].st = "scan"]
             /\ hist' = hist
        ELSE /\ pc' = [pc EXCEPT ![c].st = "wait", ![c].first = ~Gen]
             /\ hist' = IF Gen /\ pc[c].first
                        THEN Append(hist, [a |-> "get", c |-> c, k |-> k, park |-> TRUE, wait |-> TRUE])
                        ELSE hist
             /\ UNCHANGED flight
    /\ UNCHANGED <<log, lpres, dirty, lver, entry, db, batch, must, may, gmust, gmay, nops, viol>>

Scan(c) ==
    /\ pc[c].st = "scan"
    /\ pc' = [pc EXCEPT ![c].st = "install", ![c].scan = db[pc[c].k],
                        ![c].ndb = IF Gen THEN @ + 1 ELSE @, ![c].first = ~Gen]
    /\ hist' = IF ~Gen THEN hist
               ELSE IF pc[c].first THEN Append(hist, [a |-> "get", c |-> c, k |-> pc[c].k, park |-> TRUE])
               ELSE Append(hist, [a |-> "await_park", c |-> c])
    /\ UNCHANGED <<log, lpres, dirty, lver, entry, db, batch, flight, must, may, gmust, gmay, nops, viol>>

(* fetch_entry after the scan + cache.entry(): build, insert if vacant,    *)
(* release the flight, notify the waiters (they start over).               *)
Install(c) ==
    /\ pc[c].st = "install"
    /\ LET k == pc[c].k
           big == Cardinality(pc[c].scan) > T
           \* (mutant) the snapshot is taken now, after the scan
           late == Snap(IF lpres[k] THEN log[k] ELSE <<>>)
           usa == IF LateSnapFetch THEN late[1] ELSE pc[c].sa
           usr == IF LateSnapFetch THEN late[2] ELSE pc[c].sr
           nset == IF big THEN {} ELSE (pc[c].scan \cup usa) \ usr
           \* elements whose membership in the built set ignores a later write
           lost == IF LateSnapFetch THEN {} ELSE {<<e, "KF5">> : e \in pc[c].since}
           ntag == IF big THEN {} ELSE pc[c].stag \cup lost
           retry == ~LostInsert /\ pc[c].since # {}
           vacant == entry[k].st = "absent" IN
        /\ entry' = IF vacant /\ ~retry
                    THEN [entry EXCEPT ![k] = [st |-> IF big THEN "large" ELSE "mem", set |-> nset, taint |-> ntag]]
                    ELSE entry
        /\ flight' = [flight EXCEPT ![k] = NoClient]
        /\ pc' = [x \in DOMAIN pc |->
                    IF x = c
                    THEN IF retry THEN [pc[x] EXCEPT !.st = "snap"]
                         ELSE [pc[x] EXCEPT !.st = "read", !.spilled = big,
                                            !.ent = IF vacant THEN 1 ELSE -1,
                                            !.est = IF vacant THEN "" ELSE IF big THEN "large" ELSE "mem",
                                            !.eset = IF vacant THEN {} ELSE nset,
                                            !.etag = IF vacant THEN {} ELSE ntag,
                                            !.sa = usa, !.sr = usr,
                                            !.scan = IF big THEN @ ELSE {}, !.since = {}]
                    ELSE IF pc[x].st = "wait" /\ pc[x].k = k THEN [pc[x] EXCEPT !.st = "snap"]
                    ELSE pc[x]]
    /\ Log([a |-> "release", c |-> c, park |-> TRUE])
    /\ UNCHANGED <<log, lpres, dirty, lver, db, batch, must, may, gmust, gmay, nops, viol>>

(* the scan order of the store: MemKv scans in the byte order of the       *)
(* postcard (LEB128) encoding of the element                               *)
ScanKey(e) == IF e < 128 THEN e ELSE 16384 + (e % 128) * 128 + (e \div 128)

(* the first n elements of s in scan order (written without recursion: TLC *)
(* re-evaluates state-dependent LET bodies and operator arguments on every *)
(* use, nested recursion over large sets would be exponential)             *)
FirstN(s, n) == IF Cardinality(s) <= n THEN s
                ELSE {x \in s : Cardinality({y \in s : ScanKey(y) < ScanKey(x)}) < n}

(* The Spilled iterator: H = the half-constructed set (first T+1 scanned   *)
(* elements), the rest of the scan, then the staged additions.  A staged-  *)
(* removed element of H makes it fall through to the rest / the additions; *)
(* when those are exhausted the iteration ends although H is not drained.  *)
SpillCutHappens(H, scan, sa, sr) ==
    SpillCut /\ Cardinality(H \cap sr) > Cardinality((scan \ H) \ sr) + Cardinality(sa)

SpillAcceptsH(H, scan, sa, sr, r) ==
    IF SpillCutHappens(H, scan, sa, sr)
    THEN (((scan \ H) \ sr) \cup sa) \subseteq r /\ r \subseteq ((scan \ sr) \cup sa)
    ELSE r = (scan \ sr) \cup sa

SpillTagsH(H, scan, sa, sr) ==
    IF SpillCutHappens(H, scan, sa, sr) THEN {<<e, "SPILL">> : e \in H \ sr} ELSE {}

SpillResults(scan, sa, sr) ==
    LET full == (scan \ sr) \cup sa IN
    {r \in SUBSET full : SpillAcceptsH(FirstN(scan, T + 1), scan, sa, sr, r)}

SpillTags(scan, sa, sr) == SpillTagsH(FirstN(scan, T + 1), scan, sa, sr)

(* the iteration: the possible outcomes [res, tags, dbr]                   *)
ReadOutcomes(c) ==
    LET k == pc[c].k
        overlay == (db[k] \ pc[c].sr) \cup pc[c].sa
        \* the Arc the reader holds is still the cached one (else: frozen copy)
        shared == pc[c].ent = 1
        kind == IF shared THEN entry[k].st ELSE pc[c].est IN
    IF pc[c].spilled
    THEN LET late == Snap(IF lpres[k] THEN log[k] ELSE <<>>)   \* (mutant) snapshot re-taken after the fetch
             usa == IF LateSnapshot THEN late[1] ELSE pc[c].sa
             usr == IF LateSnapshot THEN late[2] ELSE pc[c].sr IN
         {[res |-> r, tags |-> pc[c].stag \cup SpillTags(pc[c].scan, usa, usr), dbr |-> 0] :
            r \in SpillResults(pc[c].scan, usa, usr)}
    ELSE IF kind = "mem"
    THEN {[res |-> IF shared THEN entry[k].set ELSE pc[c].eset,
           tags |-> IF shared THEN entry[k].taint ELSE pc[c].etag, dbr |-> 0]}
    ELSE {[res |-> overlay, tags |-> pc[c].stag, dbr |-> 1]}   \* Streaming: store scan now + old snapshot

WrongOf(c, r) == (gmust[c] \ r) \cup (r \ gmay[c])

Read(c) ==
    /\ pc[c].st = "read"
    /\ \E o \in ReadOutcomes(c) :
         pc' = [pc EXCEPT ![c].st = "done", ![c].res = o.res, ![c].tags = o.tags,
                          ![c].ndb = IF Gen THEN @ + o.dbr ELSE @]
    /\ UNCHANGED <<log, lpres, dirty, lver, entry, db, batch, flight, must, may, gmust, gmay, nops, hist, viol>>

Wrong(c) == WrongOf(c, pc[c].res)
GetOk(c) == Wrong(c) = {}

Done(c) ==
    /\ pc[c].st = "done"
    /\ pc' = [pc EXCEPT ![c] = Idle]
    /\ gmust' = [gmust EXCEPT ![c] = {}]
    /\ gmay' = [gmay EXCEPT ![c] = {}]
    /\ Log([a |-> "res", c |-> c, k |-> pc[c].k, must |-> gmust[c], may |-> gmay[c], asis |-> pc[c].res,
            tags |-> {t \in pc[c].tags : t[1] \in Wrong(c)}, ndb |-> pc[c].ndb])
    /\ UNCHANGED <<log, lpres, dirty, lver, entry, db, batch, flight, must, may, nops, viol>>

(* model checking: iteration and return in one step; the verdict of the    *)
(* get is kept in `viol` (0 ok, 1 wrong with a known-finding signature on  *)
(* every wrong element, 2 wrong without)                                   *)
(* the streaming read of a cached TooLarge entry (not the Spilled one)      *)
Streaming(c) ==
    /\ ~pc[c].spilled
    /\ (IF pc[c].ent = 1 THEN entry[pc[c].k].st ELSE pc[c].est) = "large"

FinishGet(c, o, pre) ==
    LET w == WrongOf(c, o.res)
        v == IF w = {} THEN 0 ELSE IF \A e \in w : \E t \in o.tags : t[1] = e THEN 1 ELSE 2
        res == [a |-> "res", c |-> c, k |-> pc[c].k, must |-> gmust[c], may |-> gmay[c], asis |-> o.res,
                tags |-> {t \in o.tags : t[1] \in w}, ndb |-> pc[c].ndb + o.dbr] IN
    /\ viol' = IF v > viol THEN v ELSE viol
    /\ IF v > 0 /\ PrintCex
       THEN PrintT(ToJson([map |-> "set", clients |-> Cardinality(Clients), cex |-> "ReadYourWrites",
                           steps |-> (hist \o pre) \o <<res>>]))
       ELSE TRUE
    /\ hist' = IF Gen THEN (hist \o pre) \o <<res>> ELSE hist
    /\ pc' = [pc EXCEPT ![c] = Idle]
    /\ gmust' = [gmust EXCEPT ![c] = {}]
    /\ gmay' = [gmay EXCEPT ![c] = {}]
    /\ UNCHANGED <<log, lpres, dirty, lver, entry, db, batch, flight, must, may, nops>>

ReadDone(c) ==
    /\ pc[c].st = "read"
    /\ ~(LateSnapshot /\ Streaming(c))
    /\ \E o \in ReadOutcomes(c) : FinishGet(c, o, <<>>)

(* (mutant LateSnapshot) the store scan of the streaming read is opened ... *)
StreamScan(c) ==
    /\ LateSnapshot /\ pc[c].st = "read" /\ Streaming(c)
    /\ pc' = [pc EXCEPT ![c].st = "sread", ![c].scan = db[pc[c].k], ![c].ndb = IF Gen THEN @ + 1 ELSE @]
    /\ Log([a |-> "await_park", c |-> c])
    /\ UNCHANGED <<log, lpres, dirty, lver, entry, db, batch, flight, must, may, gmust, gmay, nops, viol>>

(* ... and only then the staging snapshot is taken and merged with it      *)
StreamDone(c) ==
    /\ pc[c].st = "sread"
    /\ LET k == pc[c].k
           late == Snap(IF lpres[k] THEN log[k] ELSE <<>>) IN
       FinishGet(c, [res |-> (pc[c].scan \ late[2]) \cup late[1], tags |-> {}, dbr |-> 0],
                 <<[a |-> "release", c |-> c, park |-> TRUE]>>)

(* --------------------------------------------------- model-checking Next *)

Busy(c) == pc[c].st \in {"snap", "probe", "flight", "scan", "read", "w_append", "w_update"}
NoPendingNotify == \A ep \in 0..(NextEpoch - 1) : B(ep).st # "com"
MayStep(c) == ~Gen \/ ((\A x \in Clients \ {c} : ~Busy(x)) /\ NoPendingNotify)
EnvMayStep == ~Gen \/ ((\A x \in Clients : ~Busy(x)) /\ NoPendingNotify)

OpenOf(c) == {ep \in 0..(NextEpoch - 1) : B(ep).st = "open" /\ B(ep).owner = c}

ClientNext(c) ==
    /\ MayStep(c)
    /\ \/ /\ pc[c].st = "idle" /\ OpenOf(c) = {} /\ NextEpoch < MaxBatches /\ nops[c] < MaxOps
          /\ NewBatch(c)
       \/ /\ nops[c] < MaxOps
          /\ \E ep \in OpenOf(c), k \in Keys, op \in {"ins", "rem"}, e \in Elems : WStart(c, ep, k, op, e)
       \/ WAppend(c) \/ WUpdate(c)
       \/ \E ep \in OpenOf(c) : Submit(c, ep)
       \/ /\ nops[c] < MaxOps
          /\ \E k \in Keys : GetSnap(c, k)
       \/ Snapshot(c) \/ Probe(c) \/ Flight(c) \/ Scan(c) \/ Install(c) \/ ReadDone(c)
       \/ StreamScan(c) \/ StreamDone(c)

EnvNext ==
    \/ /\ EnvMayStep
       /\ \/ \E ep \in 0..(NextEpoch - 1) : Commit(ep)
          \/ IF Gen THEN EvictAll ELSE \E k \in Keys : EvictEntry(k) \/ EvictLog(k)
    \/ \E ep \in 0..(NextEpoch - 1) : Notify(ep)

Terminal ==
    /\ \A c \in Clients : pc[c].st = "idle" /\ nops[c] = MaxOps
    /\ \A ep \in 0..(NextEpoch - 1) : B(ep).st = "not"

Emit ==
    /\ Gen /\ Terminal
    /\ hist # <<>> /\ hist[Len(hist)].a # "end"
    /\ PrintT(ToJson([map |-> "set", clients |-> Cardinality(Clients), steps |-> hist]))
    /\ hist' = Append(hist, [a |-> "end"])
    /\ UNCHANGED <<log, lpres, dirty, lver, entry, db, batch, flight, pc, must, may, gmust, gmay, nops, viol>>

Next == (\E c \in Clients : ClientNext(c)) \/ EnvNext \/ Emit

Spec == Init /\ [][Next]_vars

Sym == Permutations(Keys) \cup Permutations(Clients)

(* ------------------------------------------------------------ properties *)

ReadYourWrites == viol = 0

Settled(k, e) == (e \in must[k]) = (e \in may[k])   \* no write to (k, e) in progress

(* a cached in-memory set is the reference set                             *)
SetMatchesRef ==
    \A k \in Keys : entry[k].st = "mem" =>
        \A e \in Elems : (Settled(k, e) /\ \A c \in Clients : ~(pc[c].st = "w_update" /\ pc[c].k = k /\ pc[c].e = e))
                            => ((e \in entry[k].set) = (e \in must[k]))

(* store + staging overlay is the reference set: in particular a removed   *)
(* element is remembered as absent while the store still has it            *)
RememberedAbsence ==
    \A k \in Keys :
        LET s == Snap(IF lpres[k] THEN log[k] ELSE <<>>)
            overlay == (db[k] \ s[2]) \cup s[1] IN
        \A e \in Elems : (Settled(k, e) /\ \A c \in Clients : ~(pc[c].st = "w_append" /\ pc[c].k = k /\ pc[c].e = e))
                            => ((e \in overlay) = (e \in must[k]))

(* the log of a key is pinned while a batch that wrote the key is pending  *)
LogPinned ==
    \A k \in Keys : (\E ep \in 0..(NextEpoch - 1) : B(ep).st \in {"open", "sub"} /\ B(ep).ops[k] # {})
                        => lpres[k] /\ dirty[k] > 0

(* every failure of the model as coded carries a known-finding signature   *)
OnlyKnown == viol < 2
=============================================================================
