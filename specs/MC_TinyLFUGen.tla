--------------------------- MODULE MC_TinyLFUGen ---------------------------
EXTENDS TinyLFUGen
Strats == {"Poll", "Notify"}
\* real threshold and read shard size; capacities 1..3; 4 keys
GenConfs == {ConfOf(c, s, 4, 32, 16) : c \in 1..3, s \in Strats}
GenConfs1 == {ConfOf(c, s, 4, 32, 16) : c \in 1..2, s \in Strats}
GenWit == {ConfOf(1, "Notify", 3, 32, 1)}
GenPoll == {ConfOf(1, "Poll", 4, 32, 1)}
Both == {TRUE, FALSE}
Tie == {FALSE}
=============================================================================
