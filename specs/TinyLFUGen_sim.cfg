SPECIFICATION GSpec
CONSTANTS
  FixUnpin = FALSE
  Recheck = TRUE
  Concurrent = FALSE
  DuelChoices <- Both
  MaxW = 40
  MaxVal = 1
  MaxPin = 2
  TrackRounds = FALSE
  Confs <- GenConfs
  MaxOps = 24
  EmitWhen = "len"
  FlushWeight = 6
CONSTRAINT GConstraint

CHECK_DEADLOCK FALSE
