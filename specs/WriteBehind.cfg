\* exhaustive safety configuration (quick tier): 2 submitters, 2 serializers,
\* 3 batches over 2 overlapping keys, gated store, gaps allowed
SPECIFICATION Spec
CONSTANTS
  Threads = {t1, t2}
  Sers = {s1, s2}
  MaxBatch = 3
  Keys = {k1, k2}
  MaxFill = 1
  MaxGroup = 2
  Gated = TRUE
  AllowGap = TRUE
  AllowPass = FALSE
  AbortOnGap = TRUE
  DefectTakeAny = FALSE
  DefectNoJoin = FALSE
SYMMETRY Symm
INVARIANTS
  TypeOK
  NoLossNoDup
  CommitOrder
  ExactlyOnce
  GroupIsContiguous
  DbIsFoldOfPrefix
  FinalContent
  DropDrains
  DropDrainsStrict
  NotifyAfterDurable
  StallOnlyBehindGap
  HeldBackBehindGap
  NoCrashWithoutGap
CHECK_DEADLOCK FALSE
