--------------------------- MODULE StableHashLenCode ---------------------------
(***************************************************************************)
(* C13 - the LENGTH ENCODING behind "unambiguous byte stream".             *)
(*                                                                         *)
(* Every variable-length value (str, String, Vec, slices, arrays, VecDeque,*)
(* LinkedList, CStr, OsStr, Path, BTreeMap/Set, the unordered collections) *)
(* is framed as                                                            *)
(*        write_length_prefix(len) ++ payload                              *)
(* (crates/stable_hash/src/lib.rs, `StableHasher::write_length_prefix`, a  *)
(* DEFAULT TRAIT METHOD, and its callers).  The hasher sees bytes only, no *)
(* write boundaries.  What the framing needs from the encoder              *)
(*        Enc : length -> byte string                                      *)
(* is stated here explicitly:                                              *)
(*                                                                         *)
(*   PrefixCode   the set {Enc(n) : n a length} is a PREFIX CODE: for      *)
(*                n # m, Enc(n) is not a prefix of Enc(m) (this includes   *)
(*                Enc(n) # Enc(m)).  A reader of the stream then knows     *)
(*                where the length ends without looking at the payload,    *)
(*                i.e. concatenated framing is uniquely decodable.         *)
(*                                                                         *)
(* and the consequence for composite values is derived (checked by TLC on  *)
(* every instance, exhaustively within the bounds):                        *)
(*                                                                         *)
(*   Derivation   PrefixCode => UniquelyDecodable /\ StreamPrefixFree      *)
(*   UniquelyDecodable   the stream of a composite value (a pair of byte   *)
(*                sequences `(Vec<u8>, Vec<u8>)` / `(String, String)`, a   *)
(*                nested `Vec<Vec<u8>>`) decodes to that value only - two  *)
(*                unequal values of one type never feed the same bytes;    *)
(*   StreamPrefixFree    no other value's stream is a prefix of it (the    *)
(*                inductive step: the type can itself be a field/element). *)
(*                                                                         *)
(* The payload bytes are arbitrary, so PrefixCode is also NECESSARY: if    *)
(* Enc(n) is a prefix of Enc(m) = Enc(n) ++ t, a value whose first         *)
(* sequence has n elements starting with the bytes t collides with one     *)
(* whose first sequence has m elements.  TLC produces that pair for the    *)
(* broken instances below.                                                 *)
(*                                                                         *)
(* The encoder is a CONSTANT OPERATOR; instances (cfg: `Enc <- ...`):      *)
(*   EncFixed            W bytes little endian - AS THE CODE IS            *)
(*                       (write_usize, W = 8)                              *)
(*   EncCompact          n < Esc: one byte; else Esc ++ LE(n, W)  (sound)  *)
(*   EncCompactOffByOne  n <= Esc: one byte; else Esc ++ LE(n, W)          *)
(*                       the length Esc is written as the escape byte      *)
(*                       itself: NOT a prefix code                         *)
(*   EncVarNoTerm        base-B digits, least significant first, as many   *)
(*                       as needed, no terminator / continuation mark:     *)
(*                       NOT a prefix code                                 *)
(*   EncVarCont          base-B/2 digits with a continuation flag (LEB128  *)
(*                       scaled down; needs B >= 4)               (sound)  *)
(*   EncTruncated        one byte, n mod B (`len as u8`): not injective    *)
(* Scaled down: a byte has B values (256 in the code), the escape byte is  *)
(* Esc = B - 1 (0xFF), the wide field has W bytes (8).  The exhaustive     *)
(* range of lengths 0 .. B^W - 1 and of composite values with sequences up *)
(* to MaxLen >= Esc + 1 elements includes the boundary Esc / Esc + 1       *)
(* (255 / 256 in the code).                                                *)
(*                                                                         *)
(* The machine builds ONE composite value by pushes; the invariants run    *)
(* the DECODER (all ways to read the value's stream back) on every         *)
(* reachable value.  Design level only: the real encoder is judged by      *)
(* StableHashLenTrace.tla on bytes recorded from the real code.            *)
(***************************************************************************)
EXTENDS Integers, Sequences, FiniteSets, TLC

CONSTANTS B,         \* number of byte values; bytes are 0 .. B-1
          W,         \* bytes of the wide length field
          MaxLen,    \* bound on every byte sequence of a composite value
          MaxOuter,  \* bound on the outer length of the nested shape
          Shapes,    \* subset of {"pair", "nested"}
          Enc(_)     \* the length encoder under examination

VARIABLES shape, v
vars == <<shape, v>>

Byte == 0..(B - 1)
Esc == B - 1
Lens == 0..(B^W - 1)      \* every length the wide field can hold

RECURSIVE LE(_, _)
LE(n, w) == IF w = 0 THEN <<>> ELSE <<n % B>> \o LE(n \div B, w - 1)

(* ------------------------- encoder instances --------------------------- *)
EncFixed(n) == LE(n, W)
EncCompact(n) == IF n < Esc THEN <<n>> ELSE <<Esc>> \o LE(n, W)
EncCompactOffByOne(n) == IF n <= Esc THEN <<n>> ELSE <<Esc>> \o LE(n, W)
RECURSIVE EncVarNoTerm(_)
EncVarNoTerm(n) == IF n < B THEN <<n>> ELSE <<n % B>> \o EncVarNoTerm(n \div B)
Half == B \div 2
RECURSIVE EncVarCont(_)
EncVarCont(n) == IF n < Half THEN <<n>> ELSE <<Half + (n % Half)>> \o EncVarCont(n \div Half)
EncTruncated(n) == <<n % B>>

(* ------------------------------ prefix code ---------------------------- *)
IsPrefix(s, t) == Len(s) <= Len(t) /\ SubSeq(t, 1, Len(s)) = s
Drop(s, k) == SubSeq(s, k + 1, Len(s))

IsPrefixCode(E(_), L) == \A n, m \in L : n # m => ~IsPrefix(E(n), E(m))

(* pairs that break it (shown in the counterexample through the ALIAS)     *)
PrefixPairs == {p \in Lens \X Lens : p[1] # p[2] /\ IsPrefix(Enc(p[1]), Enc(p[2]))}
PrefixCode == IsPrefixCode(Enc, Lens)

(* ------------------------------- streams ------------------------------- *)
RECURSIVE Cat(_)
Cat(ss) == IF ss = <<>> THEN <<>> ELSE Head(ss) \o Cat(Tail(ss))

Frame(a) == Enc(Len(a)) \o a       \* Vec<u8>, String, [u8], ...
Stream(sh, x) ==
    IF sh = "pair" THEN Frame(x[1]) \o Frame(x[2])             \* (Vec<u8>, Vec<u8>)
    ELSE Enc(Len(x)) \o Cat([i \in DOMAIN x |-> Frame(x[i])])  \* Vec<Vec<u8>>

(* ------------------------------- decoder ------------------------------- *)
(* every way to read one framed sequence off the front of s:               *)
(* {<<a, rest>>}; with a prefix code there is at most one                  *)
ReadFrame(s) ==
    {<<SubSeq(s, Len(Enc(n)) + 1, Len(Enc(n)) + n), Drop(s, Len(Enc(n)) + n)>> :
        n \in {k \in Lens : IsPrefix(Enc(k), s) /\ Len(s) >= Len(Enc(k)) + k}}

RECURSIVE ReadFrames(_, _)
ReadFrames(s, k) ==     \* k frames: {<<<<a1..ak>>, rest>>}
    IF k = 0 THEN {<<<<>>, s>>}
    ELSE UNION {{<<(<<f[1]>> \o g[1]), g[2]>> : g \in ReadFrames(f[2], k - 1)} : f \in ReadFrame(s)}

(* all values of the shape whose stream is a PREFIX of s, with the rest    *)
Read(sh, s) ==
    IF sh = "pair" THEN ReadFrames(s, 2)
    ELSE UNION {ReadFrames(Drop(s, Len(Enc(n))), n) :
                    n \in {k \in Lens : IsPrefix(Enc(k), s)}}

Decodings(sh, s) == {r[1] : r \in {q \in Read(sh, s) : q[2] = <<>>}}
PrefixDecodings(sh, s) == {r[1] : r \in Read(sh, s)}

(* ------------------------------- machine ------------------------------- *)
Init == /\ shape \in Shapes
        /\ v = IF shape = "pair" THEN <<<<>>, <<>>>> ELSE <<>>

PushA == /\ shape = "pair" /\ Len(v[1]) < MaxLen
         /\ \E x \in Byte : v' = <<Append(v[1], x), v[2]>>
         /\ UNCHANGED shape
PushB == /\ shape = "pair" /\ Len(v[2]) < MaxLen
         /\ \E x \in Byte : v' = <<v[1], Append(v[2], x)>>
         /\ UNCHANGED shape
PushOuter == /\ shape = "nested" /\ Len(v) < MaxOuter
             /\ v' = Append(v, <<>>)
             /\ UNCHANGED shape
PushInner == /\ shape = "nested" /\ v # <<>> /\ Len(v[Len(v)]) < MaxLen
             /\ \E x \in Byte : v' = [v EXCEPT ![Len(v)] = Append(@, x)]
             /\ UNCHANGED shape

Next == PushA \/ PushB \/ PushOuter \/ PushInner
Spec == Init /\ [][Next]_vars

(* ------------------------------ invariants ----------------------------- *)
BSeq == UNION {[1..k -> Byte] : k \in 0..MaxLen}
TypeOK == /\ shape \in Shapes
          /\ IF shape = "pair" THEN v \in BSeq \X BSeq
             ELSE Len(v) <= MaxOuter /\ \A i \in DOMAIN v : v[i] \in BSeq

S == Stream(shape, v)
UniquelyDecodable == Decodings(shape, S) = {v}
StreamPrefixFree == PrefixDecodings(shape, S) = {v}
Derivation == PrefixCode => (UniquelyDecodable /\ StreamPrefixFree)
(* the decoder is not vacuous: it always recovers the value itself         *)
DecoderSound == v \in Decodings(shape, S)

(* shown in error traces (cfg: ALIAS Show)                                 *)
Show == [shape |-> shape, value |-> v, stream |-> S,
         decodings |-> Decodings(shape, S),
         n_decodings |-> Cardinality(Decodings(shape, S)),
         prefix_decodings |-> PrefixDecodings(shape, S),
         enc_not_prefix_free |-> PrefixPairs]
=============================================================================
