SPECIFICATION GSpec
CONSTANTS
  Threads = {1,2}
  Sers = {1,2}
  MaxBatch = 3
  Keys = {1,2}
  MaxFill = 1
  MaxGroup = 2
  Gated = FALSE
  AllowGap = TRUE
  AllowPass = FALSE
  MaxPass = 0
  MinDrop = 2
  Eager = FALSE
  AbortOnGap = TRUE
  DefectTakeAny = FALSE
  DefectNoJoin = FALSE
INVARIANT GenInv
CHECK_DEADLOCK FALSE
