\* mutant LateSnapFetch (fetch_entry takes the snapshot after its scan), everything else repaired: TLC must report ReadYourWrites violated
SPECIFICATION Spec
CONSTANTS
  Keys = {k1}
  Elems = {1, 2}
  Clients = {c1, c2}
  MaxBatches = 3
  MaxOps = 2
  T = 1
  LostInsert = FALSE
  FlushMax = FALSE
  FoldCancel = FALSE
  SpillCut = FALSE
  LateSnapshot = FALSE
  LateSnapFetch = TRUE
  SplitAppend = FALSE
  Gen = FALSE
  PrintCex = FALSE
SYMMETRY Sym
VIEW view
INVARIANTS ReadYourWrites
CHECK_DEADLOCK FALSE
