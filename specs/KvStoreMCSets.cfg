\* exhaustive: one key-of-set column with a lazily drained iterator, <= 3 ops
SPECIFICATION Spec
CONSTANTS
  WCols = {}
  SCols = {"S1"}
  Keys = {"K1", "K2"}
  VTypes = {}
  Vals = {}
  Elems = {"E1", "E2"}
  MaxBatches = 2
  MaxBufs = 0
  MaxIters = 1
  MaxOps = 3
  AtomicCommit = TRUE
  SnapshotScan = TRUE
  Alias = {}
  TrackTouch = FALSE
  MisTag = {}
  BufOrder = "seq"
INVARIANTS TypeOK ReadsLastCommitted ScansExactMembers IterSound ResultsIgnoreTouched OwnFamilyOnly BufferIsSequence
PROPERTY OnlyCommitChanges
CHECK_DEADLOCK FALSE
