\* only LostInsert as coded: TLC must report ReadYourWrites violated (finding #5)
SPECIFICATION Spec
CONSTANTS
  Keys = {k1}
  Elems = {1, 2}
  Clients = {c1, c2}
  MaxBatches = 3
  MaxOps = 2
  T = 1
  LostInsert = TRUE
  FlushMax = FALSE
  FoldCancel = FALSE
  SpillCut = FALSE
  LateSnapshot = FALSE
  LateSnapFetch = FALSE
  SplitAppend = FALSE
  Gen = FALSE
  PrintCex = FALSE
SYMMETRY Sym
VIEW view
INVARIANTS ReadYourWrites
CHECK_DEADLOCK FALSE
