\* exhaustive enumeration of the "first touch after open" behaviours (breadth-first, one JSON line per behaviour)
SPECIFICATION FTSpec
CONSTANTS
  WCols = {"W1", "W2"}
  SCols = {"S1", "S2"}
  Keys <- GenKeys
  VTypes <- GenVTypes
  Elems <- GenElems
  Vals = {1, 2}
  MaxBatches = 1
  MaxBufs = 1
  MaxIters = 0
  MaxOps = 1000000
  AtomicCommit = TRUE
  SnapshotScan = TRUE
  Alias = {}
  TrackTouch = TRUE
  MisTag = {}
  BufOrder = "seq"
INVARIANTS TypeOK ReadsLastCommitted ScansExactMembers ResultsIgnoreTouched OwnFamilyOnly FTFirstTouch FTBufferedUntouched
CHECK_DEADLOCK FALSE
