\* MUTATION (not the code as shipped): consume_serialization_buffer appends the operations of a buffer
\* grouped by column, in an arbitrary order inside a column (unstable sort by column family)
\* -> two writes to one cell in one buffer can be applied backwards: ReadsLastCommitted / ScansExactMembers violated
SPECIFICATION Spec
CONSTANTS
  WCols = {"W1"}
  SCols = {"S1"}
  Keys = {"K1"}
  VTypes = {"V1"}
  Vals = {1, 2}
  Elems = {"E1"}
  MaxBatches = 1
  MaxBufs = 1
  MaxIters = 0
  MaxOps = 3
  AtomicCommit = TRUE
  SnapshotScan = TRUE
  Alias = {}
  TrackTouch = FALSE
  MisTag = {}
  BufOrder = "bycol"
INVARIANTS TypeOK ReadsLastCommitted ScansExactMembers
CHECK_DEADLOCK FALSE
