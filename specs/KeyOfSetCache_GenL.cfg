\* behaviour generator with a small threshold (see KeyOfSetCache_CexL.cfg)
SPECIFICATION Spec
CONSTANTS
  Keys = {0}
  Elems = {1, 2}
  Clients = {1, 2}
  MaxBatches = 4
  MaxOps = 6
  T = 1
  LostInsert = TRUE
  FlushMax = TRUE
  FoldCancel = TRUE
  SpillCut = TRUE
  LateSnapshot = FALSE
  LateSnapFetch = FALSE
  SplitAppend = FALSE
  Gen = TRUE
  PrintCex = FALSE
CHECK_DEADLOCK FALSE
