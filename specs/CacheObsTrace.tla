--------------------------- MODULE CacheObsTrace ---------------------------
(***************************************************************************)
(* P-layer judge for property C09: validates recorded executions of the    *)
(* real CacheSingleMap / CacheDynamicMap / CacheKeyOfSetMap (ndjson, env   *)
(* TRACE, written by harness/src/bin/cache_replay.rs) against the          *)
(* reference map.  The trace is one total order of events; an operation    *)
(* is a start event and an end event:                                      *)
(*    ws / we   insert, remove (or a range insert `insr`)                  *)
(*    gs / ge   get with its result                                        *)
(* Writes to one key (one element of one set) never overlap (the drivers   *)
(* guarantee it and the spec checks it), so the reference value of a key   *)
(* is a set of candidates that is a singleton whenever no write is in      *)
(* progress.  A get may return any value that was a candidate at some      *)
(* instant between its start and its end: a read that starts after a       *)
(* write completed must reflect it, overlapping operations linearise       *)
(* either way.  For a single client this is exact equality with the        *)
(* reference map.  Sets are judged per element (`must` / `may`), results   *)
(* are compared as sets.                                                   *)
(* One event per step, every action total: the whole trace is consumed and *)
(* all violations are collected and written to env OUT.                    *)
(***************************************************************************)
EXTENDS Naturals, Integers, Sequences, FiniteSets, TLC, Json, IOUtils

Rec == ndJsonDeserialize(IOEnv.TRACE)

KeyRange == 0..15
ClientRange == 0..15
Absent == -1

VARIABLES l, done,
          isset,        \* the run drives a key-of-set map
          cand,         \* wide: [k -> candidate values]
          must, may,    \* set: [k -> elements certainly / possibly present]
          gk,           \* [c -> key of the running get, -1 if none]
          gal,          \* wide: [c -> values the running get may return]
          gmu, gma,     \* set: bounds of the running get
          wip,          \* writes in progress: set of <<k, e>> (e = 0 for wide)
          run,          \* id of the current run
          viol, stats

vars == <<l, done, isset, cand, must, may, gk, gal, gmu, gma, wip, run, viol, stats>>

ZeroStats == [runs |-> 0, writes |-> 0, gets |-> 0, gets_store |-> 0, gets_overlapping |-> 0,
              commits |-> 0, floods |-> 0, panics |-> 0]

Fresh ==
    /\ cand' = [k \in KeyRange |-> {Absent}]
    /\ must' = [k \in KeyRange |-> {}]
    /\ may' = [k \in KeyRange |-> {}]
    /\ gk' = [c \in ClientRange |-> -1]
    /\ gal' = [c \in ClientRange |-> {}]
    /\ gmu' = [c \in ClientRange |-> {}]
    /\ gma' = [c \in ClientRange |-> {}]
    /\ wip' = {}

Init ==
    /\ l = 1 /\ done = FALSE /\ isset = FALSE /\ run = 0
    /\ cand = [k \in KeyRange |-> {Absent}]
    /\ must = [k \in KeyRange |-> {}]
    /\ may = [k \in KeyRange |-> {}]
    /\ gk = [c \in ClientRange |-> -1]
    /\ gal = [c \in ClientRange |-> {}]
    /\ gmu = [c \in ClientRange |-> {}]
    /\ gma = [c \in ClientRange |-> {}]
    /\ wip = {}
    /\ viol = <<>>
    /\ stats = ZeroStats

Ev == Rec[l]
Is(e) == l <= Len(Rec) /\ Ev.e = e
Consume == l' = l + 1 /\ done' = done

V(kind, k, got, a, b) == [l |-> l, run |-> run, kind |-> kind, k |-> k, got |-> got, a |-> a, b |-> b]

StartRun ==
    /\ Is("run")
    /\ isset' = (Ev.map = "set")
    /\ run' = Ev.id
    /\ Fresh
    /\ stats' = [stats EXCEPT !.runs = @ + 1]
    /\ UNCHANGED viol
    /\ Consume

(* elements written by a write event *)
WElems(ev) == IF ev.op = "insr" THEN ev.v..(ev.hi - 1) ELSE {ev.v}
WVal(ev) == IF ev.op = "rem" THEN Absent ELSE ev.v
WKeys(ev) == IF isset THEN {<<ev.k, e>> : e \in WElems(ev)} ELSE {<<ev.k, 0>>}

WriteStart ==
    /\ Is("ws")
    /\ LET k == Ev.k IN
        /\ viol' = IF WKeys(Ev) \cap wip # {}
                   THEN Append(viol, V("harness_overlapping_writes", k, 0, 0, 0)) ELSE viol
        /\ wip' = wip \cup WKeys(Ev)
        /\ IF isset
           THEN /\ may' = IF Ev.op = "rem" THEN may ELSE [may EXCEPT ![k] = @ \cup WElems(Ev)]
                /\ must' = IF Ev.op = "rem" THEN [must EXCEPT ![k] = @ \ WElems(Ev)] ELSE must
                /\ gma' = [c \in ClientRange |->
                             IF gk[c] = k /\ Ev.op # "rem" THEN gma[c] \cup WElems(Ev) ELSE gma[c]]
                /\ gmu' = [c \in ClientRange |->
                             IF gk[c] = k /\ Ev.op = "rem" THEN gmu[c] \ WElems(Ev) ELSE gmu[c]]
                /\ UNCHANGED <<cand, gal>>
           ELSE /\ cand' = [cand EXCEPT ![k] = @ \cup {WVal(Ev)}]
                /\ gal' = [c \in ClientRange |-> IF gk[c] = k THEN gal[c] \cup {WVal(Ev)} ELSE gal[c]]
                /\ UNCHANGED <<must, may, gmu, gma>>
    /\ UNCHANGED <<isset, gk, run, stats>>
    /\ Consume

WriteEnd ==
    /\ Is("we")
    /\ LET k == Ev.k IN
        /\ wip' = wip \ WKeys(Ev)
        /\ IF isset
           THEN /\ must' = IF Ev.op = "rem" THEN must ELSE [must EXCEPT ![k] = @ \cup WElems(Ev)]
                /\ may' = IF Ev.op = "rem" THEN [may EXCEPT ![k] = @ \ WElems(Ev)] ELSE may
                /\ UNCHANGED cand
           ELSE /\ cand' = [cand EXCEPT ![k] = {WVal(Ev)}]
                /\ UNCHANGED <<must, may>>
    /\ stats' = [stats EXCEPT !.writes = @ + 1]
    /\ UNCHANGED <<isset, gk, gal, gmu, gma, run, viol>>
    /\ Consume

GetStart ==
    /\ Is("gs")
    /\ gk' = [gk EXCEPT ![Ev.c] = Ev.k]
    /\ gal' = [gal EXCEPT ![Ev.c] = cand[Ev.k]]
    /\ gmu' = [gmu EXCEPT ![Ev.c] = must[Ev.k]]
    /\ gma' = [gma EXCEPT ![Ev.c] = may[Ev.k]]
    /\ UNCHANGED <<isset, cand, must, may, wip, run, viol, stats>>
    /\ Consume

ToSet(s) == {s[i] : i \in 1..Len(s)}

GetEnd ==
    /\ Is("ge")
    /\ LET c == Ev.c
           k == Ev.k
           overlapping == IF isset THEN gmu[c] # gma[c] ELSE Cardinality(gal[c]) > 1 IN
        /\ IF isset
           THEN LET r == ToSet(Ev.r)
                    missing == gmu[c] \ r
                    extra == r \ gma[c] IN
                viol' = IF missing # {} \/ extra # {}
                        THEN Append(viol, V("set_mismatch", k, Cardinality(r), missing, extra))
                        ELSE viol
           ELSE viol' = IF Ev.r \in gal[c] THEN viol
                        ELSE Append(viol, V("stale_value", k, Ev.r, gal[c], 0))
        /\ stats' = [stats EXCEPT !.gets = @ + 1,
                                  !.gets_store = IF Ev.db > 0 THEN @ + 1 ELSE @,
                                  !.gets_overlapping = IF overlapping THEN @ + 1 ELSE @]
        /\ gk' = [gk EXCEPT ![c] = -1]
    /\ UNCHANGED <<isset, cand, must, may, gal, gmu, gma, wip, run>>
    /\ Consume

Counted ==
    /\ l <= Len(Rec) /\ Ev.e \in {"ce", "flood", "panic"}
    /\ stats' = [stats EXCEPT !.commits = IF Ev.e = "ce" THEN @ + 1 ELSE @,
                              !.floods = IF Ev.e = "flood" THEN @ + 1 ELSE @,
                              !.panics = IF Ev.e = "panic" THEN @ + 1 ELSE @]
    /\ UNCHANGED <<isset, cand, must, may, gk, gal, gmu, gma, wip, run, viol>>
    /\ Consume

Skip ==
    /\ l <= Len(Rec) /\ Ev.e \in {"new", "sub", "cs", "db", "dbx", "note", "dead", "reset"}
    /\ UNCHANGED <<isset, cand, must, may, gk, gal, gmu, gma, wip, run, viol, stats>>
    /\ Consume

Known == {"run", "ws", "we", "gs", "ge", "ce", "flood", "panic", "new", "sub", "cs", "db", "dbx", "note", "dead", "reset"}

Unknown ==
    /\ l <= Len(Rec) /\ Ev.e \notin Known
    /\ viol' = Append(viol, V("harness_unknown_event", 0, 0, 0, 0))
    /\ UNCHANGED <<isset, cand, must, may, gk, gal, gmu, gma, wip, run, stats>>
    /\ Consume

Finish ==
    /\ l = Len(Rec) + 1 /\ ~done
    /\ JsonSerialize(IOEnv.OUT, [events |-> Len(Rec), stats |-> stats, viol |-> viol])
    /\ done' = TRUE
    /\ UNCHANGED <<l, isset, cand, must, may, gk, gal, gmu, gma, wip, run, viol, stats>>

Next == StartRun \/ WriteStart \/ WriteEnd \/ GetStart \/ GetEnd \/ Counted \/ Skip \/ Unknown \/ Finish

TraceSpec == Init /\ [][Next]_vars

TraceAccepted ==
    LET d == TLCGet("stats").diameter IN
    IF d >= Len(Rec) + 2 THEN TRUE
    ELSE Print(<<"TRACE NOT CONSUMED: stopped before event", d, "of", Len(Rec)>>, FALSE)
=============================================================================
