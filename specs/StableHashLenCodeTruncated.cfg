\* C13 length-code design check: MUTATION one byte, n mod B (len as u8): must FAIL UniquelyDecodable
SPECIFICATION Spec
CONSTANTS
  B = 3
  W = 2
  MaxLen = 3
  MaxOuter = 2
  Shapes = {"pair", "nested"}
  Enc <- EncTruncated
INVARIANTS TypeOK DecoderSound Derivation UniquelyDecodable
ALIAS Show
CHECK_DEADLOCK FALSE
