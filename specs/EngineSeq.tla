------------------------------ MODULE EngineSeq ------------------------------
(***************************************************************************)
(* M-layer (mechanism) specification of the qbice engine for sequential    *)
(* use: one request at a time.  The state is the set of persisted columns  *)
(* of computation_graph/database.rs plus the few in-memory tables that      *)
(* matter sequentially; the operators follow the code function by          *)
(* function:                                                               *)
(*                                                                         *)
(*   QF          Engine::query_for            (computation_graph.rs)       *)
(*   FastPath    Snapshot::fast_path          (fast_path.rs)               *)
(*   Execute     Snapshot::execute_query      (slow_path.rs)               *)
(*   SetComputed Snapshot::set_computed       (database.rs)                *)
(*   Repair / CheckAll / CheckCallee / Clean  (repair.rs, database.rs)     *)
(*   RepairTFC   repair_transitive_firewall_callees (repair.rs)            *)
(*   InvokeBP    invoke_backward_projections  (backward_projection.rs)     *)
(*   DirtyProp   DirtyWorker::process_task    (dirty_worker.rs)            *)
(*   Begin/Set/Refresh/Commit                 (input_session.rs, sync.rs)  *)
(*                                                                         *)
(* It is a big-step model: a user request is one atomic step whose effect  *)
(* is computed by mutually recursive operators that thread the state       *)
(* record `S` (there are no locks or waits to model for one task; the      *)
(* synchronisation skeleton is the subject of EnginePhase.tla and          *)
(* BackwardEdgeSet.tla).  Fingerprints are the values themselves           *)
(* (collision-free abstraction); the transitive-firewall-callee            *)
(* fingerprint is the set itself.                                          *)
(*                                                                         *)
(* Named deviations from the code: JoinSet children (firewall repair,      *)
(* unordered-group checks, backward projection fan-out) run in ascending   *)
(* node order; joined reads of one item run in item order.                 *)
(*                                                                         *)
(* Switches (CONSTANTS): FixTFC / FixPBP model design variants in which    *)
(* the known findings KF_TFC / KF_PBP do not exist; with both FALSE the    *)
(* model is the code as it is.  TLC checks the P-level invariant `Correct` *)
(* (every value handed to the user equals the from-scratch valuation of    *)
(* Program.tla) and `JustifiedRuns` on the model: violated as-is, holds    *)
(* with the switches on (within the bounds).                               *)
(***************************************************************************)
EXTENDS Program, TLC

CONSTANTS FixTFC,   \* executing callers also repair transitive firewall callees
          FixPBP    \* any caller of a changed firewall/projection runs its backward projections

NoObs == [has |-> FALSE, v |-> None, t |-> {}]
NoInfo == [has |-> FALSE, v |-> None, tfc |-> {}]

(* ---- the mechanism state -------------------------------------------- *)
InitState(p) ==
    LET I == 1..Len(p.nodes) IN
    [ kind  |-> [n \in I |-> "none"],      \* stored QueryKind
      lv    |-> [n \in I |-> None],        \* last_verified
      fwd   |-> [n \in I |-> <<>>],        \* forward edge order: seq of [un, ds]
      obs   |-> [n \in I |-> [d \in I |-> NoObs]],   \* forward edge observations
      nfo   |-> [n \in I |-> NoInfo],      \* node info (value fp, tfc)
      val   |-> [n \in I |-> None],        \* stored result
      pbp   |-> [n \in I |-> None],        \* pending backward projection (timestamp)
      dirty |-> {},                        \* dirty edge set <<from, to>>
      back  |-> [n \in I |-> {}],          \* backward edges
      ext   |-> {},                        \* external input queries
      dirtied |-> {},                      \* in-memory: queries already visited by dirty propagation
      ts    |-> 0,                         \* timestamp
      world |-> [n \in I |-> 0],           \* outside world read by external executors
      log   |-> <<>>,                      \* executor runs: [n, reads, out]
      err   |-> "" ]                       \* model-level trouble (fuel, missing data)

Flatten(order) ==
    LET RECURSIVE F(_, _)
        F(i, acc) == IF i > Len(order) THEN acc ELSE F(i + 1, acc \o order[i].ds)
    IN F(1, <<>>)
SeqSet(s) == {s[i] : i \in 1..Len(s)}

(* ---- the computing context of an executing / repairing query --------- *)
EmptyCm(p, kind) ==
    [order |-> <<>>, unord |-> FALSE, reg |-> {},
     obs |-> [d \in 1..Len(p.nodes) |-> NoObs], tfc |-> {}, kind |-> kind]
NoCm(p) == EmptyCm(p, "none")

Register(cm, q) ==
    IF q \in cm.reg THEN cm
    ELSE [cm EXCEPT !.reg = @ \cup {q},
                    !.order = IF cm.unord
                              THEN [@ EXCEPT ![Len(@)] = [un |-> TRUE, ds |-> Append(@.ds, q)]]
                              ELSE Append(@, [un |-> FALSE, ds |-> <<q>>])]

StartGroup(cm) == [cm EXCEPT !.unord = TRUE, !.order = Append(@, [un |-> TRUE, ds |-> <<>>])]
EndGroup(cm) == [cm EXCEPT !.unord = FALSE]

Observe(S, cm, q) ==
    LET k == S.kind[q]
        add == IF k = "Fw" THEN {q}
               ELSE IF k \in {"Nm", "Pj"} THEN S.nfo[q].tfc ELSE {}
    IN [cm EXCEPT !.obs = [@ EXCEPT ![q] = [has |-> TRUE, v |-> S.nfo[q].v, t |-> S.nfo[q].tfc]],
                  !.tfc = @ \cup add]

ExecKind(p, q) == p.nodes[q].kind   \* "Nm" | "Fw" | "Pj" | "Ex"  ("In" only through sessions)

(* ---- dirty propagation (order independent) ---------------------------- *)
RECURSIVE DirtyProp(_, _)
DirtyProp(S, work) ==
    IF work = {} THEN S
    ELSE LET x == CHOOSE x \in work : \A y \in work : x <= y
             rest == work \ {x}
         IN IF x \in S.dirtied THEN DirtyProp(S, rest)
            ELSE LET callers == S.back[x]
                     S1 == [S EXCEPT !.dirtied = @ \cup {x},
                                     !.dirty = @ \cup {<<c, x>> : c \in callers}]
                     cont == {c \in callers : S.kind[c] \notin {"Fw", "Pj"}}
                 IN DirtyProp(S1, rest \cup cont)

(* ---- fast path -------------------------------------------------------- *)
FastPath(S, q, c) ==
    IF ~S.nfo[q].has \/ S.lv[q] = None THEN "compute"
    ELSE IF S.lv[q] # S.ts THEN "repair"
    ELSE IF (c.k \in {"RF", "BP"} \/ FixPBP) /\ S.pbp[q] # None /\ (FixPBP \/ S.pbp[q] = S.ts) THEN "bp"
    ELSE "hit"

Caller(k, req, ped, cm) == [k |-> k, req |-> req, ped |-> ped, cm |-> cm]

(* ---- publication ------------------------------------------------------ *)
SetComputed(S, q, value, cm, needBP, existing, clean) ==
    LET old == SeqSet(Flatten(existing))
        new == SeqSet(Flatten(cm.order))
        back1 == [d \in DOMAIN S.back |-> IF d \in old THEN S.back[d] \ {q} ELSE S.back[d]]
        back2 == [d \in DOMAIN S.back |-> IF d \in new THEN back1[d] \cup {q} ELSE back1[d]]
    IN [S EXCEPT !.back = back2,
                 !.dirty = IF clean THEN @ \ {<<q, d>> : d \in old} ELSE @,
                 !.pbp = IF needBP THEN [@ EXCEPT ![q] = S.ts] ELSE @,
                 !.nfo = [@ EXCEPT ![q] = [has |-> TRUE, v |-> value, tfc |-> cm.tfc]],
                 !.kind = [@ EXCEPT ![q] = cm.kind],
                 !.lv = [@ EXCEPT ![q] = S.ts],
                 !.fwd = [@ EXCEPT ![q] = cm.order],
                 !.obs = [@ EXCEPT ![q] = cm.obs],
                 !.val = [@ EXCEPT ![q] = value],
                 !.ext = IF cm.kind = "Ex" THEN @ \cup {q} ELSE @]

(* ---- the mutually recursive core ------------------------------------- *)
RECURSIVE QF(_, _, _, _, _)          \* query_for: returns [S, v, c]
RECURSIVE Execute(_, _, _, _, _)     \* execute_query: returns S
RECURSIVE RunDepsM(_, _, _, _, _, _, _, _, _)
RECURSIVE RunItemsM(_, _, _, _, _, _, _, _)
RECURSIVE Repair(_, _, _, _)
RECURSIVE CheckGroups(_, _, _, _, _, _, _, _)
RECURSIVE RepairEach(_, _, _, _, _)

(* read deps[i..] of item `it` of executing node n *)
RunDepsM(p, S, n, it, i, acc, reads, cm, ped) ==
    IF i > Len(it.deps) THEN [S |-> S, acc |-> acc, reads |-> reads, cm |-> cm]
    ELSE LET d == it.deps[i]
             r == QF(p, S, d, Caller("Query", TRUE, ped, cm), 6)
             v == r.v
         IN RunDepsM(p, r.S, n, it, i + 1, StepV(p, it, i, acc, v), Append(reads, <<d, v>>), r.c.cm, ped)

RunItemsM(p, S, n, k, acc, reads, cm, ped) ==
    LET nd == p.nodes[n] IN
    IF k > Len(nd.code) THEN [S |-> S, acc |-> acc, reads |-> reads, cm |-> cm]
    ELSE LET it == nd.code[k] IN
         IF ~Guard(it, acc) THEN RunItemsM(p, S, n, k + 1, acc, reads, cm, ped)
         ELSE LET cm1 == IF it.mode = 2 THEN StartGroup(cm) ELSE cm
                  r == RunDepsM(p, S, n, it, 1, acc, reads, cm1, ped)
                  cm2 == IF it.mode = 2 THEN EndGroup(r.cm) ELSE r.cm
              IN RunItemsM(p, r.S, n, k + 1, r.acc, r.reads, cm2, ped)

Execute(p, S, q, mode, c) ==
    LET ped == IF c.k = "Query" THEN c.ped ELSE c.k = "BP"
        kind == ExecKind(p, q)
        cm0 == EmptyCm(p, kind)
        r == IF kind = "Ex"
             THEN [S |-> S, acc |-> S.world[q], reads |-> <<>>, cm |-> cm0]
             ELSE RunItemsM(p, S, q, 1, p.nodes[q].init, <<>>, cm0, ped)
        value == IF kind = "Ex" THEN r.acc ELSE Post(p.nodes[q], r.acc)
        S1 == [r.S EXCEPT !.log = Append(@, [n |-> q, reads |-> r.reads, out |-> value])]
        oldk == S.kind[q]
        updated == oldk \in {"Fw", "Pj"} /\ mode = "recompute" /\ S.nfo[q].v # value
        S2 == IF updated THEN DirtyProp(S1, {q}) ELSE S1
    IN SetComputed(S2, q, value, r.cm, updated, S.fwd[q], mode = "recompute")

RepairEach(p, S, todo, k, c) ==     \* repair every query of `todo` (ascending) for caller kind k
    IF todo = {} THEN S
    ELSE LET x == CHOOSE x \in todo : \A y \in todo : x <= y
             r == QF(p, S, x, Caller(k, FALSE, FALSE, NoCm(p)), 6)
         IN RepairEach(p, r.S, todo \ {x}, k, c)

(* check the recorded callees of q in order; stop at the first that differs *)
CheckGroups(p, S, q, order, gi, di, ped, acc) ==
    \* acc = [cleaned, rtfc]
    IF gi > Len(order) THEN [S |-> S, dec |-> "clean", cleaned |-> acc.cleaned, rtfc |-> acc.rtfc]
    ELSE IF di > Len(order[gi].ds) THEN CheckGroups(p, S, q, order, gi + 1, 1, ped, acc)
    ELSE LET d == order[gi].ds[di]
             dirtyE == <<q, d>> \in S.dirty
         IN IF ~dirtyE /\ ~ped /\ S.kind[q] # "Pj"
            THEN CheckGroups(p, S, q, order, gi, di + 1, ped, acc)
            ELSE LET S1 == IF S.kind[d] # "Input"
                           THEN QF(p, S, d, Caller("Query", FALSE, ped, NoCm(p)), 6).S
                           ELSE S
                     info == S1.nfo[d]
                     o == S.obs[q][d]
                 IN IF ~o.has \/ info.v # o.v
                    THEN [S |-> S1, dec |-> "recompute", cleaned |-> acc.cleaned, rtfc |-> acc.rtfc]
                    ELSE CheckGroups(p, S1, q, order, gi, di + 1, ped,
                            [cleaned |-> IF dirtyE THEN acc.cleaned \cup {d} ELSE acc.cleaned,
                             rtfc |-> acc.rtfc \/ (S1.kind[d] # "Fw" /\ info.tfc # o.t)])

Repair(p, S, q, c) ==
    IF c.k = "BP" THEN Execute(p, S, q, "recompute", c)
    ELSE LET ped == c.k = "Query" /\ c.ped
             r == CheckGroups(p, S, q, S.fwd[q], 1, 1, ped, [cleaned |-> {}, rtfc |-> FALSE])
         IN IF r.dec = "recompute" THEN Execute(p, r.S, q, "recompute", c)
            ELSE LET S1 == r.S
                     callees == SeqSet(Flatten(S1.fwd[q]))
                     newtfc == UNION {IF S1.kind[d] = "Fw" THEN {d} ELSE S1.nfo[d].tfc : d \in callees}
                 IN [S1 EXCEPT !.dirty = @ \ {<<q, d>> : d \in r.cleaned},
                               !.nfo = IF r.rtfc THEN [@ EXCEPT ![q].tfc = newtfc] ELSE @,
                               !.lv = [@ EXCEPT ![q] = S1.ts]]

QF(p, S, q, c0, fuel) ==
    LET c == IF c0.k = "Query" THEN [c0 EXCEPT !.cm = Register(c0.cm, q)] ELSE c0
        fp == FastPath(S, q, c)
    IN IF fuel = 0 THEN [S |-> [S EXCEPT !.err = "fuel"], v |-> None, c |-> c]
       ELSE IF fp = "hit"
       THEN [S |-> S, v |-> IF c.req THEN S.val[q] ELSE None,
             c |-> IF c.k = "Query" /\ c.req THEN [c EXCEPT !.cm = Observe(S, c.cm, q)] ELSE c]
       ELSE LET doTfc == fp = "repair" /\ (c.k \in {"User", "RF"} \/ (FixTFC /\ c.k = "Query"))
                S1 == IF doTfc THEN RepairEach(p, S, S.nfo[q].tfc, "RF", c) ELSE S
                fp2 == FastPath(S1, q, c)
                S2 == CASE fp2 = "hit" -> S1
                        [] fp2 = "compute" -> Execute(p, S1, q, "fresh", c)
                        [] fp2 = "repair" -> Repair(p, S1, q, c)
                        [] fp2 = "bp" ->
                             \* (the code holds a backward-projection lock for q
                             \* meanwhile and clears the mark at the end; taking
                             \* the mark first is equivalent for one task)
                             LET projs == {x \in S1.back[q] : S1.kind[x] = "Pj"}
                                 S1c == [S1 EXCEPT !.pbp = [@ EXCEPT ![q] = None]]
                             IN RepairEach(p, S1c, projs, "BP", c)
            IN IF fp2 = "hit" /\ ~doTfc
               THEN [S |-> [S1 EXCEPT !.err = "stuck"], v |-> None, c |-> c]
               ELSE QF(p, S2, q, c, fuel - 1)

(* ---- user-level operations -------------------------------------------- *)
UserQuery(p, S, q) == QF(p, S, q, Caller("User", TRUE, FALSE, NoCm(p)), 8)

SessBegin(S) == [S EXCEPT !.ts = @ + 1]

(* set_input: returns [S, res, changed] *)
SessSet(p, S, n, v) ==
    LET res == IF ~S.nfo[n].has THEN "Fresh" ELSE IF S.nfo[n].v # v THEN "Updated" ELSE "Unchanged"
        old == SeqSet(Flatten(S.fwd[n]))
    IN [S |-> [S EXCEPT !.back = [d \in DOMAIN S.back |-> IF d \in old THEN S.back[d] \ {n} ELSE S.back[d]],
                        !.kind = [@ EXCEPT ![n] = "Input"],
                        !.lv = [@ EXCEPT ![n] = S.ts],
                        !.fwd = [@ EXCEPT ![n] = <<>>],
                        !.obs = [@ EXCEPT ![n] = [d \in DOMAIN S.back |-> NoObs]],
                        !.nfo = [@ EXCEPT ![n] = [has |-> TRUE, v |-> v, tfc |-> {}]],
                        !.val = [@ EXCEPT ![n] = v]],
        res |-> res, changed |-> res = "Updated"]

(* refresh of every recorded external input: returns [S, changedSet] *)
RECURSIVE SessRefresh(_, _, _)
SessRefresh(S, todo, changed) ==
    IF todo = {} THEN [S |-> S, changed |-> changed]
    ELSE LET e == CHOOSE e \in todo : \A y \in todo : e <= y
             nv == S.world[e]
             diff == S.nfo[e].v # nv
             S1 == [S EXCEPT !.lv = [@ EXCEPT ![e] = S.ts],
                             !.nfo = [@ EXCEPT ![e] = [has |-> TRUE, v |-> nv, tfc |-> {}]],
                             !.val = [@ EXCEPT ![e] = nv],
                             !.log = Append(@, [n |-> e, reads |-> <<>>, out |-> nv])]
         IN SessRefresh(S1, todo \ {e}, IF diff THEN changed \cup {e} ELSE changed)

SessCommit(S, batch) == DirtyProp([S EXCEPT !.dirtied = {}], batch)
=============================================================================
