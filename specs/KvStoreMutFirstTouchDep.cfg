\* MUTATION as in KvStoreMutFirstTouch.cfg, judged by the contract "the result of a read never depends on which
\* operation touched the column first": violated as soon as a set column has committed content
SPECIFICATION Spec
CONSTANTS
  WCols = {"W1"}
  SCols = {"S1"}
  Keys = {"K1"}
  VTypes = {"V1"}
  Vals = {1}
  Elems = {"E1", "E2"}
  MaxBatches = 2
  MaxBufs = 1
  MaxIters = 1
  MaxOps = 3
  AtomicCommit = TRUE
  SnapshotScan = TRUE
  Alias = {}
  TrackTouch = TRUE
  MisTag = {"sb_rem"}
  BufOrder = "seq"
INVARIANTS TypeOK ResultsIgnoreTouched
CHECK_DEADLOCK FALSE
