--------------------------- MODULE LockTableTrace ---------------------------
(***************************************************************************)
(* Trace validation of the lock-table stress (lfu_replay --mode locks).    *)
(* Events are ordered by a global sequence number: `acq` is logged after   *)
(* the guard was obtained, `rel` before it is dropped, so a logged holding *)
(* interval lies inside the real one.  impl = "real": the real             *)
(* qbice::verif::QueryLockManager, events acq/rel (instance id read from   *)
(* the guard).  impl = "reimpl": a verbatim copy of get_lock_instance over *)
(* the real TinyLFU that also logs `inst` (at the Arc clone inside the     *)
(* entry's critical section), `unref` (before the last reference of a task *)
(* is dropped) and `ask` (the listener's answer under the entry lock).     *)
(*                                                                         *)
(* Violations (collected, total actions):                                  *)
(*   two_holders        exclusive holder together with any other holder    *)
(*   split_lock         two simultaneously held/referenced instances of    *)
(*                      one query                                          *)
(*   evicted_while_referenced   eviction of an instance with references    *)
(*   replaced_without_eviction  a new instance although the old one is     *)
(*                      still in the table                                 *)
(*   witness            the harness's atomic witness counters fired        *)
(***************************************************************************)
EXTENDS Integers, Sequences, FiniteSets, TLC, Json, IOUtils

VARIABLES l, done, hdr, hx, hs, held, tab, refs, live, viol, stats

Rec == ndJsonDeserialize(IOEnv.TRACE)
vars == <<l, done, hdr, hx, hs, held, tab, refs, live, viol, stats>>
Ev == Rec[l]
IsEvent(e) == l <= Len(Rec) /\ Ev.e = e

ZeroStats == [runs |-> 0, acquisitions |-> 0, exclusive |-> 0, instance_changes |-> 0,
              evictions |-> 0, refusals |-> 0, insts |-> 0, panics |-> 0, overlapping_shared |-> 0]
V(kind, k, a, b) == [at |-> l, kind |-> kind, k |-> k, a |-> a, b |-> b, run |-> hdr.case, kf |-> ""]
Bump(f) == [stats EXCEPT ![f] = @ + 1]

Init ==
    /\ l = 1 /\ done = FALSE
    /\ hdr = [case |-> 0, keys |-> 1, impl |-> "real"]
    /\ hx = <<0>> /\ hs = <<0>> /\ held = <<0>> /\ tab = <<0>> /\ refs = <<0>> /\ live = <<0>>
    /\ viol = <<>> /\ stats = ZeroStats

Consume == l' = l + 1 /\ done' = done

Run ==
    /\ IsEvent("run")
    /\ hdr' = [case |-> Ev.case, keys |-> Ev.keys, impl |-> Ev.impl]
    /\ hx' = [k \in 1..Ev.keys |-> 0]
    /\ hs' = [k \in 1..Ev.keys |-> 0]
    /\ held' = [k \in 1..Ev.keys |-> 0]     \* instance of the current / last holders
    /\ tab' = [k \in 1..Ev.keys |-> 0]      \* reimpl: instance in the table
    /\ refs' = [k \in 1..Ev.keys |-> 0]     \* reimpl: references outside the table
    /\ live' = [k \in 1..Ev.keys |-> 0]     \* reimpl: instance those references point to
    /\ viol' = viol /\ stats' = Bump("runs")
    /\ Consume

Acq ==
    /\ IsEvent("acq")
    /\ LET k == Ev.k
           busy == hx[k] + hs[k] > 0
       IN
       /\ viol' = viol
            \o (IF Ev.x /\ busy THEN <<V("two_holders", k, hx[k], hs[k])>>
                ELSE IF ~Ev.x /\ hx[k] > 0 THEN <<V("two_holders", k, hx[k], hs[k])>> ELSE <<>>)
            \o (IF busy /\ held[k] # Ev.id THEN <<V("split_lock", k, held[k], Ev.id)>> ELSE <<>>)
       /\ hx' = IF Ev.x THEN [hx EXCEPT ![k] = @ + 1] ELSE hx
       /\ hs' = IF Ev.x THEN hs ELSE [hs EXCEPT ![k] = @ + 1]
       /\ held' = [held EXCEPT ![k] = Ev.id]
       /\ stats' = [stats EXCEPT !.acquisitions = @ + 1,
                        !.exclusive = IF Ev.x THEN @ + 1 ELSE @,
                        !.overlapping_shared = IF ~Ev.x /\ hs[k] > 0 THEN @ + 1 ELSE @,
                        !.instance_changes = IF held[k] # 0 /\ held[k] # Ev.id THEN @ + 1 ELSE @]
    /\ UNCHANGED <<hdr, tab, refs, live>>
    /\ Consume

Rel ==
    /\ IsEvent("rel")
    /\ hx' = IF Ev.x THEN [hx EXCEPT ![Ev.k] = IF @ > 0 THEN @ - 1 ELSE 0] ELSE hx
    /\ hs' = IF Ev.x THEN hs ELSE [hs EXCEPT ![Ev.k] = IF @ > 0 THEN @ - 1 ELSE 0]
    /\ UNCHANGED <<hdr, held, tab, refs, live, viol, stats>>
    /\ Consume

InstEv ==
    /\ IsEvent("inst")
    /\ LET k == Ev.k IN
       /\ viol' = viol
            \o (IF refs[k] > 0 /\ live[k] # Ev.id THEN <<V("split_lock", k, live[k], Ev.id)>> ELSE <<>>)
            \o (IF tab[k] # 0 /\ tab[k] # Ev.id THEN <<V("replaced_without_eviction", k, tab[k], Ev.id)>> ELSE <<>>)
       /\ refs' = [refs EXCEPT ![k] = IF live[k] = Ev.id THEN @ + 1 ELSE 1]
       /\ live' = [live EXCEPT ![k] = Ev.id]
       /\ tab' = [tab EXCEPT ![k] = Ev.id]
    /\ stats' = Bump("insts")
    /\ UNCHANGED <<hdr, hx, hs, held>>
    /\ Consume

Unref ==
    /\ IsEvent("unref")
    /\ refs' = [refs EXCEPT ![Ev.k] = IF live[Ev.k] = Ev.id /\ @ > 0 THEN @ - 1 ELSE @]
    /\ UNCHANGED <<hdr, hx, hs, held, tab, live, viol, stats>>
    /\ Consume

Ask ==
    /\ IsEvent("ask")
    /\ LET k == Ev.k IN
       IF Ev.pinned
       THEN /\ stats' = Bump("refusals")
            /\ UNCHANGED <<tab, viol>>
       ELSE /\ viol' = viol \o (IF live[k] = Ev.id /\ refs[k] > 0
                                THEN <<V("evicted_while_referenced", k, Ev.id, refs[k])>> ELSE <<>>)
            /\ tab' = [tab EXCEPT ![k] = 0]
            /\ stats' = Bump("evictions")
    /\ UNCHANGED <<hdr, hx, hs, held, refs, live>>
    /\ Consume

Witness ==
    /\ IsEvent("witness")
    /\ viol' = IF Ev.count > 0 THEN Append(viol, V("witness", 0, Ev.count, 0)) ELSE viol
    /\ UNCHANGED <<hdr, hx, hs, held, tab, refs, live, stats>>
    /\ Consume

Panic ==
    /\ IsEvent("panic")
    /\ viol' = Append(viol, [V("panic", 0, 0, 0) EXCEPT !.kf = Ev.loc \o "|" \o Ev.msg \o "|" \o Ev.thread])
    /\ stats' = Bump("panics")
    /\ UNCHANGED <<hdr, hx, hs, held, tab, refs, live>>
    /\ Consume

Reset ==
    /\ IsEvent("reset")
    /\ viol' = IF \E k \in DOMAIN hx : hx[k] + hs[k] > 0
               THEN Append(viol, V("harness_holder_at_end", 0, 0, 0)) ELSE viol
    /\ UNCHANGED <<hdr, hx, hs, held, tab, refs, live, stats>>
    /\ Consume

Known == {"run", "acq", "rel", "inst", "unref", "ask", "witness", "panic", "reset"}
Unknown ==
    /\ l <= Len(Rec) /\ Ev.e \notin Known
    /\ viol' = Append(viol, V("harness_unknown_event", 0, 0, 0))
    /\ UNCHANGED <<hdr, hx, hs, held, tab, refs, live, stats>>
    /\ Consume

Finish ==
    /\ l = Len(Rec) + 1 /\ ~done
    /\ JsonSerialize(IOEnv.OUT, [events |-> Len(Rec), stats |-> stats, viol |-> viol])
    /\ done' = TRUE /\ l' = l
    /\ UNCHANGED <<hdr, hx, hs, held, tab, refs, live, viol, stats>>

Next == Run \/ Acq \/ Rel \/ InstEv \/ Unref \/ Ask \/ Witness \/ Panic \/ Reset \/ Unknown \/ Finish
Spec == Init /\ [][Next]_vars

TraceAccepted ==
    LET d == TLCGet("stats").diameter IN
    IF d >= Len(Rec) + 2 THEN TRUE
    ELSE Print(<<"TRACE NOT CONSUMED: stopped before event", d, "of", Len(Rec)>>, FALSE)
=============================================================================
