\* C13 length-code design check: thorough: compact with escape, correct threshold, bytes 0..3
SPECIFICATION Spec
CONSTANTS
  B = 4
  W = 2
  MaxLen = 4
  MaxOuter = 2
  Shapes = {"pair", "nested"}
  Enc <- EncCompact
INVARIANTS TypeOK DecoderSound PrefixCode UniquelyDecodable StreamPrefixFree Derivation
ALIAS Show
CHECK_DEADLOCK FALSE
