\* C14 mutation (e): [T; N] ignores N - must FAIL
SPECIFICATION Spec
CONSTANTS
  Symbols <- SmallSymbols
  Profiles <- SmallProfiles
  Combine = "free"
  Forget <- NoForget
  Flatten = FALSE
  IgnoreSize = TRUE
  Emit = FALSE
INVARIANTS Injective
ALIAS Shown
CHECK_DEADLOCK FALSE
