\* C13 boundary universe for the length-encoding binding (quick tier).
SPECIFICATION Spec
CONSTANTS
  Dense = 300
  Pows = {8, 16, 32}
  Delta = 2
  BigLens = {65534, 65535, 65536, 65537}
  ValTypes = {"vec_u8", "string", "vec_u16"}
  Centre = 256
  Wide = 8
  FarTotals = {264, 512}
CHECK_DEADLOCK FALSE
