SPECIFICATION Spec
CONSTANTS
  Tasks = {1, 2, 3}
  Queries = {1, 2, 3, 4}
  Deps <- DepsR3
  Roots <- RootsR3
  SubscribeLate = FALSE
  MaxAbandon = 0
  SilentAbandon = FALSE
  RegisterLate = FALSE
  MarkCallerOnly = FALSE
INVARIANT SingleFlight
INVARIANT OncePerEpoch
INVARIANT NoOrphanWaiter
INVARIANT NoStall
INVARIANT CutOnlyOnCycle
INVARIANT CutExact
CHECK_DEADLOCK FALSE
