--------------------------- MODULE WriteBehindTrace ---------------------------
(***************************************************************************)
(* P-layer trace validation for C10: executions of the real                *)
(* `WriteBehind<MemKv>` recorded by harness/src/bin/wb_replay.rs.          *)
(*                                                                         *)
(* The trace (ndjson, env TRACE) is a concatenation of runs                *)
(*   run, (create | fill | submit | discard)*, [midsnap], drop | hang |    *)
(*   aborted, commit*, final, end                                          *)
(* `create` carries the call interval [cs, ce] on a global clock (with     *)
(* harness-serialised creation the intervals are disjoint and the batch id *)
(* is the epoch); `commit` events are the physical commits of the store in *)
(* log order, snapshotted the instant `drop(write_manager)` returned, each *)
(* split into the logical groups the committer consumed; `final` is the    *)
(* store content at that instant.                                          *)
(*                                                                         *)
(* Checked (each failure is appended to `viol`; every event is consumed):  *)
(*   commit_order       a batch is committed although a submitted batch    *)
(*                      whose creation finished before its creation began  *)
(*                      is not yet committed (= epochs 0,1,2,.. when       *)
(*                      creation is serialised)                            *)
(*   duplicate_commit / commit_of_unsubmitted / commit_of_unknown          *)
(*   group_marker / batch_content   atomicity: one logical group = exactly *)
(*                      the last-write-per-cell content of ONE batch       *)
(*   not_durable_at_drop_return     DropDrains                             *)
(*   final_content      content = sequential fold in creation order       *)
(*   drop_returned_early / drop_hang / drop_panicked /                     *)
(*   drop_aborted_without_gap                                              *)
(* A submitted batch that is not durable because an EARLIER created batch  *)
(* was never submitted is the documented stall (counted in `held_back`).   *)
(***************************************************************************)
EXTENDS Integers, Sequences, FiniteSets, TLC, Json, IOUtils

Rec == ndJsonDeserialize(IOEnv.TRACE)

VARIABLES l, done, run, bs, committed, db, ended, viol, stats,
          lazy,    \* the run marks a batch with its first fill: a never-filled batch is truly empty
          emptyG   \* logical groups without marker and without content seen in this run

vars == <<l, done, run, bs, committed, db, ended, viol, stats, lazy, emptyG>>

Range(s) == {s[i] : i \in 1..Len(s)}

ZeroStats == [empty_submitted |-> 0, empty_groups |-> 0, runs |-> 0, batches |-> 0, submitted |-> 0, fills |-> 0, physical |-> 0,
              groups |-> 0, grouped |-> 0, held_back |-> 0, past_gap |-> 0,
              racing_runs |-> 0, out_of_order_submits |-> 0, aborted |-> 0,
              gated_drops |-> 0, multi_thread_batches |-> 0]

Bump(s, f, n) == [s EXCEPT ![f] = @ + n]

V(kind, b, info) == [at |-> l, run |-> run, kind |-> kind, b |-> b, info |-> info]

Init ==
    /\ l = 1
    /\ done = FALSE
    /\ run = -1
    /\ bs = <<>>
    /\ committed = <<>>
    /\ db = <<>>
    /\ ended = "none"
    /\ viol = <<>>
    /\ stats = ZeroStats
    /\ lazy = FALSE
    /\ emptyG = 0

Ev == Rec[l]
IsEvent(e) == l <= Len(Rec) /\ Ev.e = e
Consume == l' = l + 1 /\ done' = done

StartRun ==
    /\ IsEvent("run")
    /\ run' = Ev.run
    /\ bs' = <<>>
    /\ committed' = <<>>
    /\ db' = <<>>
    /\ ended' = "none"
    /\ stats' = Bump(Bump(stats, "runs", 1), "racing_runs", IF Ev.mode = "racing" THEN 1 ELSE 0)
    /\ lazy' = ("lazy" \in DOMAIN Ev /\ Ev.lazy)
    /\ emptyG' = 0
    /\ UNCHANGED viol
    /\ Consume

Locked == \A a, b \in DOMAIN bs : a < b => bs[a].ce < bs[b].cs

TCreate ==
    /\ IsEvent("create")
    /\ IF Ev.b \in DOMAIN bs
       THEN viol' = Append(viol, V("harness_duplicate_id", Ev.b, 0)) /\ UNCHANGED bs
       ELSE /\ bs' = bs @@ (Ev.b :> [cs |-> Ev.cs, ce |-> Ev.ce, t |-> Ev.t, sub |-> FALSE,
                                     ops |-> <<>>, who |-> {Ev.t}])
            /\ UNCHANGED viol
    /\ stats' = Bump(stats, "batches", 1)
    /\ UNCHANGED <<run, committed, db, ended, lazy, emptyG>>
    /\ Consume

TFill ==
    /\ IsEvent("fill")
    /\ IF Ev.b \notin DOMAIN bs \/ (Ev.b \in DOMAIN bs /\ bs[Ev.b].sub)
       THEN viol' = Append(viol, V("harness_fill_of_closed_batch", Ev.b, 0)) /\ UNCHANGED bs
       ELSE /\ bs' = [bs EXCEPT ![Ev.b].ops = (Ev.c :> Ev.v) @@ @,
                                ![Ev.b].who = @ \cup {Ev.t}]
            /\ UNCHANGED viol
    /\ stats' = Bump(stats, "fills", 1)
    /\ UNCHANGED <<run, committed, db, ended, lazy, emptyG>>
    /\ Consume

TSubmit ==
    /\ IsEvent("submit")
    /\ IF Ev.b \notin DOMAIN bs \/ (Ev.b \in DOMAIN bs /\ bs[Ev.b].sub)
       THEN viol' = Append(viol, V("harness_submit_of_closed_batch", Ev.b, 0))
            /\ UNCHANGED <<bs, stats>>
       ELSE /\ bs' = [bs EXCEPT ![Ev.b].sub = TRUE, ![Ev.b].who = @ \cup {Ev.t}]
            /\ stats' = Bump(Bump(Bump(stats, "submitted", 1),
                    "out_of_order_submits",
                    IF \E a \in DOMAIN bs : ~bs[a].sub /\ a # Ev.b /\ bs[a].ce < bs[Ev.b].cs
                    THEN 1 ELSE 0),
                    "multi_thread_batches",
                    IF Cardinality(bs[Ev.b].who \cup {Ev.t}) > 1 THEN 1 ELSE 0)
            /\ UNCHANGED viol
    /\ UNCHANGED <<run, committed, db, ended, lazy, emptyG>>
    /\ Consume

TDiscard ==
    /\ IsEvent("discard")
    /\ UNCHANGED <<run, bs, committed, db, ended, viol, stats, lazy, emptyG>>
    /\ Consume

TMidSnap ==
    /\ IsEvent("midsnap")
    /\ UNCHANGED <<run, bs, committed, db, ended, viol, stats, lazy, emptyG>>
    /\ Consume

TDrop ==
    /\ IsEvent("drop")
    /\ ended' = "returned"
    /\ viol' = viol
        \o (IF Ev.early THEN <<V("drop_returned_early", -1, 0)>> ELSE <<>>)
        \o (IF Ev.panic # "" THEN <<V("drop_panicked", -1, 0)>> ELSE <<>>)
    /\ stats' = Bump(stats, "gated_drops", IF Ev.blocked > 0 THEN 1 ELSE 0)
    /\ UNCHANGED <<run, bs, committed, db, lazy, emptyG>>
    /\ Consume

THang ==
    /\ IsEvent("hang")
    /\ ended' = "hang"
    /\ viol' = Append(viol, V("drop_hang", -1, 0))
    /\ UNCHANGED <<run, bs, committed, db, stats, lazy, emptyG>>
    /\ Consume

(* the process was aborted inside Drop (inserted by the check from the      *)
(* panic record): Drop never returned                                       *)
TAborted ==
    /\ IsEvent("aborted")
    /\ ended' = "aborted"
    /\ stats' = Bump(stats, "aborted", 1)
    /\ UNCHANGED <<run, bs, committed, db, viol, lazy, emptyG>>
    /\ Consume

(* a batch created entirely before b that was never submitted: the gap      *)
GapBefore(b) == \E g \in DOMAIN bs : ~bs[g].sub /\ bs[g].ce < bs[b].cs

(* with lazy marking a batch that was never filled is submitted truly empty:  *)
(* it has no observable effect and cannot be recognised in the commit log;   *)
(* it must not hold anything back either                                     *)
Empty(b) == lazy /\ bs[b].ops = <<>>
SubmittedEmpties == {b \in DOMAIN bs : bs[b].sub /\ Empty(b)}

OpSet(ops) == {<<ops[i].c, ops[i].v>> : i \in 1..Len(ops)}
Want(b) == {<<c, bs[b].ops[c]>> : c \in DOMAIN bs[b].ops}

RECURSIVE ApplyOps(_, _)
ApplyOps(d, ops) ==
    IF ops = <<>> THEN d ELSE ApplyOps((Head(ops).c :> Head(ops).v) @@ d, Tail(ops))

(* one logical group of a physical commit; acc = [c, d, v, pg]              *)
DoGroup(acc, g) ==
    LET d2 == ApplyOps(acc.d, g.ops) IN
    IF Len(g.b) = 0 /\ g.ops = <<>> /\ acc.eg < Cardinality(SubmittedEmpties)
    THEN [acc EXCEPT !.eg = @ + 1]
    ELSE IF Len(g.b) # 1
    THEN [acc EXCEPT !.d = d2, !.v = Append(@, V("group_marker", -1, Len(g.b)))]
    ELSE
      LET b == g.b[1] IN
      IF b \notin DOMAIN bs
      THEN [acc EXCEPT !.d = d2, !.v = Append(@, V("commit_of_unknown_batch", b, 0))]
      ELSE
        LET late == {a \in DOMAIN bs : /\ bs[a].sub /\ a # b /\ ~Empty(a)
                                       /\ a \notin Range(acc.c)
                                       /\ bs[a].ce < bs[b].cs}
            v1 == IF ~bs[b].sub THEN <<V("commit_of_unsubmitted_batch", b, 0)>> ELSE <<>>
            v2 == IF b \in Range(acc.c) THEN <<V("duplicate_commit", b, 0)>> ELSE <<>>
            v3 == IF late # {} THEN <<V("commit_order", b, CHOOSE a \in late : TRUE)>> ELSE <<>>
            v4 == IF OpSet(g.ops) # Want(b) \/ Cardinality(OpSet(g.ops)) # Len(g.ops)
                  THEN <<V("batch_content", b, Len(g.ops))>> ELSE <<>>
        IN [c |-> Append(acc.c, b), d |-> d2, v |-> acc.v \o v1 \o v2 \o v3 \o v4,
            pg |-> acc.pg + (IF GapBefore(b) THEN 1 ELSE 0), eg |-> acc.eg]

RECURSIVE DoGroups(_, _)
DoGroups(acc, gs) == IF gs = <<>> THEN acc ELSE DoGroups(DoGroup(acc, Head(gs)), Tail(gs))

TCommit ==
    /\ IsEvent("commit")
    /\ LET r == DoGroups([c |-> committed, d |-> db, v |-> viol, pg |-> 0, eg |-> emptyG], Ev.groups) IN
        /\ committed' = r.c
        /\ emptyG' = r.eg
        /\ db' = r.d
        /\ viol' = r.v \o (IF Ev.groups = <<>> THEN <<V("empty_physical_commit", -1, 0)>> ELSE <<>>)
        /\ stats' = Bump(Bump(Bump(Bump(stats, "physical", 1), "groups", Len(Ev.groups)),
                         "grouped", IF Len(Ev.groups) > 1 THEN 1 ELSE 0), "past_gap", r.pg)
    /\ UNCHANGED <<run, bs, ended, lazy>>
    /\ Consume

(* reference: apply the submitted batches one after another in creation     *)
(* order (ids ascending; only meaningful when creation was serialised)      *)
RECURSIVE RefFold(_, _, _)
RefFold(d, b, n) ==
    IF b > n THEN d
    ELSE IF b \in DOMAIN bs /\ bs[b].sub
         THEN RefFold([c \in DOMAIN bs[b].ops \cup DOMAIN d |->
                          IF c \in DOMAIN bs[b].ops THEN bs[b].ops[c] ELSE d[c]], b + 1, n)
         ELSE RefFold(d, b + 1, n)

Live(d) == {<<c, d[c]>> : c \in {x \in DOMAIN d : d[x] >= 0}}

MaxId == IF DOMAIN bs = {} THEN -1 ELSE CHOOSE m \in DOMAIN bs : \A x \in DOMAIN bs : x <= m

TFinal ==
    /\ IsEvent("final")
    /\ LET subm == {b \in DOMAIN bs : bs[b].sub /\ ~Empty(b)}
           missing == subm \ Range(committed)
           held == {b \in missing : GapBefore(b)}
           lost == missing \ held
           content == {<<Ev.content[i].c, Ev.content[i].v>> : i \in 1..Len(Ev.content)}
           v1 == IF lost # {} /\ ended # "hang"
                 THEN <<V("not_durable_at_drop_return", CHOOSE b \in lost : TRUE, Cardinality(lost))>>
                 ELSE <<>>
           v2 == IF content # Live(db) THEN <<V("harness_content_vs_log", -1, 0)>> ELSE <<>>
           v3 == IF missing = {} /\ Locked /\ content # Live(RefFold(<<>>, 0, MaxId))
                 THEN <<V("final_content", -1, 0)>> ELSE <<>>
           v4 == IF Range(Ev.marks) # Range(committed)
                 THEN <<V("harness_marker_mismatch", -1, 0)>> ELSE <<>>
           v5 == IF ended = "none" THEN <<V("harness_no_drop_event", -1, 0)>> ELSE <<>>
           v6 == IF ended = "aborted" /\ held = {}
                 THEN <<V("drop_aborted_without_gap", -1, 0)>> ELSE <<>>
           \* runs over a real backend (RocksDB / Fjall: no commit log to look at, every batch submitted): only the
           \* final content, read from the reopened store, against the sequential fold in creation order
           nolog == "nolog" \in DOMAIN Ev /\ Ev.nolog
           w3 == IF Locked /\ content # Live(RefFold(<<>>, 0, MaxId))
                 THEN <<V("final_content", -1, Cardinality((content \ Live(RefFold(<<>>, 0, MaxId))) \cup (Live(RefFold(<<>>, 0, MaxId)) \ content)))>> ELSE <<>>
       IN /\ viol' = IF nolog THEN viol \o w3 \o v5 ELSE viol \o v1 \o v2 \o v3 \o v4 \o v5 \o v6
          /\ stats' = Bump(Bump(Bump(stats, "held_back", Cardinality(held)),
                          "empty_submitted", Cardinality(SubmittedEmpties)), "empty_groups", emptyG)
    /\ UNCHANGED <<run, bs, committed, db, ended, lazy, emptyG>>
    /\ Consume

TEnd ==
    /\ IsEvent("end")
    /\ UNCHANGED <<run, bs, committed, db, ended, viol, stats, lazy, emptyG>>
    /\ Consume

Known == {"run", "create", "fill", "submit", "discard", "midsnap", "drop", "hang", "aborted",
          "commit", "final", "end"}

TUnknown ==
    /\ l <= Len(Rec) /\ Ev.e \notin Known
    /\ viol' = Append(viol, V("harness_unknown_event", -1, 0))
    /\ UNCHANGED <<run, bs, committed, db, ended, stats, lazy, emptyG>>
    /\ Consume

Finish ==
    /\ l = Len(Rec) + 1
    /\ ~done
    /\ JsonSerialize(IOEnv.OUT, [events |-> Len(Rec), stats |-> stats, viol |-> viol])
    /\ done' = TRUE
    /\ UNCHANGED <<l, run, bs, committed, db, ended, viol, stats, lazy, emptyG>>

Next ==
    \/ StartRun \/ TCreate \/ TFill \/ TSubmit \/ TDiscard \/ TMidSnap \/ TDrop \/ THang
    \/ TAborted \/ TCommit \/ TFinal \/ TEnd \/ TUnknown \/ Finish

TraceSpec == Init /\ [][Next]_vars

TraceAccepted ==
    LET d == TLCGet("stats").diameter IN
    IF d >= Len(Rec) + 2 THEN TRUE
    ELSE Print(<<"TRACE NOT CONSUMED: stopped before event", d, "of", Len(Rec)>>, FALSE)
=============================================================================
