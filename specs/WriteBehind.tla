----------------------------- MODULE WriteBehind -----------------------------
(***************************************************************************)
(* M-layer specification of the write-behind pipeline of                   *)
(* /repo/crates/storage/src/write_manager/write_behind.rs  (property C10). *)
(*                                                                         *)
(*   submitters --serQ--> serializers --commitCh--> committer --acQ-->     *)
(*                                                    |        after-commit *)
(*                                       hold-back heap + expected epoch    *)
(*                                       current physical batch -> db       *)
(*                                                                         *)
(* One action per critical section of the code:                            *)
(*   Create      WriteBufferPool::get_buffer  (epoch.fetch_add: the epoch   *)
(*               is assigned at CREATION, not at submission)                *)
(*   Fill        WriteBatch::put_wide_column / put_set (last write per key  *)
(*               wins inside one batch)                                     *)
(*   Pass        the batch (it is Send) is handed to another thread         *)
(*   Submit      submit_write_batch: send on the serialize channel          *)
(*   SerTake / SerSend / SerExit          serialize_worker                  *)
(*   CRecv / CClosed / CTake / CNoTake    commit_worker +                   *)
(*                                        process_pending_commits           *)
(*   CFlushBegin / CCommit / CPost / CPostDone   CurrentBatch::flush        *)
(*   CAssert     `assert!(holdback_queues.is_empty())` at the end of        *)
(*               commit_worker                                              *)
(*   ARecv / AExit                        after_commit_worker               *)
(*   DropBegin .. DropJoinAc              Drop for WriteBehind              *)
(*   GateAllow   environment: the harness store lets one more physical      *)
(*               commit through (MemKv gate); a real store is `Gated=FALSE` *)
(*                                                                         *)
(* Deliberate abstractions (named, see DESIGN 2.1):                        *)
(*  - the serialize channel is a SET: any idle serializer may take any      *)
(*    submitted batch (superset of the FIFO + racing workers of the code);  *)
(*  - `should_write_more()` is a per-physical-batch limit on the number of  *)
(*    logical batches chosen nondeterministically when the store hands out  *)
(*    the physical batch (`db.write_batch()`), which is how both the real   *)
(*    stores (byte thresholds) and the harness store behave;                *)
(*  - a `put` of batch e writes the value e, so the content of the store    *)
(*    identifies the batch that wrote it last;                              *)
(*  - the failing final assertion aborts the process (a second panic is     *)
(*    raised while unwinding: the held-back `WriteBatch`es are dropped      *)
(*    while still `active`), modelled by `crashed` (switch AbortOnGap).     *)
(***************************************************************************)
EXTENDS Integers, Sequences, FiniteSets, TLC

CONSTANTS
    Threads,        \* submitter threads
    Sers,           \* serializer workers
    MaxBatch,       \* number of batches that may be created
    Keys,           \* overlapping keys
    MaxFill,        \* writes per batch
    MaxGroup,       \* largest group limit the store may choose
    Gated,          \* TRUE: physical commits wait for the environment gate
    AllowGap,       \* TRUE: Drop may start while created batches are unsubmitted
    AllowPass,      \* TRUE: open batches may change hands
    AbortOnGap,     \* TRUE = the code as it is: batches still held back at shutdown fail the
                    \* final assertion and abort the process (known finding KF_WB_GAP_ABORT);
                    \* FALSE = proposed repair: they are given up and Drop returns
    DefectTakeAny,  \* defect switch: committer takes the heap top regardless of `expected`
    DefectNoJoin    \* defect switch: Drop does not join committer / notifier

Epochs == 0..(MaxBatch - 1)
NoEpoch == -1
Absent == -1
NoOwner == 0

VARIABLES
    nextEpoch,      \* WriteBufferPool.epoch
    st,             \* st[e] in {"none","open","sub"}: not created / held by a thread / submitted
    owner,          \* thread holding an open batch
    ops,            \* ops[e][k] in {"none","put","del"}
    nfill,
    serQ,           \* serialize channel (set, see header)
    serOpen,        \* serialize_sender still alive
    spc, serHold,   \* serializer pc in {"recv","send","exit"} and the batch in its hands
    commitCh,       \* channel serializers -> committer (FIFO)
    heap,           \* hold-back queue
    expected,       \* CurrentBatch.expected_epoch
    current,        \* CurrentBatch.processed_logical_batch (epochs)
    limit,          \* group limit of the current physical batch
    cpc, cfinal,    \* committer pc, TRUE after the commit channel was seen closed
    toCommit,       \* logical batches of the physical batch being flushed
    db,             \* store content  db[k] in Epochs \cup {Absent}
    log,            \* sequence of physical commits (sequences of epochs)
    acQ,            \* after-commit channel
    apc,            \* after-commit worker pc
    notified, skipped, \* batches whose caches were notified / that were only deactivated
    shuttingDown,
    dpc,            \* Drop pc
    gate,           \* number of physical commits the environment lets through
    crashed         \* the process aborted

subVars == <<nextEpoch, st, owner, ops, nfill>>
serVars == <<serQ, serOpen, spc, serHold, commitCh>>
comVars == <<heap, expected, current, limit, cpc, cfinal, toCommit, db, log>>
aftVars == <<acQ, apc, notified, skipped>>
envVars == <<shuttingDown, dpc, gate, crashed>>
vars == <<subVars, serVars, comVars, aftVars, envVars>>

Min(S) == CHOOSE x \in S : \A y \in S : x <= y

RECURSIVE Flatten(_)
Flatten(ss) == IF ss = <<>> THEN <<>> ELSE Head(ss) \o Flatten(Tail(ss))

Range(s) == {s[i] : i \in 1..Len(s)}

(* the sequential reference semantics of one batch / a sequence of batches *)
ApplyBatch(d, e) ==
    [k \in Keys |-> IF ops[e][k] = "put" THEN e
                    ELSE IF ops[e][k] = "del" THEN Absent
                    ELSE d[k]]

RECURSIVE ApplySeq(_, _)
ApplySeq(d, s) == IF s = <<>> THEN d ELSE ApplySeq(ApplyBatch(d, Head(s)), Tail(s))

EmptyDb == [k \in Keys |-> Absent]

RECURSIVE FoldUpTo(_)
FoldUpTo(n) == IF n = 0 THEN EmptyDb ELSE ApplyBatch(FoldUpTo(n - 1), n - 1)

Committed == Flatten(log)
Open == {e \in Epochs : st[e] = "open"}
Submitted == {e \in Epochs : st[e] = "sub"}

Init ==
    /\ nextEpoch = 0
    /\ st = [e \in Epochs |-> "none"]
    /\ owner = [e \in Epochs |-> NoOwner]
    /\ ops = [e \in Epochs |-> [k \in Keys |-> "none"]]
    /\ nfill = [e \in Epochs |-> 0]
    /\ serQ = {}
    /\ serOpen = TRUE
    /\ spc = [s \in Sers |-> "recv"]
    /\ serHold = [s \in Sers |-> NoEpoch]
    /\ commitCh = <<>>
    /\ heap = {}
    /\ expected = 0
    /\ current = <<>>
    /\ limit \in 1..MaxGroup          \* db.write_batch() at committer start
    /\ cpc = "recv"
    /\ cfinal = FALSE
    /\ toCommit = <<>>
    /\ db = EmptyDb
    /\ log = <<>>
    /\ acQ = <<>>
    /\ apc = "run"
    /\ notified = {}
    /\ skipped = {}
    /\ shuttingDown = FALSE
    /\ dpc = "idle"
    /\ gate = 0
    /\ crashed = FALSE

(***************************** submitter threads ***************************)
Create(t) ==
    /\ ~crashed /\ dpc = "idle" /\ nextEpoch < MaxBatch
    /\ st' = [st EXCEPT ![nextEpoch] = "open"]
    /\ owner' = [owner EXCEPT ![nextEpoch] = t]
    /\ nextEpoch' = nextEpoch + 1
    /\ UNCHANGED <<ops, nfill, serVars, comVars, aftVars, envVars>>

Fill(t, e, k, o) ==
    /\ ~crashed /\ dpc = "idle"
    /\ st[e] = "open" /\ owner[e] = t /\ nfill[e] < MaxFill
    /\ ops' = [ops EXCEPT ![e][k] = o]
    /\ nfill' = [nfill EXCEPT ![e] = @ + 1]
    /\ UNCHANGED <<nextEpoch, st, owner, serVars, comVars, aftVars, envVars>>

Pass(e, u) ==
    /\ AllowPass /\ ~crashed /\ dpc = "idle"
    /\ st[e] = "open" /\ owner[e] # u
    /\ owner' = [owner EXCEPT ![e] = u]
    /\ UNCHANGED <<nextEpoch, st, ops, nfill, serVars, comVars, aftVars, envVars>>

Submit(t, e) ==
    /\ ~crashed /\ dpc = "idle"
    /\ st[e] = "open" /\ owner[e] = t
    /\ st' = [st EXCEPT ![e] = "sub"]
    /\ owner' = [owner EXCEPT ![e] = NoOwner]
    /\ serQ' = serQ \cup {e}
    /\ UNCHANGED <<nextEpoch, ops, nfill, serOpen, spc, serHold, commitCh, comVars, aftVars, envVars>>

(******************************* serializers ******************************)
SerTake(s) ==
    /\ ~crashed /\ spc[s] = "recv"
    /\ \E e \in serQ :
        /\ serQ' = serQ \ {e}
        /\ serHold' = [serHold EXCEPT ![s] = e]
    /\ spc' = [spc EXCEPT ![s] = "send"]
    /\ UNCHANGED <<subVars, serOpen, commitCh, comVars, aftVars, envVars>>

SerSend(s) ==
    /\ ~crashed /\ spc[s] = "send"
    /\ commitCh' = Append(commitCh, serHold[s])
    /\ serHold' = [serHold EXCEPT ![s] = NoEpoch]
    /\ spc' = [spc EXCEPT ![s] = "recv"]
    /\ UNCHANGED <<subVars, serQ, serOpen, comVars, aftVars, envVars>>

SerExit(s) ==
    /\ ~crashed /\ spc[s] = "recv" /\ serQ = {} /\ ~serOpen
    /\ spc' = [spc EXCEPT ![s] = "exit"]
    /\ UNCHANGED <<subVars, serQ, serOpen, serHold, commitCh, comVars, aftVars, envVars>>

(******************************** committer *******************************)
CRecv ==
    /\ ~crashed /\ cpc = "recv" /\ commitCh # <<>>
    /\ heap' = heap \cup {Head(commitCh)}
    /\ commitCh' = Tail(commitCh)
    /\ cpc' = "proc"
    /\ UNCHANGED <<subVars, serQ, serOpen, spc, serHold, expected, current, limit, cfinal,
                   toCommit, db, log, aftVars, envVars>>

(* recv() fails: every serializer (sender) is gone and the channel is empty *)
CClosed ==
    /\ ~crashed /\ cpc = "recv" /\ commitCh = <<>>
    /\ \A s \in Sers : spc[s] = "exit"
    /\ cfinal' = TRUE
    /\ cpc' = "proc"
    /\ UNCHANGED <<subVars, serVars, heap, expected, current, limit, toCommit, db, log,
                   aftVars, envVars>>

Takeable == heap # {} /\ (DefectTakeAny \/ Min(heap) = expected)

(* process_pending_commits: only the expected epoch leaves the heap *)
CTake ==
    /\ ~crashed /\ cpc = "proc" /\ Takeable
    /\ LET e == Min(heap) IN
        /\ heap' = heap \ {e}
        /\ current' = Append(current, e)
        /\ expected' = expected + 1
        /\ cpc' = IF Len(current) + 1 >= limit THEN "flush" ELSE "proc"
    /\ UNCHANGED <<subVars, serVars, limit, cfinal, toCommit, db, log, aftVars, envVars>>

CNoTake ==
    /\ ~crashed /\ cpc = "proc" /\ ~Takeable
    /\ cpc' = IF cfinal THEN "lastflush" ELSE "recv"
    /\ UNCHANGED <<subVars, serVars, heap, expected, current, limit, cfinal, toCommit, db, log,
                   aftVars, envVars>>

(* CurrentBatch::flush, part 1: swap in a fresh physical batch *)
CFlushBegin ==
    /\ ~crashed /\ cpc \in {"flush", "lastflush"}
    /\ toCommit' = current
    /\ current' = <<>>
    /\ \E l \in 1..MaxGroup : limit' = l
    /\ cpc' = IF cpc = "flush" THEN "commit" ELSE "lastcommit"
    /\ UNCHANGED <<subVars, serVars, heap, expected, cfinal, db, log, aftVars, envVars>>

(* part 2: the physical commit (atomic in the store) *)
CCommit ==
    /\ ~crashed /\ cpc \in {"commit", "lastcommit"}
    /\ IF toCommit = <<>>
       THEN UNCHANGED <<db, log, gate>>        \* empty trailing batch
       ELSE /\ (~Gated \/ gate > 0)
            /\ db' = ApplySeq(db, toCommit)
            /\ log' = Append(log, toCommit)
            /\ gate' = IF Gated THEN gate - 1 ELSE gate
    /\ cpc' = IF cpc = "commit" THEN "post" ELSE "lastpost"
    /\ UNCHANGED <<subVars, serVars, heap, expected, current, limit, cfinal, toCommit,
                   aftVars, shuttingDown, dpc, crashed>>

(* part 3: hand every logical batch to the notifier, or only deactivate it *)
CPost ==
    /\ ~crashed /\ cpc \in {"post", "lastpost"} /\ toCommit # <<>>
    /\ IF shuttingDown
       THEN skipped' = skipped \cup {Head(toCommit)} /\ UNCHANGED acQ
       ELSE acQ' = Append(acQ, Head(toCommit)) /\ UNCHANGED skipped
    /\ toCommit' = Tail(toCommit)
    /\ UNCHANGED <<subVars, serVars, heap, expected, current, limit, cpc, cfinal, db, log,
                   apc, notified, envVars>>

CPostDone ==
    /\ ~crashed /\ cpc \in {"post", "lastpost"} /\ toCommit = <<>>
    /\ cpc' = IF cpc = "post" THEN "proc" ELSE "assert"
    /\ UNCHANGED <<subVars, serVars, heap, expected, current, limit, cfinal, toCommit, db, log,
                   aftVars, envVars>>

(* assert!(holdback_queues.is_empty()); drop(after_commit_sender) *)
CAssert ==
    /\ ~crashed /\ cpc = "assert"
    /\ IF heap = {} \/ ~AbortOnGap
       THEN cpc' = "exit" /\ UNCHANGED crashed
       ELSE cpc' = "dead" /\ crashed' = TRUE
    /\ UNCHANGED <<subVars, serVars, heap, expected, current, limit, cfinal, toCommit, db, log,
                   aftVars, shuttingDown, dpc, gate>>

(**************************** after-commit worker *************************)
ARecv ==
    /\ ~crashed /\ apc = "run" /\ acQ # <<>>
    /\ IF shuttingDown
       THEN skipped' = skipped \cup {Head(acQ)} /\ UNCHANGED notified
       ELSE notified' = notified \cup {Head(acQ)} /\ UNCHANGED skipped
    /\ acQ' = Tail(acQ)
    /\ UNCHANGED <<subVars, serVars, comVars, apc, envVars>>

AExit ==
    /\ ~crashed /\ apc = "run" /\ acQ = <<>> /\ cpc = "exit"
    /\ apc' = "exit"
    /\ UNCHANGED <<subVars, serVars, comVars, acQ, notified, skipped, envVars>>

(******************************** shutdown ********************************)
DropBegin ==
    /\ ~crashed /\ dpc = "idle"
    /\ AllowGap \/ Open = {}
    /\ shuttingDown' = TRUE
    /\ dpc' = "close"
    /\ UNCHANGED <<subVars, serVars, comVars, aftVars, gate, crashed>>

DropClose ==
    /\ ~crashed /\ dpc = "close"
    /\ serOpen' = FALSE
    /\ dpc' = "joinser"
    /\ UNCHANGED <<subVars, serQ, spc, serHold, commitCh, comVars, aftVars, shuttingDown,
                   gate, crashed>>

DropJoinSer ==
    /\ ~crashed /\ dpc = "joinser" /\ \A s \in Sers : spc[s] = "exit"
    /\ dpc' = "joincommit"
    /\ UNCHANGED <<subVars, serVars, comVars, aftVars, shuttingDown, gate, crashed>>

DropJoinCommit ==
    /\ ~crashed /\ dpc = "joincommit" /\ (cpc = "exit" \/ DefectNoJoin)
    /\ dpc' = "joinac"
    /\ UNCHANGED <<subVars, serVars, comVars, aftVars, shuttingDown, gate, crashed>>

DropJoinAc ==
    /\ ~crashed /\ dpc = "joinac" /\ (apc = "exit" \/ DefectNoJoin)
    /\ dpc' = "returned"
    /\ UNCHANGED <<subVars, serVars, comVars, aftVars, shuttingDown, gate, crashed>>

(******************************* environment ******************************)
GateAllow ==
    /\ Gated /\ ~crashed /\ gate < 1
    /\ gate' = gate + 1
    /\ UNCHANGED <<subVars, serVars, comVars, aftVars, shuttingDown, dpc, crashed>>

SubmitterStep ==
    \/ \E t \in Threads : Create(t)
    \/ \E t \in Threads, e \in Epochs, k \in Keys, o \in {"put", "del"} : Fill(t, e, k, o)
    \/ \E e \in Epochs, u \in Threads : Pass(e, u)
    \/ \E t \in Threads, e \in Epochs : Submit(t, e)

SubmitAny == \E t \in Threads, e \in Epochs : Submit(t, e)

SerStep == \E s \in Sers : SerTake(s) \/ SerSend(s) \/ SerExit(s)

CommitStep ==
    \/ CRecv \/ CClosed \/ CTake \/ CNoTake \/ CFlushBegin \/ CCommit
    \/ CPost \/ CPostDone \/ CAssert

AfterStep == ARecv \/ AExit

DropStep == DropClose \/ DropJoinSer \/ DropJoinCommit \/ DropJoinAc

Internal == SerStep \/ CommitStep \/ AfterStep \/ DropStep

Next == SubmitterStep \/ Internal \/ DropBegin \/ GateAllow

Spec == Init /\ [][Next]_vars

(* every created batch is eventually submitted, the environment eventually *)
(* shuts down and keeps the gate open; all workers are weakly fair         *)
FairSpec ==
    /\ Spec
    /\ WF_vars(SubmitAny)
    /\ WF_vars(DropBegin)
    /\ WF_vars(GateAllow)
    /\ \A s \in Sers : WF_vars(SerTake(s)) /\ WF_vars(SerSend(s)) /\ WF_vars(SerExit(s))
    /\ WF_vars(CommitStep)
    /\ WF_vars(AfterStep)
    /\ WF_vars(DropStep)

Symm == Permutations(Threads) \cup Permutations(Sers)

(* the same without the promise that the write manager is ever dropped:    *)
(* EventuallyDurable FAILS here (expected, see WriteBehindLinger.cfg): a    *)
(* batch taken into a physical batch that the store still wants to grow     *)
(* (`should_write_more()`) stays uncommitted until the next batch arrives   *)
(* or Drop runs - the guarantee is "by shutdown", not "eventually"          *)
FairSpecNoShutdown ==
    /\ Spec
    /\ WF_vars(SubmitAny)
    /\ WF_vars(GateAllow)
    /\ \A s \in Sers : WF_vars(SerTake(s)) /\ WF_vars(SerSend(s)) /\ WF_vars(SerExit(s))
    /\ WF_vars(CommitStep)
    /\ WF_vars(AfterStep)
    /\ WF_vars(DropStep)

(******************************* invariants *******************************)
TypeOK ==
    /\ nextEpoch \in 0..MaxBatch
    /\ st \in [Epochs -> {"none", "open", "sub"}]
    /\ \A e \in Epochs : (st[e] = "none") <=> (e >= nextEpoch)
    /\ serQ \subseteq Epochs /\ heap \subseteq Epochs
    /\ expected \in 0..MaxBatch
    /\ limit \in 1..MaxGroup
    /\ db \in [Keys -> Epochs \cup {Absent}]
    /\ gate \in 0..1

(* where a submitted batch currently is: exactly one place                 *)
Places(e) ==
    (IF e \in serQ THEN 1 ELSE 0)
    + Cardinality({s \in Sers : serHold[s] = e})
    + Cardinality({i \in 1..Len(commitCh) : commitCh[i] = e})
    + (IF e \in heap THEN 1 ELSE 0)
    + Cardinality({i \in 1..Len(current) : current[i] = e})
    + (IF cpc \in {"commit", "lastcommit"}
       THEN Cardinality({i \in 1..Len(toCommit) : toCommit[i] = e}) ELSE 0)
    + Cardinality({i \in 1..Len(Committed) : Committed[i] = e})

NoLossNoDup == \A e \in Epochs : Places(e) = (IF st[e] = "sub" THEN 1 ELSE 0)

(* the concatenated committed epochs are 0,1,2,... without gaps or repeats  *)
CommitOrder == \A i \in 1..Len(Committed) : Committed[i] = i - 1

ExactlyOnce ==
    /\ \A i, j \in 1..Len(Committed) : Committed[i] = Committed[j] => i = j
    /\ Range(Committed) \subseteq Submitted

GroupIsContiguous ==
    \A g \in 1..Len(log) :
        /\ log[g] # <<>>
        /\ \A i \in 1..(Len(log[g]) - 1) : log[g][i + 1] = log[g][i] + 1

(* at every instant the store is the sequential fold, in creation order,   *)
(* of the batches committed so far                                          *)
DbIsFoldOfPrefix == db = FoldUpTo(Len(Committed))

FinalContent ==
    (Open = {} /\ Len(Committed) = nextEpoch) => db = FoldUpTo(nextEpoch)

(* Drop returns only after every submitted batch is durable - provided no   *)
(* batch created before it was left unsubmitted (the documented stall)      *)
DropDrains ==
    dpc = "returned" =>
        \A e \in Submitted : (\E g \in Open : g < e) \/ e \in Range(Committed)

(* as the code is, Drop never returns at all past a gap (it aborts)         *)
DropDrainsStrict ==
    AbortOnGap => (dpc = "returned" => Submitted \subseteq Range(Committed))

(* caches are told "flushed" only for durable batches                       *)
NotifyAfterDurable ==
    (notified \cup skipped \cup Range(acQ)) \subseteq Range(Committed)

(* the expected stall: the process dies in Drop only when a created batch   *)
(* was never submitted and a later one was; then exactly the batches below  *)
(* the first gap are durable, everything above it is lost                   *)
StallOnlyBehindGap ==
    crashed =>
        /\ Open # {}
        /\ LET g == Min(Open) IN
            /\ Range(Committed) = 0..(g - 1)
            /\ heap = {e \in Submitted : e > g}
            /\ heap # {}

(* while the pipeline runs, nothing above an unsubmitted epoch is durable   *)
HeldBackBehindGap ==
    \A e \in Range(Committed) : \A g \in Open : g > e

NoCrashWithoutGap == (~AllowGap \/ ~AbortOnGap) => ~crashed

(******************************** liveness ********************************)
EventuallyDurable ==
    \A e \in Epochs : (st[e] = "sub") ~> (e \in Range(Committed))

DropReturns == (dpc # "idle") ~> (dpc = "returned")

ShutdownHappens == <>(dpc = "returned")
=============================================================================
