SPECIFICATION TraceSpec
CONSTANTS
  Keys <- TKeys
  Clients <- TClients
  Vals <- TVals
  MaxBatches = 0
  MaxOps = 0
  StaleFill = TRUE
  Gen = TRUE
VIEW tview
INVARIANT NotDone
CHECK_DEADLOCK FALSE
