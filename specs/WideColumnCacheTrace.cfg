SPECIFICATION TraceSpec
CONSTANTS
  Keys <- TKeys
  Clients <- TClients
  Vals <- TVals
  MaxBatches = 0
  MaxOps = 0
  StaleFill = TRUE
  FillOverwrite = FALSE
  NoNegativeEntry = FALSE
  Gen = TRUE
VIEW tview
INVARIANT NotDone
CHECK_DEADLOCK FALSE
