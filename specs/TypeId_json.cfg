\* C14 generator + design check over the real-side signature (env C14_SIG).
SPECIFICATION Spec
CONSTANTS
  Symbols <- JsonSymbols
  Profiles <- JsonProfiles
  Combine = "free"
  Forget <- NoForget
  Flatten = FALSE
  IgnoreSize = FALSE
  Emit = TRUE
INVARIANTS TypeOK Injective OrderSensitive NestingSensitive UniqueDecoding
POSTCONDITION Stats
CHECK_DEADLOCK FALSE
