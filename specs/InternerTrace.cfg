SPECIFICATION Spec
INVARIANT CanonicalWhileClean
POSTCONDITION TraceAccepted
CHECK_DEADLOCK FALSE
