----------------------------- MODULE LockTable -----------------------------
(***************************************************************************)
(* The per-query lock table (query_lock_manager.rs) on top of the          *)
(* admission cache.  An instance is an Arc<RwLock<()>>; the table holds    *)
(* one strong reference, every OwnedLock / guard outside holds one more.   *)
(* ActiveLockLifecycleListener reports an entry pinned iff                 *)
(* Arc::strong_count > 1, and the cache may evict ANY entry that is not    *)
(* pinned at the instant remove_closure asks under the entry lock.         *)
(*                                                                         *)
(* get_lock_instance:                                                      *)
(*   FastHit   hot.get(q) found an entry: clone under the shared lock      *)
(*   FastMiss  hot.get(q) found nothing; a fresh instance is allocated     *)
(*   Slow      hot.entry(q): Vacant -> insert a clone, return the fresh    *)
(*             instance; Occupied -> clone the resident one (the fresh one *)
(*             is dropped)                                                 *)
(* acquire_*: Arc clone for the owned guard, wait for the RwLock of THAT   *)
(* instance, the OwnedLock is dropped when the function returns; the guard *)
(* keeps the instance referenced until Release.                            *)
(*                                                                         *)
(* AtomicRecheck = TRUE is the code (decision and removal in one critical  *)
(* section); FALSE is a seeded mutation (decision, then removal) that the  *)
(* self-test uses to show the invariants are not vacuous.                  *)
(***************************************************************************)
EXTENDS Integers, FiniteSets, TLC

CONSTANTS Tasks, Queries, MaxInst, AtomicRecheck

VARIABLES table,    \* query -> instance id in the cache (0 = none)
          refs,     \* instance -> number of references outside the table
          owner,    \* instance -> query it was created for
          next,     \* next fresh instance id
          pc, q, cur, excl,   \* per task: label, query, instance, mode
          marked    \* mutation only: queries whose eviction was decided

vars == <<table, refs, owner, next, pc, q, cur, excl, marked>>
Inst == 1..MaxInst

Init ==
    /\ table = [x \in Queries |-> 0]
    /\ refs = [i \in Inst |-> 0]
    /\ owner = [i \in Inst |-> 0]
    /\ next = 1
    /\ pc = [t \in Tasks |-> "idle"]
    /\ q = [t \in Tasks |-> 0]
    /\ cur = [t \in Tasks |-> 0]
    /\ excl = [t \in Tasks |-> TRUE]
    /\ marked = {}

Start(t, x, e) ==
    /\ pc[t] = "idle"
    /\ pc' = [pc EXCEPT ![t] = "get"]
    /\ q' = [q EXCEPT ![t] = x]
    /\ excl' = [excl EXCEPT ![t] = e]
    /\ UNCHANGED <<table, refs, owner, next, cur, marked>>

FastHit(t) ==
    /\ pc[t] = "get" /\ table[q[t]] # 0
    /\ cur' = [cur EXCEPT ![t] = table[q[t]]]
    /\ refs' = [refs EXCEPT ![table[q[t]]] = @ + 1]
    /\ pc' = [pc EXCEPT ![t] = "wait"]
    /\ UNCHANGED <<table, owner, next, q, excl, marked>>

FastMiss(t) ==
    /\ pc[t] = "get" /\ table[q[t]] = 0 /\ next <= MaxInst
    /\ cur' = [cur EXCEPT ![t] = next]
    /\ refs' = [refs EXCEPT ![next] = 1]
    /\ owner' = [owner EXCEPT ![next] = q[t]]
    /\ next' = next + 1
    /\ pc' = [pc EXCEPT ![t] = "slow"]
    /\ UNCHANGED <<table, q, excl, marked>>

Slow(t) ==
    /\ pc[t] = "slow"
    /\ IF table[q[t]] = 0
       THEN /\ table' = [table EXCEPT ![q[t]] = cur[t]]
            /\ UNCHANGED <<refs, cur>>
       ELSE /\ refs' = [refs EXCEPT ![cur[t]] = @ - 1, ![table[q[t]]] = @ + 1]
            /\ cur' = [cur EXCEPT ![t] = table[q[t]]]
            /\ table' = table
    /\ pc' = [pc EXCEPT ![t] = "wait"]
    /\ UNCHANGED <<owner, next, q, excl, marked>>

HoldersOf(i) == {u \in Tasks : pc[u] = "held" /\ cur[u] = i}

Acquire(t) ==
    /\ pc[t] = "wait"
    /\ IF excl[t] THEN HoldersOf(cur[t]) = {}
       ELSE \A u \in HoldersOf(cur[t]) : ~excl[u]
    /\ pc' = [pc EXCEPT ![t] = "held"]
    /\ UNCHANGED <<table, refs, owner, next, q, cur, excl, marked>>

Release(t) ==
    /\ pc[t] = "held"
    /\ refs' = [refs EXCEPT ![cur[t]] = @ - 1]
    /\ pc' = [pc EXCEPT ![t] = "idle"]
    /\ cur' = [cur EXCEPT ![t] = 0]
    /\ UNCHANGED <<table, owner, next, q, excl, marked>>

(* the cache evicts an entry whose listener says "not pinned"              *)
Evict(x) ==
    /\ AtomicRecheck
    /\ table[x] # 0 /\ refs[table[x]] = 0
    /\ table' = [table EXCEPT ![x] = 0]
    /\ UNCHANGED <<refs, owner, next, pc, q, cur, excl, marked>>

Decide(x) ==
    /\ ~AtomicRecheck
    /\ table[x] # 0 /\ refs[table[x]] = 0 /\ x \notin marked
    /\ marked' = marked \cup {x}
    /\ UNCHANGED <<table, refs, owner, next, pc, q, cur, excl>>

RemoveMarked(x) ==
    /\ ~AtomicRecheck /\ x \in marked
    /\ table' = [table EXCEPT ![x] = 0]
    /\ marked' = marked \ {x}
    /\ UNCHANGED <<refs, owner, next, pc, q, cur, excl>>

Next ==
    \/ \E t \in Tasks, x \in Queries, e \in BOOLEAN : Start(t, x, e)
    \/ \E t \in Tasks : FastHit(t) \/ FastMiss(t) \/ Slow(t) \/ Acquire(t) \/ Release(t)
    \/ \E x \in Queries : Evict(x) \/ Decide(x) \/ RemoveMarked(x)

Spec == Init /\ [][Next]_vars

---------------------------------------------------------------------------
Active(t) == pc[t] \in {"wait", "held"}

(* two tasks asking for the lock of the same query contend on the same lock *)
SameInstance ==
    \A t, u \in Tasks : (Active(t) /\ Active(u) /\ q[t] = q[u]) => cur[t] = cur[u]

(* consequence: reader/writer exclusion per QUERY, not just per instance   *)
MutualExclusion ==
    \A t, u \in Tasks :
        (t # u /\ pc[t] = "held" /\ pc[u] = "held" /\ q[t] = q[u]) => (~excl[t] /\ ~excl[u])

(* an instance that is referenced outside and is in the table stays there  *)
ReferencedStaysResident ==
    \A t \in Tasks : Active(t) => table[q[t]] = cur[t]

TypeOK == \A i \in Inst : refs[i] >= 0
=============================================================================
