SPECIFICATION Spec
CONSTANTS
  Tasks = {1, 2}
  Queries = {1, 2, 3, 4}
  Deps <- DepsR2
  Roots <- RootsR2b
  SubscribeLate = FALSE
  MaxAbandon = 0
  SilentAbandon = FALSE
  RegisterLate = TRUE
  MarkCallerOnly = FALSE
INVARIANT SingleFlight
INVARIANT OncePerEpoch
INVARIANT NoOrphanWaiter
INVARIANT NoStall
INVARIANT CutOnlyOnCycle
INVARIANT CutExact
CHECK_DEADLOCK FALSE
