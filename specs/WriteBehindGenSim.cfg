SPECIFICATION GSpec
CONSTANTS
  Threads = {1,2,3}
  Sers = {1,2}
  MaxBatch = 4
  Keys = {1,2}
  MaxFill = 2
  MaxGroup = 3
  Gated = TRUE
  AllowGap = FALSE
  AllowPass = TRUE
  MaxPass = 2
  MinDrop = 3
  Eager = FALSE
  AbortOnGap = TRUE
  DefectTakeAny = FALSE
  DefectNoJoin = FALSE
INVARIANT GenInv
CHECK_DEADLOCK FALSE
