-------------------------- MODULE EngineObsTrace --------------------------
(***************************************************************************)
(* Trace validation of recorded engine executions against EngineObs.       *)
(* The trace (ndjson, environment variable TRACE) is a concatenation of    *)
(* runs; each run starts with a `prog` event and ends with `reset`.        *)
(* One event is consumed per step; every action of EngineObs is total, so  *)
(* the whole trace is always consumed and all violations are collected.    *)
(* The result (violations + counters) is written as JSON to env OUT.       *)
(***************************************************************************)
EXTENDS EngineObs, Json, IOUtils

VARIABLES l, done

Rec == ndJsonDeserialize(IOEnv.TRACE)

traceVars == <<obsVars, l, done>>

DummyProg == [m |-> 2, nodes |-> <<>>]

TraceInit ==
    /\ l = 1
    /\ done = FALSE
    /\ InitFor(DummyProg)
    /\ viol = <<>>
    /\ stats = ZeroStats

Ev == Rec[l]

IsEvent(e) == l <= Len(Rec) /\ Ev.e = e

Consume == /\ l' = l + 1 /\ done' = done

StartRun ==
    /\ IsEvent("prog")
    /\ LET p == Ev.prog IN
        /\ prog' = p
        /\ inputs' = [n \in 1..Len(p.nodes) |-> None]
        /\ pend' = [n \in 1..Len(p.nodes) |-> None]
        /\ insess' = FALSE
        /\ refreshing' = FALSE
        /\ world' = [n \in 1..Len(p.nodes) |-> 0]
        /\ sample' = [n \in 1..Len(p.nodes) |-> None]
        /\ pendSample' = [n \in 1..Len(p.nodes) |-> None]
        /\ epoch' = 0
        /\ live' = {}
        /\ snap' = [t \in 0..15 |-> [n \in 1..Len(p.nodes) |-> None]]
        /\ lastRun' = [n \in 1..Len(p.nodes) |-> [has |-> FALSE, reads |-> <<>>]]
        /\ ran' = {}
        /\ running' = {}
        /\ tainted' = {}
        /\ outLast' = [n \in 1..Len(p.nodes) |-> None]
        /\ outPrev' = [n \in 1..Len(p.nodes) |-> None]
        /\ kfTaint' = [n \in 1..Len(p.nodes) |-> ""]
        /\ nested' = {}
        /\ topDone' = {}
        /\ bpSkip' = {}
        /\ spSeen' = {}
        /\ kfFw' = {}
        /\ kfHard' = [n \in 1..Len(p.nodes) |-> ""]
        /\ lagFw' = {}
        /\ mustCut' = {}
        /\ ranAt' = [n \in 1..Len(p.nodes) |-> 0]
        /\ verAt' = [n \in 1..Len(p.nodes) |-> 0]
        /\ histIn' = <<>>
        /\ crashed' = FALSE
        /\ armed' = None
        /\ fired' = FALSE
        /\ viol' = IF Acyclic(p) \/ CycWellFormed(p) THEN viol
                   ELSE Append(viol, V(l, "harness_cyclic_program", 0, 0, 0))
        /\ stats' = stats
    /\ Consume

EndRun ==
    /\ IsEvent("reset")
    /\ viol' = IF running # {} THEN Append(viol, V(l, "executor_still_running_at_end", 0, 0, 0)) ELSE viol
    /\ UNCHANGED <<prog, sessVars, world, rdrVars, runVars, kfVars, crVars, stats>>
    /\ Consume

TBegin == IsEvent("begin") /\ Begin(l) /\ Consume
TSet == IsEvent("set") /\ Set(l, Ev.n, Ev.v, Ev.r) /\ Consume
TWorld == IsEvent("world") /\ World(l, Ev.n, Ev.v) /\ Consume
TRefreshStart == IsEvent("refresh_start") /\ RefreshStart(l) /\ Consume
TRefresh == IsEvent("refresh") /\ Refresh(l) /\ Consume
TCommit == IsEvent("commit") /\ Commit(l) /\ Consume
TTracked == IsEvent("tracked") /\ Tracked(l, Ev.t) /\ Consume
TDrop == IsEvent("drop") /\ DropTracked(l, Ev.t) /\ Consume
TQuery == IsEvent("query") /\ Query(l, Ev.t, Ev.n, Ev.v) /\ Consume
TEnter == IsEvent("enter") /\ Enter(l, Ev.n) /\ Consume
TRead == IsEvent("read") /\ Read(l, Ev.n, Ev.d, Ev.v) /\ Consume
TExec ==
    /\ IsEvent("exec")
    /\ IF ~Ev.ok THEN ExecCut(l, Ev.n)
       ELSE IF prog.nodes[Ev.n].kind = "Ex" THEN ExecExternal(l, Ev.n, Ev.out)
       ELSE ExecNormal(l, Ev.n, Ev.reads, Ev.out)
    /\ Consume
TRestart == IsEvent("restart") /\ Restart(l) /\ Consume
TCrash == IsEvent("crash") /\ Crash(l) /\ Consume
TRecovered == IsEvent("recovered") /\ Recovered(l, Ev.inputs) /\ Consume
TCrashPanic == IsEvent("crash_panic") /\ CrashPanic(l) /\ Consume
THang == IsEvent("hang") /\ Hang(l) /\ Consume
TQPanic == IsEvent("qpanic") /\ QueryPanicked(l, Ev.n) /\ Consume
TArm == IsEvent("arm") /\ Arm(l, Ev.n) /\ Consume
TDisarm == IsEvent("disarm") /\ Disarm(l) /\ Consume
TCancel == IsEvent("cancel") /\ Cancelled(l) /\ Consume
TCyc == IsEvent("cyc") /\ CycProbe(l, Ev.callee, Ev.target, Ev.edges, Ev.found) /\ Consume
(* markers and state dumps belong to the mechanism-level conformance *)
TSkip == l <= Len(Rec) /\ Ev.e \in {"act", "dump"} /\ UNCHANGED obsVars /\ Consume

Known == {"prog", "reset", "begin", "set", "world", "refresh_start", "refresh",
          "commit", "tracked", "drop", "query", "enter", "read", "exec", "restart",
          "crash", "recovered", "crash_panic", "hang", "qpanic", "arm", "disarm", "cancel", "cyc",
          "act", "dump"}

TUnknown ==
    /\ l <= Len(Rec) /\ Ev.e \notin Known
    /\ viol' = Append(viol, V(l, "harness_unknown_event", 0, 0, 0))
    /\ UNCHANGED <<prog, sessVars, world, rdrVars, runVars, kfVars, crVars, stats>>
    /\ Consume

Finish ==
    /\ l = Len(Rec) + 1
    /\ ~done
    /\ JsonSerialize(IOEnv.OUT, [events |-> Len(Rec), stats |-> stats, viol |-> viol])
    /\ done' = TRUE
    /\ l' = l
    /\ UNCHANGED obsVars

TraceNext ==
    \/ StartRun \/ EndRun \/ TBegin \/ TSet \/ TWorld \/ TRefreshStart \/ TRefresh
    \/ TCommit \/ TTracked \/ TDrop \/ TQuery \/ TEnter \/ TRead \/ TExec \/ TRestart
    \/ TCrash \/ TRecovered \/ TCrashPanic \/ THang \/ TQPanic \/ TArm \/ TDisarm \/ TCancel \/ TCyc \/ TSkip
    \/ TUnknown \/ Finish

TraceSpec == TraceInit /\ [][TraceNext]_traceVars

(* The trace is accepted when it was consumed to the end.                  *)
TraceAccepted ==
    LET d == TLCGet("stats").diameter IN
    IF d >= Len(Rec) + 2 THEN TRUE
    ELSE Print(<<"TRACE NOT CONSUMED: stopped before event", d, "of", Len(Rec)>>, FALSE)
=============================================================================
