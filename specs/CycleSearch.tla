---------------------------- MODULE CycleSearch ----------------------------
(***************************************************************************)
(* The engine's cycle search (computing.rs check_cyclic), transcribed step *)
(* by step, checked against its contract over ALL small graphs.            *)
(*                                                                         *)
(* Situation: the computing query `target` requests `callee`, which is     *)
(* computing too.  The computing queries and the callees they have         *)
(* registered so far form a digraph (`Edges`: node -> set of callees; a    *)
(* callee that is not computing has no entry).  Contract:                  *)
(*   answer  = callee reaches target                                       *)
(*   marked  = every query reachable from callee that reaches target       *)
(*             (these lie on the cycle that the new edge closes: they must *)
(*             evaluate to their cycle default; `mustCut` in EngineObs)    *)
(* Algorithm as coded: phase 1 collects the reachable computing queries    *)
(* breadth first with a visited set (66a653d: without it the search does   *)
(* not terminate when the graph already contains a cycle); phase 2 marks   *)
(* to a fixpoint.  Mutation switches: NoVisited (phase 1 without the       *)
(* visited set, bounded here by a step budget), SingleSweep (phase 2 as    *)
(* one backward pass over the breadth-first list).                         *)
(*                                                                         *)
(* TLC enumerates every digraph on Nodes (Init chooses the edges, the      *)
(* callee, the target and, through the order in which set elements are     *)
(* taken, every breadth-first order).                                      *)
(***************************************************************************)
EXTENDS Integers, Sequences, FiniteSets, TLC

CONSTANTS Nodes,        \* computing queries (integers)
          NoVisited,    \* mutation: phase 1 revisits
          SingleSweep,  \* mutation: phase 2 is one backward pass
          Budget        \* step budget (termination check for NoVisited)

VARIABLES edges, callee, target,        \* the input (chosen in Init, then fixed)
          pc, list, seen, idx, pending, \* phase 1: BFS list, visited set, position, callees still to scan
          marked, pos, changed,         \* phase 2
          steps

vars == <<edges, callee, target, pc, list, seen, idx, pending, marked, pos, changed, steps>>

RECURSIVE Reach(_, _, _)
Reach(e, frontier, acc) ==
    LET nxt == (UNION {e[x] : x \in frontier}) \ acc
    IN  IF nxt = {} THEN acc ELSE Reach(e, nxt, acc \cup nxt)
ReachFrom(e, x) == Reach(e, {x}, {})                    \* nodes reachable in >= 1 step
OnPath(e, c, t) == {x \in ({c} \cup ReachFrom(e, c)) : t \in ReachFrom(e, x)}

Init ==
    /\ edges \in [Nodes -> SUBSET Nodes]
    \* up to renaming of the nodes the callee is node 1 and the target node 1 or 2
    /\ callee = 1 /\ target \in {1, 2}
    /\ pc = "bfs_take" /\ list = <<callee>> /\ seen = {callee} /\ idx = 1 /\ pending = {}
    /\ marked = {} /\ pos = 0 /\ changed = FALSE /\ steps = 0

Tick == steps' = steps + 1

(* phase 1: take the next list element and look at its callees one by one *)
BfsTake ==
    /\ pc = "bfs_take" /\ steps < Budget
    /\ IF idx > Len(list)
       THEN /\ pc' = "mark" /\ pos' = (IF SingleSweep THEN Len(list) ELSE 1) /\ changed' = FALSE
            /\ UNCHANGED <<list, seen, idx, pending>>
       ELSE /\ pending' = edges[list[idx]] /\ pc' = "bfs_scan"
            /\ UNCHANGED <<list, seen, idx, pos, changed>>
    /\ Tick /\ UNCHANGED <<edges, callee, target, marked>>

BfsScan ==
    /\ pc = "bfs_scan" /\ steps < Budget
    /\ IF pending = {}
       THEN /\ idx' = idx + 1 /\ pc' = "bfs_take" /\ UNCHANGED <<list, seen, pending>>
       ELSE \E k \in pending :              \* the hash map's iteration order: any
              /\ pending' = pending \ {k}
              /\ IF k \in seen /\ ~NoVisited
                 THEN UNCHANGED <<list, seen>>
                 ELSE /\ seen' = seen \cup {k} /\ list' = Append(list, k)
              /\ UNCHANGED <<idx, pc>>
    /\ Tick /\ UNCHANGED <<edges, callee, target, marked, pos, changed>>

ReachesTarget(x) == target \in edges[x] \/ edges[x] \cap marked # {}

(* phase 2 as coded: scan the list repeatedly until nothing changes *)
MarkFix ==
    /\ pc = "mark" /\ ~SingleSweep /\ steps < Budget
    /\ IF pos > Len(list)
       THEN IF changed THEN /\ pos' = 1 /\ changed' = FALSE /\ UNCHANGED <<pc, marked>>
                       ELSE /\ pc' = "done" /\ UNCHANGED <<pos, changed, marked>>
       ELSE LET x == list[pos] IN
            /\ IF x \notin marked /\ ReachesTarget(x)
               THEN marked' = marked \cup {x} /\ changed' = TRUE
               ELSE UNCHANGED <<marked, changed>>
            /\ pos' = pos + 1 /\ UNCHANGED pc
    /\ Tick /\ UNCHANGED <<edges, callee, target, list, seen, idx, pending>>

(* mutation: one backward pass *)
MarkSweep ==
    /\ pc = "mark" /\ SingleSweep /\ steps < Budget
    /\ IF pos < 1
       THEN pc' = "done" /\ UNCHANGED <<pos, marked>>
       ELSE LET x == list[pos] IN
            /\ marked' = IF ReachesTarget(x) THEN marked \cup {x} ELSE marked
            /\ pos' = pos - 1 /\ UNCHANGED pc
    /\ Tick /\ UNCHANGED <<edges, callee, target, list, seen, idx, pending, changed>>

Next == BfsTake \/ BfsScan \/ MarkFix \/ MarkSweep
Spec == Init /\ [][Next]_vars

Answer == callee \in marked

(* the contract, at termination *)
MarksTheCycle == pc = "done" => marked = OnPath(edges, callee, target)
AnswerRight == pc = "done" => (Answer <=> target \in ReachFrom(edges, callee))
(* the search terminates within a budget that is generous for the as-coded variant:
   every node enters the list once, phase 2 needs at most |Nodes|+1 passes *)
Terminates == steps < Budget
=============================================================================
