SPECIFICATION Spec
CONSTANTS
  Pool <- PoolI
  Kids <- KidsI
  MaxEnc = 3
  Aux = TRUE
  AllowUnregistered = TRUE
  PinDecoded = TRUE
  Emitting = FALSE
CHECK_DEADLOCK FALSE
INVARIANTS
  FIFO
  PosOk
  SelfContained
  TabOk
