SPECIFICATION Spec
CONSTANTS
  Tasks = {1, 2, 3}
  Queries = {1, 2, 3, 4}
  Deps <- DepsDef
  Roots <- Roots3
  SubscribeLate = FALSE
  MaxAbandon = 1
  SilentAbandon = FALSE
  RegisterLate = FALSE
  MarkCallerOnly = FALSE
INVARIANT SingleFlight
INVARIANT OncePerEpoch
INVARIANT NoOrphanWaiter
CHECK_DEADLOCK FALSE
