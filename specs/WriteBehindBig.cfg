\* exhaustive safety configuration (thorough tier): 3 submitters, 2 serializers,
\* 4 batches over 1 key (every batch overlaps), ungated store, gaps allowed
\* (with 2 keys: > 25 M distinct states, > 30 min; the 2-key space is covered by WriteBehind.cfg)
SPECIFICATION Spec
CONSTANTS
  Threads = {t1, t2, t3}
  Sers = {s1, s2}
  MaxBatch = 4
  Keys = {k1}
  MaxFill = 1
  MaxGroup = 2
  Gated = FALSE
  AllowGap = TRUE
  AllowPass = FALSE
  AbortOnGap = TRUE
  DefectTakeAny = FALSE
  DefectNoJoin = FALSE
SYMMETRY Symm
INVARIANTS
  TypeOK
  NoLossNoDup
  CommitOrder
  ExactlyOnce
  GroupIsContiguous
  DbIsFoldOfPrefix
  FinalContent
  DropDrains
  DropDrainsStrict
  NotifyAfterDurable
  StallOnlyBehindGap
  HeldBackBehindGap
  NoCrashWithoutGap
CHECK_DEADLOCK FALSE
