SPECIFICATION Spec
CONSTANTS
  Pool <- PoolI
  Kids <- KidsI
  MaxEnc = 3
  Aux = TRUE
  AllowUnregistered = TRUE
  PinDecoded = TRUE
  Emitting = TRUE
CHECK_DEADLOCK FALSE

