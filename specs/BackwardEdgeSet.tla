-------------------------- MODULE BackwardEdgeSet --------------------------
(***************************************************************************)
(* The tiered set that stores the callers of a query                       *)
(* (CompressedBackwardEdgeSet in computation_graph/database.rs): a small   *)
(* vector behind an inner lock that is upgraded to a concurrent hash set   *)
(* once it holds Thr elements (32 in the code), all behind an outer        *)
(* reader/writer lock.  Several tasks insert callers of the same callee    *)
(* concurrently (each holds only the lock of its *own* query), and dirty   *)
(* propagation iterates the set.                                           *)
(*                                                                         *)
(* Property (C02, "a dependency recorded by one of many concurrent callers *)
(* of the same callee is never lost"): the set behaves like a linearizable *)
(* set; here: an element whose insert completed is seen by every later     *)
(* iteration, and at quiescence the content is exactly the inserted set.   *)
(*                                                                         *)
(* Atomic = FALSE models the code as found: the upgrade drains the vector, *)
(* releases both locks and only then takes the outer write lock to install *)
(* the hash set.  Atomic = TRUE models the repaired code: a full vector is *)
(* upgraded under the outer write lock.                                    *)
(***************************************************************************)
EXTENDS Integers, Sequences, FiniteSets, TLC, Json

CONSTANTS Threads,  \* thread ids 1..n ; thread t inserts the elements Elems[t] in order
          Elems,    \* function thread -> sequence of elements
          Thr,      \* upgrade threshold
          Atomic,   \* TRUE = repaired
          Emit      \* generator mode

VARIABLES tier, vec, large, pc, idx, built, completed, iters, hist, done

vars == <<tier, vec, large, pc, idx, built, completed, iters, hist, done>>

Init ==
    /\ tier = "small" /\ vec = {} /\ large = {}
    /\ pc = [t \in Threads |-> "idle"]
    /\ idx = [t \in Threads |-> 1]
    /\ built = [t \in Threads |-> {}]
    /\ completed = {}
    /\ iters = <<>>       \* observations: [seen, mustSee]
    /\ hist = <<>> /\ done = FALSE

Cur(t) == Elems[t][idx[t]]
Content == IF tier = "small" THEN vec ELSE large
Step(t, s) == hist' = Append(hist, [t |-> t, s |-> s])

Finished(t) == idx[t] > Len(Elems[t])

(* insert into the small vector (outer read lock + inner write lock held) *)
InsertSmall(t) ==
    /\ pc[t] = "idle" /\ ~Finished(t)
    /\ tier = "small" /\ Cardinality(vec) < Thr
    /\ vec' = vec \cup {Cur(t)}
    /\ completed' = completed \cup {Cur(t)}
    /\ idx' = [idx EXCEPT ![t] = @ + 1]
    /\ Step(t, "insert")
    /\ UNCHANGED <<tier, large, pc, built, iters, done>>

InsertLarge(t) ==
    /\ pc[t] = "idle" /\ ~Finished(t)
    /\ tier = "large"
    /\ large' = large \cup {Cur(t)}
    /\ completed' = completed \cup {Cur(t)}
    /\ idx' = [idx EXCEPT ![t] = @ + 1]
    /\ Step(t, "insert")
    /\ UNCHANGED <<tier, vec, pc, built, iters, done>>

(* as found: the full vector is drained into a private hash set, the locks *)
(* are released, the thread is now in the window before the install        *)
Drain(t) ==
    /\ ~Atomic
    /\ pc[t] = "idle" /\ ~Finished(t)
    /\ tier = "small" /\ Cardinality(vec) = Thr
    /\ built' = [built EXCEPT ![t] = vec \cup {Cur(t)}]
    /\ vec' = {}
    /\ pc' = [pc EXCEPT ![t] = "window"]
    /\ Step(t, "insert_begin")
    /\ UNCHANGED <<tier, large, idx, completed, iters, done>>

Install(t) ==
    /\ ~Atomic /\ pc[t] = "window"
    /\ tier' = "large"
    /\ large' = built[t]
    /\ completed' = completed \cup {Cur(t)}
    /\ idx' = [idx EXCEPT ![t] = @ + 1]
    /\ pc' = [pc EXCEPT ![t] = "idle"]
    /\ Step(t, "insert_end")
    /\ UNCHANGED <<vec, built, iters, done>>

(* repaired: the thread leaves the read lock (window: nothing changed yet) *)
(* and performs the upgrade under the outer write lock                     *)
LeaveFull(t) ==
    /\ Atomic
    /\ pc[t] = "idle" /\ ~Finished(t)
    /\ tier = "small" /\ Cardinality(vec) = Thr
    /\ pc' = [pc EXCEPT ![t] = "window"]
    /\ Step(t, "insert_begin")
    /\ UNCHANGED <<tier, vec, large, idx, built, completed, iters, done>>

UpgradeLocked(t) ==
    /\ Atomic /\ pc[t] = "window"
    /\ IF tier = "large" THEN /\ large' = large \cup {Cur(t)} /\ UNCHANGED <<tier, vec>>
       ELSE IF Cardinality(vec) < Thr THEN /\ vec' = vec \cup {Cur(t)} /\ UNCHANGED <<tier, large>>
       ELSE /\ tier' = "large" /\ large' = vec \cup {Cur(t)} /\ vec' = {}
    /\ completed' = completed \cup {Cur(t)}
    /\ idx' = [idx EXCEPT ![t] = @ + 1]
    /\ pc' = [pc EXCEPT ![t] = "idle"]
    /\ Step(t, "insert_end")
    /\ UNCHANGED <<built, iters, done>>

(* an iteration (dirty propagation reading the callers)                    *)
Iterate ==
    /\ Len(iters) < 2 /\ ~done
    /\ iters' = Append(iters, [seen |-> Content, must |-> completed])
    /\ Step(0, "iter")
    /\ UNCHANGED <<tier, vec, large, pc, idx, built, completed, done>>

Terminal == \A t \in Threads : Finished(t) /\ pc[t] = "idle"

Finish ==
    /\ Terminal /\ ~done
    /\ done' = TRUE
    /\ IF Emit THEN PrintT(ToJson([steps |-> hist,
                                   lost |-> (completed \ Content) # {}])) ELSE TRUE
    /\ UNCHANGED <<tier, vec, large, pc, idx, built, completed, iters, hist>>

Next ==
    \/ \E t \in Threads : InsertSmall(t) \/ InsertLarge(t) \/ Drain(t) \/ Install(t)
                          \/ LeaveFull(t) \/ UpgradeLocked(t)
    \/ Iterate \/ Finish

Spec == Init /\ [][Next]_vars

(* every completed insert is in the set *)
NoLostInsert == completed \subseteq Content
(* an iteration sees every insert that completed before it started *)
IterSeesCompleted == \A i \in 1..Len(iters) : iters[i].must \subseteq iters[i].seen

View == <<tier, vec, large, pc, idx, built, completed, iters, done>>
=============================================================================
