SPECIFICATION Spec
CONSTANTS
  MaxEpochs = 4
  MaxSets = 2
  MaxQueries = 3
  Restarts = FALSE
CHECK_DEADLOCK FALSE
