--------------------------- MODULE EngineConcGen ---------------------------
(***************************************************************************)
(* Behaviour generator for EngineConc: every behaviour is a schedule       *)
(* (sequence of task steps) that harness/src/bin/conc_sched.rs forces on   *)
(* the real engine through the cfg-guarded points.  Each step carries the  *)
(* frame the task is expected to be in afterwards (query and point), so    *)
(* the replay can tell where the code leaves the specification.            *)
(* Run with `tlc -simulate`; `hist` is hidden from the state by VIEW.      *)
(***************************************************************************)
EXTENDS EngineConc, Json

VARIABLE hist
gvars == <<vars, hist>>

(* programs *)
DepsA == <<  <<>>, <<1>>, <<2, 1>>, <<3, 2>>  >>          \* chain with shared tails
RootsA == <<4, 3, 4>>
DepsB == <<  <<>>, <<1>>, <<1>>, <<2, 3>>, <<4, 1>> >>    \* diamond below 4, 5 on top
RootsB == <<5, 4, 2>>
DepsC == <<  <<>>, <<1>>, <<2>> >>                         \* chain, everybody asks for the top
RootsC == <<3, 3, 3>>
DepsD == <<  <<>>, <<>>, <<1, 2>>, <<2, 1>>, <<3, 4>>, <<4, 3>> >>   \* crossing orders
RootsD == <<5, 6>>

\* cyclic programs (C06): see MCEngineConc
DepsE == <<  <<4, 2>>, <<1>>, <<1>>, <<>>  >>               \* ring of two behind a leaf read, a consumer
RootsE == <<1, 2, 3>>
DepsF == <<  <<2>>, <<3>>, <<1>>, <<2>>  >>                  \* ring of three entered at every member
RootsF == <<1, 2, 3>>
DepsG == <<  <<1>>, <<1>>, <<2, 4>>, <<3>>  >>               \* self-loop behind a chain, and a second ring
RootsG == <<2, 3, 4>>

After(t) == IF Len(stack'[t]) = 0 THEN [q |-> 0, pc |-> "done"]
            ELSE [q |-> stack'[t][Len(stack'[t])].q, pc |-> stack'[t][Len(stack'[t])].pc]

Step(t, a) == hist' = Append(hist, [t |-> t, a |-> a, q |-> After(t).q, pc |-> After(t).pc])

GInit == Init /\ hist = <<>>
GNext ==
    \E t \in Tasks :
        \/ Start(t) /\ Step(t, "Start")
        \/ Woken(t) /\ Step(t, "Woken")
        \/ FastHit(t) /\ Step(t, "FastHit")
        \/ FastMiss(t) /\ Step(t, "FastMiss")
        \/ Exec(t) /\ Step(t, "Exec")
        \/ Publish(t) /\ Step(t, "Publish")
        \/ Abandon(t) /\ Step(t, "AbandonCancel")
        \/ Abandon(t) /\ Step(t, "AbandonPanic")
GSpec == GInit /\ [][GNext]_gvars

View == vars

(* one line per finished behaviour *)
Emit == AllDone => PrintT(ToJson([steps |-> hist, execs |-> execs, cut |-> cut]))
=============================================================================
