\* C14 mutation (c): two constructors share one name string - must FAIL
SPECIFICATION Spec
CONSTANTS
  Symbols <- SameNameSymbols
  Profiles <- SmallProfiles
  Combine = "free"
  Forget <- NoForget
  Flatten = FALSE
  IgnoreSize = FALSE
  Emit = FALSE
INVARIANTS Injective
ALIAS Shown
CHECK_DEADLOCK FALSE
