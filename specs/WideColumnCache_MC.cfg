\* exhaustive, repaired fill (1 key, values {absent,1,2}, 3 batches, 2 clients x 4 ops): all invariants hold
SPECIFICATION Spec
CONSTANTS
  Keys = {k1}
  Vals = {1, 2}
  Clients = {c1, c2}
  MaxBatches = 3
  MaxOps = 4
  StaleFill = FALSE
  FillOverwrite = FALSE
  NoNegativeEntry = FALSE
  Gen = FALSE
SYMMETRY Sym
VIEW view
INVARIANTS ReadYourWrites RememberedAbsence StoreCurrent CacheCurrent
CHECK_DEADLOCK FALSE
