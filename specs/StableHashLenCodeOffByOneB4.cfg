\* C13 length-code design check: thorough MUTATION off-by-one at bytes 0..3 (255/256 scaled to 3/4)
SPECIFICATION Spec
CONSTANTS
  B = 4
  W = 2
  MaxLen = 4
  MaxOuter = 2
  Shapes = {"pair", "nested"}
  Enc <- EncCompactOffByOne
INVARIANTS TypeOK DecoderSound Derivation UniquelyDecodable
ALIAS Show
CHECK_DEADLOCK FALSE
