\* mutant LateSnapshot (snapshot after the streaming scan was opened), everything else repaired: TLC must report ReadYourWrites violated
SPECIFICATION Spec
CONSTANTS
  Keys = {k1}
  Elems = {1, 2}
  Clients = {c1, c2}
  MaxBatches = 3
  MaxOps = 2
  T = 1
  LostInsert = FALSE
  FlushMax = FALSE
  FoldCancel = FALSE
  SpillCut = FALSE
  LateSnapshot = TRUE
  LateSnapFetch = FALSE
  SplitAppend = FALSE
  Gen = FALSE
  PrintCex = FALSE
SYMMETRY Sym
VIEW view
INVARIANTS ReadYourWrites
CHECK_DEADLOCK FALSE
