SPECIFICATION FairSpec
CONSTANTS
  Tasks = {1, 2}
  Queries = {1, 2, 3, 4}
  Deps <- DepsDef
  Roots <- Roots2
  SubscribeLate = FALSE
  MaxAbandon = 1
  SilentAbandon = TRUE
  RegisterLate = FALSE
  MarkCallerOnly = FALSE
PROPERTY Progress
CHECK_DEADLOCK FALSE
