\* C13 length-code design check: fixed width little endian - the encoder as coded (write_usize); bytes 0..2, lengths 0..8, sequences up to 3 (boundary Esc=2 / 3 included)
SPECIFICATION Spec
CONSTANTS
  B = 3
  W = 2
  MaxLen = 3
  MaxOuter = 2
  Shapes = {"pair", "nested"}
  Enc <- EncFixed
INVARIANTS TypeOK DecoderSound PrefixCode UniquelyDecodable StreamPrefixFree Derivation
ALIAS Show
CHECK_DEADLOCK FALSE
