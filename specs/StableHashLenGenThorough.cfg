\* C13 boundary universe for the length-encoding binding (thorough tier).
SPECIFICATION Spec
CONSTANTS
  Dense = 1100
  Pows = {8, 9, 10, 15, 16, 17, 24, 31, 32, 33, 40, 48, 56, 63}
  Delta = 2
  BigLens = {32767, 32768, 65534, 65535, 65536, 65537, 65538, 131072, 1048576}
  ValTypes = {"vec_u8", "string", "vec_u16"}
  Centre = 256
  Wide = 8
  FarTotals = {263, 264, 265, 266, 510, 511, 512, 513, 514, 768, 1024}
CHECK_DEADLOCK FALSE
