\* C14 mutation (c'): the derive drops module_path!() - must FAIL
SPECIFICATION Spec
CONSTANTS
  Symbols <- NoModuleSymbols
  Profiles <- SmallProfiles
  Combine = "free"
  Forget <- NoForget
  Flatten = FALSE
  IgnoreSize = FALSE
  Emit = FALSE
INVARIANTS Injective
ALIAS Shown
CHECK_DEADLOCK FALSE
