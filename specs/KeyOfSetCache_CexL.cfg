\* as coded, ONE client (sequential histories), small threshold: replayed on the
\* real code with 1023 filler elements per set so that T = 1 corresponds to 1024;
\* prints the history of every get that violates ReadYourWrites
SPECIFICATION Spec
CONSTANTS
  Keys = {0}
  Elems = {1, 2}
  Clients = {1}
  MaxBatches = 2
  MaxOps = 4
  T = 1
  LostInsert = TRUE
  FlushMax = TRUE
  FoldCancel = TRUE
  SpillCut = TRUE
  LateSnapshot = FALSE
  LateSnapFetch = FALSE
  SplitAppend = FALSE
  Gen = TRUE
  PrintCex = TRUE
VIEW view
CHECK_DEADLOCK FALSE
