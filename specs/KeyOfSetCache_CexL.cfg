\* as coded, ONE client (sequential histories), small threshold: replayed on the
\* real code with 1022 filler elements per set so that T = 2 corresponds to 1024;
\* prints the history of every get that violates ReadYourWrites
SPECIFICATION Spec
CONSTANTS
  Keys = {0}
  Elems = {1, 2, 3}
  Clients = {1}
  MaxBatches = 2
  MaxOps = 5
  T = 2
  LostInsert = TRUE
  FlushMax = TRUE
  FoldCancel = TRUE
  SpillCut = TRUE
  SplitAppend = FALSE
  Gen = TRUE
  PrintCex = TRUE
VIEW view
CHECK_DEADLOCK FALSE
