------------------------------ MODULE Interner ------------------------------
(***************************************************************************)
(* M-layer specification of crates/storage/src/intern.rs (property C15).   *)
(*                                                                         *)
(* Shape of the code, one action per critical section:                     *)
(*   slot[ty, v]     TypedShard<T>: HashMap<Compact128, Weak<T>> entry     *)
(*                   (0 = vacant, else the allocation the Weak points to)  *)
(*   alloc[a]        one ArcInner: type, content, strong count; strong = 0 *)
(*                   with a slot still pointing at it = dead Weak          *)
(*   vac             the vacuum run; while it scans shard (ty, sh) it owns *)
(*                   that shard's write lock                               *)
(*   intern / intern_unsized (identical mechanism, they differ in the      *)
(*   type only):  Probe = the read-locked section (Weak::upgrade) -> on    *)
(*   miss Recheck = the write-locked section (entry(): upgrade again /     *)
(*   replace dead Weak / insert into vacant).  A section protected by a    *)
(*   blocking lock is ONE action (acquire, body, release): its body makes  *)
(*   a single access to shared state, so holding the lock longer only      *)
(*   delays other sections and makes vacuum's try_write fail, i.e. skip    *)
(*   the shard - behaviours that exist anyway.  The window between the two *)
(*   sections ("read miss, write lock not yet taken") is a state: pc =     *)
(*   "recheck".                                                            *)
(*   get_from_hash:  Probe -> Some(handle) | None                          *)
(*   clone / drop:   strong count +1 / -1 without any lock; the content    *)
(*                   dies at 0, the ArcInner when no Weak is left          *)
(*   vacuum:         per (type, shard): try_write (skip when taken) ->     *)
(*                   retain(|w| w.upgrade().is_some()): per entry an       *)
(*                   upgrade creating a TEMPORARY strong reference and its *)
(*                   drop as two steps (the temporary can become the last  *)
(*                   owner; clone/drop of other threads interleave) ->     *)
(*                   unlock.  Threads cannot enter a section of a shard    *)
(*                   that vacuum holds.                                    *)
(*   encode session: SeenInterned: first occurrence of (type, hash) is     *)
(*                   written inline ("src"), later ones by hash ("ref")    *)
(*   decode:         src -> intern(value), ref -> get_from_hash(hash)      *)
(*                   .expect(..); decoded handles stay alive until the     *)
(*                   whole structure is decoded, then are dropped          *)
(*                                                                         *)
(* Deliberate deviations from the code (see DESIGN 2.1):                   *)
(*  - hashes are injective on Values (the code identifies values by their  *)
(*    128-bit stable hash only; collisions are outside the property).      *)
(*  - the outer map StableTypeID -> TypedShard (obtain_read_shard) is       *)
(*    assumed populated; its lazy creation is double-checked the same way. *)
(*  - a released allocation id may be reused at once.                      *)
(*  - "decode into a fresh interner" = decode after every source handle    *)
(*    was dropped and vacuumed; reachable in this model.                   *)
(*  - nested interned values (an interned struct holding handles) are not  *)
(*    modelled; they are covered by the codec conformance cases only.      *)
(*  - a thread's handles are a bag (which variable holds which handle is   *)
(*    irrelevant); InternerGen.tla adds named handle variables.            *)
(*                                                                         *)
(* Mutation switches (Mutation = "none" is the code as it is; the others   *)
(* exist to show that the invariants bite, used by the self-test):         *)
(*   "norecheck"  no second look-up under the write lock                   *)
(*   "vacuumall"  vacuum drops every entry, not only dead ones             *)
(*   "typeblind"  one table for all types                                  *)
(*   "seenbyhash" encode session keyed by hash only (not by type)          *)
(***************************************************************************)
EXTENDS InternerObs, TLC

CONSTANTS Threads,      \* set of thread ids
          Types,        \* set of type ids
          Values,       \* set of values
          Allocs,       \* set of allocation ids
          MaxHandles,   \* handles a thread may hold at once
          PerValueShard,\* TRUE: every value in a shard of its own; FALSE: one shard per type
          Mutation,
          VacuumOn,     \* BOOLEAN
          IntAllocs,    \* TRUE: Allocs is a set of positive integers
          CodecSeqs,    \* set of sequences over 1..MaxHandles: shapes a thread may encode
          CodecThreads  \* the threads that encode / decode

VARIABLES alloc, slot, pc, op, held, sess, vac, err

vars == <<alloc, slot, pc, op, held, sess, vac, err>>

Free == [ty |-> 0, val |-> 0, strong |-> 0]
NoOp == [k |-> "none", ty |-> 0, v |-> 0]
NoSess == [stream |-> <<>>, src |-> <<>>, pos |-> 0, out |-> <<>>]
VacIdle == [pc |-> "idle", ty |-> 0, sh |-> 0, todo |-> {}, temp |-> 0]

ShardOf(v) == IF PerValueShard THEN v ELSE 1
Shards == {ShardOf(v) : v \in Values}
AnyType == CHOOSE ty \in Types : TRUE
TyKey(ty) == IF Mutation = "typeblind" THEN AnyType ELSE ty
K(ty, v) == <<TyKey(ty), v>>
TableTypes == {TyKey(ty) : ty \in Types}

Init ==
    /\ alloc = [a \in Allocs |-> Free]
    /\ slot = [k \in TableTypes \X Values |-> 0]
    /\ pc = [t \in Threads |-> "idle"]
    /\ op = [t \in Threads |-> NoOp]
    /\ held = [t \in Threads |-> {}]       \* bag: set of <<handle, count>>
    /\ sess = [t \in Threads |-> NoSess]
    /\ vac = VacIdle
    /\ err = ""

-----------------------------------------------------------------------------
(* helpers                                                                  *)

Alive(al, a) == a # 0 /\ al[a].strong > 0
Slotted(sl, a) == \E k \in DOMAIN sl : sl[k] = a

(* strong count -1; the ArcInner is released when no Weak (slot) is left    *)
DecStrong(al, sl, a) ==
    IF al[a].strong = 1 /\ ~Slotted(sl, a) THEN [al EXCEPT ![a] = Free]
    ELSE [al EXCEPT ![a].strong = @ - 1]

(* the Weak in a slot is dropped (entry replaced or removed)                *)
DropWeak(al, a) == IF a # 0 /\ al[a].strong = 0 THEN [al EXCEPT ![a] = Free] ELSE al

HasFree(al) == \E a \in Allocs : al[a].ty = 0
(* Allocs may be a set of integers (smallest free id: cheap canonical form)  *)
(* or of model values (then declare it symmetric).                          *)
FreshId(al) == CHOOSE a \in Allocs : al[a].ty = 0 /\ \A b \in Allocs : (al[b].ty = 0 /\ IntAllocs) => a <= b

(* bags of handles                                                          *)
BagCount(B, h) == IF \E e \in B : e[1] = h THEN (CHOOSE e \in B : e[1] = h)[2] ELSE 0
BagAdd(B, h) == LET n == BagCount(B, h) IN (B \ {<<h, n>>}) \cup {<<h, n + 1>>}
BagDel(B, h) == LET n == BagCount(B, h) IN
                IF n = 1 THEN B \ {<<h, 1>>} ELSE (B \ {<<h, n>>}) \cup {<<h, n - 1>>}
BagSet(B) == {e[1] : e \in B}
RECURSIVE BagSize(_)
BagSize(B) == IF B = {} THEN 0 ELSE LET e == CHOOSE x \in B : TRUE IN e[2] + BagSize(B \ {e})

Room(t) == BagSize(held[t]) < MaxHandles

(* vacuum owns the write lock of the shard of (ty, v)                       *)
Locked(ty, v) == vac.pc # "idle" /\ vac.ty = TyKey(ty) /\ vac.sh = ShardOf(v)

LookupOnly(o) == o.k \in {"get", "dref"}

(* op for item `pos` of the stream being decoded                            *)
DecOp(s, pos) ==
    [k |-> IF s.stream[pos].tag = "src" THEN "dsrc" ELSE "dref",
     ty |-> s.stream[pos].ty, v |-> s.stream[pos].v]

(* The running operation of t obtained the handle h (already counted in     *)
(* alloc').                                                                 *)
Complete(t, h) ==
    IF op[t].k \in {"intern", "get"} THEN
        /\ held' = [held EXCEPT ![t] = BagAdd(@, h)]
        /\ pc' = [pc EXCEPT ![t] = "idle"]
        /\ op' = [op EXCEPT ![t] = NoOp]
        /\ UNCHANGED <<sess, err>>
    ELSE
        LET s == sess[t]
            s2 == [s EXCEPT !.out = Append(@, h), !.pos = @ + 1]
        IN  /\ sess' = [sess EXCEPT ![t] = s2]
            /\ IF s2.pos > Len(s.stream)
               THEN pc' = [pc EXCEPT ![t] = "decfin"] /\ op' = [op EXCEPT ![t] = NoOp]
               ELSE pc' = [pc EXCEPT ![t] = "probe"] /\ op' = [op EXCEPT ![t] = DecOp(s, s2.pos)]
            /\ UNCHANGED <<held, err>>

(* A look-up found nothing alive.                                           *)
CompleteNone(t) ==
    IF op[t].k = "get" THEN
        /\ pc' = [pc EXCEPT ![t] = "idle"]
        /\ op' = [op EXCEPT ![t] = NoOp]
        /\ UNCHANGED <<held, sess, err>>
    ELSE  \* "dref": .expect("referenced interned value not found in interner")
        /\ err' = "decode_ref_missing"
        /\ pc' = [pc EXCEPT ![t] = "decdrop"]
        /\ op' = [op EXCEPT ![t] = NoOp]
        /\ UNCHANGED <<held, sess>>

-----------------------------------------------------------------------------
(* operations of the threads                                                *)

StartIntern(t, ty, v) ==
    /\ pc[t] = "idle" /\ Room(t)
    /\ pc' = [pc EXCEPT ![t] = "probe"]
    /\ op' = [op EXCEPT ![t] = [k |-> "intern", ty |-> ty, v |-> v]]
    /\ UNCHANGED <<alloc, slot, held, sess, vac, err>>

StartGet(t, ty, v) ==
    /\ pc[t] = "idle" /\ Room(t)
    /\ pc' = [pc EXCEPT ![t] = "probe"]
    /\ op' = [op EXCEPT ![t] = [k |-> "get", ty |-> ty, v |-> v]]
    /\ UNCHANGED <<alloc, slot, held, sess, vac, err>>

(* { let g = typed_shard.read_shard(i);                                     *)
(*   g.get(&hash).and_then(Weak::upgrade) }                                 *)
Probe(t) ==
    /\ pc[t] = "probe"
    /\ LET o == op[t]
           a == slot[K(o.ty, o.v)]
       IN  /\ ~Locked(o.ty, o.v)
           /\ IF Alive(alloc, a) THEN
                  /\ alloc' = [alloc EXCEPT ![a].strong = @ + 1]
                  /\ Complete(t, [p |-> a, ty |-> o.ty, v |-> o.v])
              ELSE
                  /\ alloc' = alloc
                  /\ IF LookupOnly(o) THEN CompleteNone(t)
                     ELSE /\ pc' = [pc EXCEPT ![t] = "recheck"]
                          /\ UNCHANGED <<op, held, sess, err>>
    /\ UNCHANGED <<slot, vac>>

(* { let mut g = typed_shard.write_shard(i);                                *)
(*   match g.entry(hash) { Occupied: upgrade, or replace the dead weak;     *)
(*                         Vacant: insert } }                               *)
Recheck(t) ==
    /\ pc[t] = "recheck"
    /\ LET o == op[t]
           k == K(o.ty, o.v)
           a == slot[k]
       IN  /\ ~Locked(o.ty, o.v)
           /\ IF Mutation # "norecheck" /\ Alive(alloc, a) THEN
                  /\ alloc' = [alloc EXCEPT ![a].strong = @ + 1]
                  /\ slot' = slot
                  /\ Complete(t, [p |-> a, ty |-> o.ty, v |-> o.v])
              ELSE
                  LET al1 == DropWeak(alloc, a) IN
                  /\ HasFree(al1)
                  /\ LET f == FreshId(al1) IN
                      /\ alloc' = [al1 EXCEPT ![f] = [ty |-> o.ty, val |-> o.v, strong |-> 1]]
                      /\ slot' = [slot EXCEPT ![k] = f]
                      /\ Complete(t, [p |-> f, ty |-> o.ty, v |-> o.v])
    /\ UNCHANGED vac

Clone(t, h) ==
    /\ pc[t] = "idle" /\ h \in BagSet(held[t]) /\ Room(t)
    /\ alloc' = [alloc EXCEPT ![h.p].strong = @ + 1]
    /\ held' = [held EXCEPT ![t] = BagAdd(@, h)]
    /\ UNCHANGED <<slot, pc, op, sess, vac, err>>

DropHandle(t, h) ==
    /\ pc[t] = "idle" /\ h \in BagSet(held[t])
    /\ alloc' = DecStrong(alloc, slot, h.p)
    /\ held' = [held EXCEPT ![t] = BagDel(@, h)]
    /\ UNCHANGED <<slot, pc, op, sess, vac, err>>

-----------------------------------------------------------------------------
(* encode / decode session                                                  *)

SeenKey(h) == IF Mutation = "seenbyhash" THEN <<0, h.v>> ELSE <<h.ty, h.v>>

StreamOf(src) ==
    [i \in 1..Len(src) |->
        [tag |-> IF \E j \in 1..(i - 1) : SeenKey(src[j]) = SeenKey(src[i]) THEN "ref" ELSE "src",
         ty |-> src[i].ty, v |-> src[i].v]]

(* Encode a structure whose leaves are the handles src[1], src[2], ...      *)
(* (held by t) with one session.  Encoding hashes only, it does not touch   *)
(* the tables.                                                              *)
Encode(t, src) ==
    /\ t \in CodecThreads /\ pc[t] = "idle" /\ sess[t] = NoSess
    /\ sess' = [sess EXCEPT ![t] = [stream |-> StreamOf(src), src |-> src, pos |-> 0, out |-> <<>>]]
    /\ UNCHANGED <<alloc, slot, pc, op, held, vac, err>>

(* the structures t can build from its handles: one handle per distinct     *)
(* index of a shape in CodecSeqs                                            *)
Sources(t) ==
    {src \in UNION {[1..Len(sh) -> BagSet(held[t])] : sh \in CodecSeqs} :
        \E sh \in CodecSeqs : Len(sh) = Len(src) /\
            \A i, j \in 1..Len(sh) : (sh[i] = sh[j]) <=> (src[i] = src[j])}

(* Start decoding the pending stream (possibly much later: the source       *)
(* handles may have been dropped and vacuumed meanwhile).                   *)
DecodeStart(t) ==
    /\ pc[t] = "idle" /\ sess[t] # NoSess /\ sess[t].pos = 0
    /\ sess' = [sess EXCEPT ![t].pos = 1]
    /\ pc' = [pc EXCEPT ![t] = "probe"]
    /\ op' = [op EXCEPT ![t] = DecOp(sess[t], 1)]
    /\ UNCHANGED <<alloc, slot, held, vac, err>>

(* the decoded structure is complete: compare with the source               *)
DecFin(t) ==
    /\ pc[t] = "decfin"
    /\ err' = IF err = "" /\ ~SamePattern(sess[t].src, sess[t].out) THEN "decode_pattern" ELSE err
    /\ pc' = [pc EXCEPT ![t] = "decdrop"]
    /\ UNCHANGED <<alloc, slot, op, held, sess, vac>>

(* the decoded structure is dropped, handle by handle                       *)
DecDrop(t) ==
    /\ pc[t] = "decdrop"
    /\ IF sess[t].out # <<>> THEN
           /\ alloc' = DecStrong(alloc, slot, Head(sess[t].out).p)
           /\ sess' = [sess EXCEPT ![t].out = Tail(@)]
           /\ pc' = pc
       ELSE
           /\ alloc' = alloc
           /\ sess' = [sess EXCEPT ![t] = NoSess]
           /\ pc' = [pc EXCEPT ![t] = "idle"]
    /\ UNCHANGED <<slot, op, held, vac, err>>

-----------------------------------------------------------------------------
(* vacuum (manual call or background thread): any shard, at any step        *)

(* try_write succeeded (no thread is inside a section: sections are atomic) *)
VacTry(ty, sh) ==
    /\ VacuumOn /\ vac.pc = "idle"
    /\ vac' = [pc |-> "scan", ty |-> ty, sh |-> sh, temp |-> 0,
               todo |-> {v \in Values : ShardOf(v) = sh /\ slot[<<ty, v>>] # 0}]
    /\ UNCHANGED <<alloc, slot, pc, op, held, sess, err>>

(* retain: weak.upgrade() on one entry                                      *)
VacUpgrade(v) ==
    /\ vac.pc = "scan" /\ v \in vac.todo
    /\ LET k == <<vac.ty, v>>
           a == slot[k]
       IN  IF Mutation # "vacuumall" /\ Alive(alloc, a) THEN
               /\ alloc' = [alloc EXCEPT ![a].strong = @ + 1]
               /\ slot' = slot
               /\ vac' = [vac EXCEPT !.pc = "vdrop", !.temp = a, !.todo = @ \ {v}]
           ELSE
               /\ slot' = [slot EXCEPT ![k] = 0]
               /\ alloc' = DropWeak(alloc, a)
               /\ vac' = [vac EXCEPT !.todo = @ \ {v}]
    /\ UNCHANGED <<pc, op, held, sess, err>>

(* ... .is_some(): the temporary strong reference is dropped                *)
VacDropTemp ==
    /\ vac.pc = "vdrop"
    /\ alloc' = DecStrong(alloc, slot, vac.temp)
    /\ vac' = [vac EXCEPT !.pc = "scan", !.temp = 0]
    /\ UNCHANGED <<slot, pc, op, held, sess, err>>

VacUnlock ==
    /\ vac.pc = "scan" /\ vac.todo = {}
    /\ vac' = VacIdle
    /\ UNCHANGED <<alloc, slot, pc, op, held, sess, err>>

VacStep == (\E v \in Values : VacUpgrade(v)) \/ VacDropTemp \/ VacUnlock

-----------------------------------------------------------------------------
(* wrappers with state-dependent choices (named so that TLC's coverage       *)
(* report lists them)                                                       *)
CloneStep(t) == \E h \in BagSet(held[t]) : Clone(t, h)
DropStep(t) == \E h \in BagSet(held[t]) : DropHandle(t, h)
EncodeStep(t) == \E src \in Sources(t) : Encode(t, src)

ThreadStep(t) ==
    \/ \E ty \in Types, v \in Values : StartIntern(t, ty, v) \/ StartGet(t, ty, v)
    \/ Probe(t) \/ Recheck(t)
    \/ CloneStep(t) \/ DropStep(t)
    \/ EncodeStep(t)
    \/ DecodeStart(t) \/ DecFin(t) \/ DecDrop(t)

Next ==
    \/ \E t \in Threads : ThreadStep(t)
    \/ \E ty \in TableTypes, sh \in Shards : VacTry(ty, sh)
    \/ VacStep

Spec == Init /\ [][Next]_vars

-----------------------------------------------------------------------------
(* invariants                                                               *)

(* every handle in the hands of a thread (held or being decoded)            *)
HandlesOf(t) == BagSet(held[t]) \cup {sess[t].out[i] : i \in 1..Len(sess[t].out)}
AllHandles == UNION {HandlesOf(t) : t \in Threads}

TypeOK ==
    /\ \A a \in Allocs : alloc[a] = Free \/ (alloc[a].ty \in Types /\ alloc[a].val \in Values /\ alloc[a].strong \in Nat)
    /\ \A k \in DOMAIN slot : slot[k] = 0 \/ slot[k] \in Allocs
    /\ \A t \in Threads : pc[t] \in {"idle", "probe", "recheck", "decfin", "decdrop"}
    /\ \A t \in Threads : BagSize(held[t]) <= MaxHandles
    /\ \A h \in AllHandles : h.p \in Allocs /\ h.ty \in Types /\ h.v \in Values
    /\ err \in {"", "decode_ref_missing", "decode_pattern"}

(* C15, first sentence.                                                     *)
Canonical ==
    /\ CanonicalHandles(AllHandles)
    /\ \A h \in AllHandles :      \* the shared allocation is alive and holds the value
        alloc[h.p].strong > 0 /\ alloc[h.p].ty = h.ty /\ alloc[h.p].val = h.v

(* at most one live allocation per (type, value), and the table knows it    *)
OneLivePerValue ==
    \A a, b \in Allocs :
        (Alive(alloc, a) /\ Alive(alloc, b) /\ alloc[a].ty = alloc[b].ty /\ alloc[a].val = alloc[b].val) => a = b

SlotTracksLive ==
    \A a \in Allocs : Alive(alloc, a) => slot[K(alloc[a].ty, alloc[a].val)] = a

SlotContent ==
    \A k \in DOMAIN slot : slot[k] # 0 =>
        alloc[slot[k]] # Free /\ TyKey(alloc[slot[k]].ty) = k[1] /\ alloc[slot[k]].val = k[2]

(* reference counting: strong = handles + vacuum's temporary                *)
RECURSIVE SumOver(_, _)
SumOver(S, a) ==
    IF S = {} THEN 0
    ELSE LET t == CHOOSE x \in S : TRUE
             inHeld == LET E == {e \in held[t] : e[1].p = a} IN
                       IF E = {} THEN 0 ELSE BagSize(E)
             inOut == Cardinality({i \in 1..Len(sess[t].out) : sess[t].out[i].p = a})
         IN  inHeld + inOut + SumOver(S \ {t}, a)

StrongConsistent ==
    \A a \in Allocs : alloc[a].strong = SumOver(Threads, a) + (IF vac.temp = a THEN 1 ELSE 0)

(* no leak: an allocation record exists only while referenced               *)
NoLeak == \A a \in Allocs : alloc[a] # Free => (alloc[a].strong > 0 \/ Slotted(slot, a))

(* Reachability witnesses (checked NEGATED by the self-test: TLC must find   *)
(* each of these states, i.e. the model really contains the windows the     *)
(* property text worries about).                                            *)
W_InsertInWindow ==      \* read miss, then another thread inserted before the write lock
    \E t \in Threads : pc[t] = "recheck" /\ Alive(alloc, slot[K(op[t].ty, op[t].v)])
W_DeadWeakSeen ==        \* a dead weak entry is about to be replaced
    \E t \in Threads : pc[t] = "recheck" /\ slot[K(op[t].ty, op[t].v)] # 0
                                       /\ ~Alive(alloc, slot[K(op[t].ty, op[t].v)])
W_VacuumLastOwner ==     \* vacuum's temporary reference is the last owner
    vac.temp # 0 /\ alloc[vac.temp].strong = 1
W_VacuumRacesInsert ==   \* vacuum holds a shard while a thread waits to insert into it
    \E t \in Threads : pc[t] = "recheck" /\ Locked(op[t].ty, op[t].v)
W_DecodeAfterVacuum ==   \* a reference is decoded with no source handle left (fresh-interner case)
    \E t \in Threads : pc[t] = "probe" /\ op[t].k = "dref" /\ BagSet(held[t]) = {}
NotW1 == ~W_InsertInWindow
NotW2 == ~W_DeadWeakSeen
NotW3 == ~W_VacuumLastOwner
NotW4 == ~W_VacuumRacesInsert
NotW5 == ~W_DecodeAfterVacuum

(* C15, second sentence: decoding never misses a reference and reproduces   *)
(* values and sharing                                                       *)
DecodeOK == err = ""
=============================================================================
