------------------------------ MODULE Interner ------------------------------
(***************************************************************************)
(* M-layer specification of crates/storage/src/intern.rs (property C15).   *)
(*                                                                         *)
(* Shape of the code, one action per critical section:                     *)
(*   slot[ty, h]     TypedShard<T>: HashMap<Compact128, Weak<T>> entry     *)
(*                   (0 = vacant, else the allocation the Weak points to)  *)
(*   alloc[a]        one ArcInner: type, content, strong count; strong = 0 *)
(*                   with a slot still pointing at it = dead Weak          *)
(*   lock[ty, sh]    the RwLock of one shard of one TypedShard             *)
(*   intern / intern_unsized (identical mechanism, they differ in the      *)
(*   type only):  RLock -> Probe (Weak::upgrade under the read lock, read  *)
(*   lock released) -> on miss WLock -> Recheck (entry(): upgrade again /  *)
(*   replace dead Weak / insert into vacant; write lock released)          *)
(*   get_from_hash:  RLock -> Probe -> Some(handle) | None                 *)
(*   clone / drop:   strong count +1 / -1 without any lock; the content    *)
(*                   dies at 0, the ArcInner when no Weak is left          *)
(*   vacuum:         per (type, shard): try_write (skip when taken) ->     *)
(*                   retain(|w| w.upgrade().is_some()): per entry an       *)
(*                   upgrade creating a TEMPORARY strong reference and its *)
(*                   drop as two steps (the temporary can become the last  *)
(*                   owner) -> unlock                                      *)
(*   encode session: SeenInterned: first occurrence of (type, hash) is     *)
(*                   written inline ("src"), later ones by hash ("ref")    *)
(*   decode:         src -> intern(value), ref -> get_from_hash(hash)      *)
(*                   .expect(..); decoded handles stay alive until the     *)
(*                   whole structure is decoded, then are dropped          *)
(*                                                                         *)
(* Deliberate deviations from the code (named here, see DESIGN 2.1):       *)
(*  - hashes are injective on Values (the code identifies values by their  *)
(*    128-bit stable hash only; collisions are outside the property).      *)
(*  - the outer map StableTypeID -> TypedShard (obtain_read_shard) is       *)
(*    assumed populated; its lazy creation is double-checked the same way. *)
(*  - a dropped allocation id may be reused at once (a real allocator may  *)
(*    do so as well once the last Weak is gone).                           *)
(*  - "decode into a fresh interner" = decode after every source handle    *)
(*    was dropped and vacuumed; reachable in this model.                   *)
(*  - nested interned values (an interned struct holding handles) are not  *)
(*    modelled; they are covered by the codec conformance cases only.      *)
(*                                                                         *)
(* Mutation switches (Mutation = "none" is the code as it is; the others   *)
(* exist to show that the invariants bite, used by the self-test):         *)
(*   "norecheck"  no second look-up under the write lock                   *)
(*   "vacuumall"  vacuum drops every entry, not only dead ones             *)
(*   "typeblind"  one table for all types                                  *)
(*   "seenbyhash" encode session keyed by hash only (not by type)          *)
(***************************************************************************)
EXTENDS InternerObs, TLC

CONSTANTS Threads,      \* set of thread ids (positive integers)
          Types,        \* set of type ids (positive integers)
          Values,       \* set of values (positive integers)
          MaxHandles,   \* handle variables per thread
          NShards,      \* shards per typed table
          NAllocs,      \* allocation ids 1..NAllocs
          Mutation,
          VacuumOn,     \* BOOLEAN
          CodecSeqs     \* set of sequences of handle-variable indices a thread may encode

VARIABLES alloc, slot, lock, pc, op, held, sess, vac, err

vars == <<alloc, slot, lock, pc, op, held, sess, vac, err>>

VacId == 99
Free == [ty |-> 0, val |-> 0, strong |-> 0]
Empty == [p |-> 0, ty |-> 0, v |-> 0]
NoOp == [k |-> "none", ty |-> 0, v |-> 0]
NoSess == [stream |-> <<>>, src |-> <<>>, pos |-> 0, out |-> <<>>]
VacIdle == [pc |-> "idle", ty |-> 0, sh |-> 0, todo |-> {}, temp |-> 0]

Shards == 1..NShards
ShardOf(v) == (v % NShards) + 1
TyKey(ty) == IF Mutation = "typeblind" THEN 1 ELSE ty
K(ty, v) == <<TyKey(ty), v>>
LK(ty, v) == <<TyKey(ty), ShardOf(v)>>
TableTypes == IF Mutation = "typeblind" THEN {1} ELSE Types

Init ==
    /\ alloc = [a \in 1..NAllocs |-> Free]
    /\ slot = [k \in TableTypes \X Values |-> 0]
    /\ lock = [k \in TableTypes \X Shards |-> [w |-> 0, r |-> {}]]
    /\ pc = [t \in Threads |-> "idle"]
    /\ op = [t \in Threads |-> NoOp]
    /\ held = [t \in Threads |-> [i \in 1..MaxHandles |-> Empty]]
    /\ sess = [t \in Threads |-> NoSess]
    /\ vac = VacIdle
    /\ err = ""

-----------------------------------------------------------------------------
(* helpers                                                                  *)

Alive(al, a) == a # 0 /\ al[a].strong > 0
Slotted(sl, a) == \E k \in DOMAIN sl : sl[k] = a

(* strong count -1; the ArcInner is released when no Weak (slot) is left    *)
DecStrong(al, sl, a) ==
    IF al[a].strong = 1 /\ ~Slotted(sl, a) THEN [al EXCEPT ![a] = Free]
    ELSE [al EXCEPT ![a].strong = @ - 1]

(* the Weak in a slot is dropped (entry replaced or removed)                *)
DropWeak(al, a) == IF a # 0 /\ al[a].strong = 0 THEN [al EXCEPT ![a] = Free] ELSE al

HasFree(al) == \E a \in 1..NAllocs : al[a].ty = 0
FreshId(al) == CHOOSE a \in 1..NAllocs : al[a].ty = 0 /\ \A b \in 1..(a - 1) : al[b].ty # 0

FreeVars(t) == {i \in 1..MaxHandles : held[t][i].p = 0}
FreeVar(t) == CHOOSE i \in FreeVars(t) : \A j \in FreeVars(t) : i <= j

LookupOnly(o) == o.k \in {"get", "dref"}

(* op for item `pos` of the stream being decoded by t                       *)
DecOp(s, pos) ==
    [k |-> IF s.stream[pos].tag = "src" THEN "dsrc" ELSE "dref",
     ty |-> s.stream[pos].ty, v |-> s.stream[pos].v]

(* The running operation of t obtained the handle h (already counted in     *)
(* alloc).  Callers assert alloc', slot', lock', vac'.                      *)
Complete(t, h) ==
    IF op[t].k \in {"intern", "get"} THEN
        /\ held' = [held EXCEPT ![t][FreeVar(t)] = h]
        /\ pc' = [pc EXCEPT ![t] = "idle"]
        /\ op' = [op EXCEPT ![t] = NoOp]
        /\ UNCHANGED <<sess, err>>
    ELSE
        LET s == sess[t]
            s2 == [s EXCEPT !.out = Append(@, h), !.pos = @ + 1]
        IN  /\ sess' = [sess EXCEPT ![t] = s2]
            /\ IF s2.pos > Len(s.stream)
               THEN pc' = [pc EXCEPT ![t] = "decfin"] /\ op' = [op EXCEPT ![t] = NoOp]
               ELSE pc' = [pc EXCEPT ![t] = "rlock"] /\ op' = [op EXCEPT ![t] = DecOp(s, s2.pos)]
            /\ UNCHANGED <<held, err>>

(* A look-up found nothing alive.                                           *)
CompleteNone(t) ==
    IF op[t].k = "get" THEN
        /\ pc' = [pc EXCEPT ![t] = "idle"]
        /\ op' = [op EXCEPT ![t] = NoOp]
        /\ UNCHANGED <<held, sess, err>>
    ELSE  \* "dref": .expect("referenced interned value not found in interner")
        /\ err' = "decode_ref_missing"
        /\ pc' = [pc EXCEPT ![t] = "decdrop"]
        /\ op' = [op EXCEPT ![t] = NoOp]
        /\ UNCHANGED <<held, sess>>

-----------------------------------------------------------------------------
(* operations of the threads                                                *)

StartIntern(t, ty, v) ==
    /\ pc[t] = "idle" /\ FreeVars(t) # {}
    /\ pc' = [pc EXCEPT ![t] = "rlock"]
    /\ op' = [op EXCEPT ![t] = [k |-> "intern", ty |-> ty, v |-> v]]
    /\ UNCHANGED <<alloc, slot, lock, held, sess, vac, err>>

StartGet(t, ty, v) ==
    /\ pc[t] = "idle" /\ FreeVars(t) # {}
    /\ pc' = [pc EXCEPT ![t] = "rlock"]
    /\ op' = [op EXCEPT ![t] = [k |-> "get", ty |-> ty, v |-> v]]
    /\ UNCHANGED <<alloc, slot, lock, held, sess, vac, err>>

(* typed_shard.read_shard(i)                                                *)
RLock(t) ==
    /\ pc[t] = "rlock"
    /\ LET lk == LK(op[t].ty, op[t].v) IN
        /\ lock[lk].w = 0
        /\ lock' = [lock EXCEPT ![lk].r = @ \cup {t}]
    /\ pc' = [pc EXCEPT ![t] = "probe"]
    /\ UNCHANGED <<alloc, slot, op, held, sess, vac, err>>

(* read_shard.get(&hash).and_then(Weak::upgrade); read guard dropped        *)
Probe(t) ==
    /\ pc[t] = "probe"
    /\ LET o == op[t]
           a == slot[K(o.ty, o.v)]
           lk == LK(o.ty, o.v)
       IN  /\ lock' = [lock EXCEPT ![lk].r = @ \ {t}]
           /\ IF Alive(alloc, a) THEN
                  /\ alloc' = [alloc EXCEPT ![a].strong = @ + 1]
                  /\ Complete(t, [p |-> a, ty |-> o.ty, v |-> o.v])
              ELSE
                  /\ alloc' = alloc
                  /\ IF LookupOnly(o) THEN CompleteNone(t)
                     ELSE /\ pc' = [pc EXCEPT ![t] = "wlock"]
                          /\ UNCHANGED <<op, held, sess, err>>
    /\ UNCHANGED <<slot, vac>>

(* typed_shard.write_shard(i)                                               *)
WLock(t) ==
    /\ pc[t] = "wlock"
    /\ LET lk == LK(op[t].ty, op[t].v) IN
        /\ lock[lk].w = 0 /\ lock[lk].r = {}
        /\ lock' = [lock EXCEPT ![lk].w = t]
    /\ pc' = [pc EXCEPT ![t] = "recheck"]
    /\ UNCHANGED <<alloc, slot, op, held, sess, vac, err>>

(* match write_shard.entry(hash) { Occupied: upgrade or replace dead weak;  *)
(* Vacant: insert }; write guard dropped                                    *)
Recheck(t) ==
    /\ pc[t] = "recheck"
    /\ LET o == op[t]
           k == K(o.ty, o.v)
           a == slot[k]
           lk == LK(o.ty, o.v)
       IN  /\ lock' = [lock EXCEPT ![lk].w = 0]
           /\ IF Mutation # "norecheck" /\ Alive(alloc, a) THEN
                  /\ alloc' = [alloc EXCEPT ![a].strong = @ + 1]
                  /\ slot' = slot
                  /\ Complete(t, [p |-> a, ty |-> o.ty, v |-> o.v])
              ELSE
                  LET al1 == DropWeak(alloc, a) IN
                  /\ HasFree(al1)
                  /\ LET f == FreshId(al1) IN
                      /\ alloc' = [al1 EXCEPT ![f] = [ty |-> o.ty, val |-> o.v, strong |-> 1]]
                      /\ slot' = [slot EXCEPT ![k] = f]
                      /\ Complete(t, [p |-> f, ty |-> o.ty, v |-> o.v])
    /\ UNCHANGED vac

Clone(t, i) ==
    /\ pc[t] = "idle" /\ held[t][i].p # 0 /\ FreeVars(t) # {}
    /\ alloc' = [alloc EXCEPT ![held[t][i].p].strong = @ + 1]
    /\ held' = [held EXCEPT ![t][FreeVar(t)] = held[t][i]]
    /\ UNCHANGED <<slot, lock, pc, op, sess, vac, err>>

DropHandle(t, i) ==
    /\ pc[t] = "idle" /\ held[t][i].p # 0
    /\ alloc' = DecStrong(alloc, slot, held[t][i].p)
    /\ held' = [held EXCEPT ![t][i] = Empty]
    /\ UNCHANGED <<slot, lock, pc, op, sess, vac, err>>

-----------------------------------------------------------------------------
(* encode / decode session                                                  *)

SeenKey(h) == IF Mutation = "seenbyhash" THEN <<0, h.v>> ELSE <<h.ty, h.v>>

StreamOf(src) ==
    [i \in 1..Len(src) |->
        [tag |-> IF \E j \in 1..(i - 1) : SeenKey(src[j]) = SeenKey(src[i]) THEN "ref" ELSE "src",
         ty |-> src[i].ty, v |-> src[i].v]]

(* Encode the structure <<held[t][items[1]], held[t][items[2]], ...>> with  *)
(* one session.  Encoding only hashes, it does not touch the tables.        *)
Encode(t, items) ==
    /\ pc[t] = "idle" /\ sess[t] = NoSess
    /\ \A i \in 1..Len(items) : held[t][items[i]].p # 0
    /\ LET src == [i \in 1..Len(items) |-> held[t][items[i]]] IN
        sess' = [sess EXCEPT ![t] = [stream |-> StreamOf(src), src |-> src, pos |-> 0, out |-> <<>>]]
    /\ UNCHANGED <<alloc, slot, lock, pc, op, held, vac, err>>

(* Start decoding the pending stream (possibly much later: the source       *)
(* handles may have been dropped and vacuumed meanwhile).                   *)
DecodeStart(t) ==
    /\ pc[t] = "idle" /\ sess[t] # NoSess /\ sess[t].pos = 0
    /\ sess' = [sess EXCEPT ![t].pos = 1]
    /\ pc' = [pc EXCEPT ![t] = "rlock"]
    /\ op' = [op EXCEPT ![t] = DecOp(sess[t], 1)]
    /\ UNCHANGED <<alloc, slot, lock, held, vac, err>>

(* the decoded structure is complete: compare with the source               *)
DecFin(t) ==
    /\ pc[t] = "decfin"
    /\ err' = IF err = "" /\ ~SamePattern(sess[t].src, sess[t].out) THEN "decode_pattern" ELSE err
    /\ pc' = [pc EXCEPT ![t] = "decdrop"]
    /\ UNCHANGED <<alloc, slot, lock, op, held, sess, vac>>

(* the decoded structure is dropped, handle by handle                       *)
DecDrop(t) ==
    /\ pc[t] = "decdrop"
    /\ IF sess[t].out # <<>> THEN
           /\ alloc' = DecStrong(alloc, slot, Head(sess[t].out).p)
           /\ sess' = [sess EXCEPT ![t].out = Tail(@)]
           /\ pc' = pc
       ELSE
           /\ alloc' = alloc
           /\ sess' = [sess EXCEPT ![t] = NoSess]
           /\ pc' = [pc EXCEPT ![t] = "idle"]
    /\ UNCHANGED <<slot, lock, op, held, vac, err>>

-----------------------------------------------------------------------------
(* vacuum (manual call or background thread): any shard, at any step        *)

VacTry(ty, sh) ==
    /\ VacuumOn /\ vac.pc = "idle"
    /\ lock[<<ty, sh>>].w = 0 /\ lock[<<ty, sh>>].r = {}      \* try_write succeeded
    /\ lock' = [lock EXCEPT ![<<ty, sh>>].w = VacId]
    /\ vac' = [pc |-> "scan", ty |-> ty, sh |-> sh, temp |-> 0,
               todo |-> {v \in Values : ShardOf(v) = sh /\ slot[<<ty, v>>] # 0}]
    /\ UNCHANGED <<alloc, slot, pc, op, held, sess, err>>

(* retain: weak.upgrade() on one entry                                      *)
VacUpgrade(v) ==
    /\ vac.pc = "scan" /\ v \in vac.todo
    /\ LET k == <<vac.ty, v>>
           a == slot[k]
       IN  IF Mutation # "vacuumall" /\ Alive(alloc, a) THEN
               /\ alloc' = [alloc EXCEPT ![a].strong = @ + 1]
               /\ slot' = slot
               /\ vac' = [vac EXCEPT !.pc = "vdrop", !.temp = a, !.todo = @ \ {v}]
           ELSE
               /\ slot' = [slot EXCEPT ![k] = 0]
               /\ alloc' = DropWeak(alloc, a)
               /\ vac' = [vac EXCEPT !.todo = @ \ {v}]
    /\ UNCHANGED <<lock, pc, op, held, sess, err>>

(* ... .is_some(): the temporary strong reference is dropped                *)
VacDropTemp ==
    /\ vac.pc = "vdrop"
    /\ alloc' = DecStrong(alloc, slot, vac.temp)
    /\ vac' = [vac EXCEPT !.pc = "scan", !.temp = 0]
    /\ UNCHANGED <<slot, lock, pc, op, held, sess, err>>

VacUnlock ==
    /\ vac.pc = "scan" /\ vac.todo = {}
    /\ lock' = [lock EXCEPT ![<<vac.ty, vac.sh>>].w = 0]
    /\ vac' = VacIdle
    /\ UNCHANGED <<alloc, slot, pc, op, held, sess, err>>

VacStep == (\E v \in Values : VacUpgrade(v)) \/ VacDropTemp \/ VacUnlock

-----------------------------------------------------------------------------
ThreadStep(t) ==
    \/ \E ty \in Types, v \in Values : StartIntern(t, ty, v) \/ StartGet(t, ty, v)
    \/ RLock(t) \/ Probe(t) \/ WLock(t) \/ Recheck(t)
    \/ \E i \in 1..MaxHandles : Clone(t, i) \/ DropHandle(t, i)
    \/ \E items \in CodecSeqs : Encode(t, items)
    \/ DecodeStart(t) \/ DecFin(t) \/ DecDrop(t)

Next ==
    \/ \E t \in Threads : ThreadStep(t)
    \/ \E ty \in TableTypes, sh \in Shards : VacTry(ty, sh)
    \/ VacStep

Spec == Init /\ [][Next]_vars

-----------------------------------------------------------------------------
(* invariants                                                               *)

HandleRecs == {[p |-> a, ty |-> ty, v |-> v] : a \in 1..NAllocs, ty \in Types, v \in Values}

TypeOK ==
    /\ alloc \in [1..NAllocs -> [ty : Types \cup {0}, val : Values \cup {0}, strong : 0..(2 * Cardinality(Threads) * (MaxHandles + 3) + 1)]]
    /\ slot \in [TableTypes \X Values -> 0..NAllocs]
    /\ \A k \in DOMAIN lock : lock[k].w \in Threads \cup {0, VacId} /\ lock[k].r \subseteq Threads
    /\ pc \in [Threads -> {"idle", "rlock", "probe", "wlock", "recheck", "decfin", "decdrop"}]
    /\ \A t \in Threads : \A i \in 1..MaxHandles : held[t][i] \in HandleRecs \cup {Empty}
    /\ err \in {"", "decode_ref_missing", "decode_pattern"}

(* every handle in the hands of a thread (held or decoded)                  *)
HandlesOf(t) == {held[t][i] : i \in {j \in 1..MaxHandles : held[t][j].p # 0}}
                \cup {sess[t].out[i] : i \in 1..Len(sess[t].out)}
AllHandles == UNION {HandlesOf(t) : t \in Threads}

(* C15, first sentence.                                                     *)
Canonical ==
    /\ CanonicalHandles(AllHandles)
    /\ \A h \in AllHandles :      \* the shared allocation is alive and holds the value
        alloc[h.p].strong > 0 /\ alloc[h.p].ty = h.ty /\ alloc[h.p].val = h.v

(* at most one live allocation per (type, value), and the table knows it    *)
OneLivePerValue ==
    \A a, b \in 1..NAllocs :
        (Alive(alloc, a) /\ Alive(alloc, b) /\ alloc[a].ty = alloc[b].ty /\ alloc[a].val = alloc[b].val) => a = b

SlotTracksLive ==
    \A a \in 1..NAllocs : Alive(alloc, a) => slot[K(alloc[a].ty, alloc[a].val)] = a

SlotContent ==
    \A k \in DOMAIN slot : slot[k] # 0 =>
        alloc[slot[k]].ty # 0 /\ TyKey(alloc[slot[k]].ty) = k[1] /\ alloc[slot[k]].val = k[2]

(* reference counting is consistent: strong = handles + vacuum's temporary  *)
RefCount(a) ==
    LET HeldCnt(t) == Cardinality({i \in 1..MaxHandles : held[t][i].p = a})
        OutCnt(t) == Cardinality({i \in 1..Len(sess[t].out) : sess[t].out[i].p = a})
        RECURSIVE Sum(_)
        Sum(S) == IF S = {} THEN 0 ELSE LET t == CHOOSE x \in S : TRUE IN HeldCnt(t) + OutCnt(t) + Sum(S \ {t})
    IN  Sum(Threads) + (IF vac.temp = a THEN 1 ELSE 0)

StrongConsistent == \A a \in 1..NAllocs : alloc[a].strong = RefCount(a)

(* C15, second sentence: decoding never misses a reference and reproduces   *)
(* values and sharing                                                       *)
DecodeOK == err = ""

LocksOK ==
    \A k \in DOMAIN lock : lock[k].w # 0 => lock[k].r = {}
=============================================================================
