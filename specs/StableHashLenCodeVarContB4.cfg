\* C13 length-code design check: thorough: LEB128-like continuation flag (sound variable-length code), bytes 0..3
SPECIFICATION Spec
CONSTANTS
  B = 4
  W = 2
  MaxLen = 4
  MaxOuter = 2
  Shapes = {"pair", "nested"}
  Enc <- EncVarCont
INVARIANTS TypeOK DecoderSound PrefixCode UniquelyDecodable StreamPrefixFree Derivation
ALIAS Show
CHECK_DEADLOCK FALSE
