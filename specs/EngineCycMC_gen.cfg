SPECIFICATION Spec
CONSTANTS
  SccFix = "fresh"
  MaxEpochs = 3
  MaxSets = 1
  MaxQueries = 2
  Emitting = "terminal"
CHECK_DEADLOCK FALSE
