\* design check of the encode/decode session under concurrency: thread t1
\* encodes structures of its handles and decodes them later (sources possibly
\* dropped and vacuumed meanwhile = fresh interner), t2 and t3 churn (thorough tier, 1.7M states), vacuum at any step
SPECIFICATION Spec
CONSTANTS
  Threads = {t1, t2, t3}
  Types = {ty1, ty2}
  Values = {v1}
  Allocs = {a1, a2, a3}
  IntAllocs = FALSE
  MaxHandles = 2
  PerValueShard = FALSE
  Mutation = "none"
  VacuumOn = TRUE
  CodecSeqs <- Codec3
  CodecThreads = {t1}
SYMMETRY SymC
INVARIANTS TypeOK Canonical OneLivePerValue SlotTracksLive SlotContent StrongConsistent NoLeak DecodeOK
CHECK_DEADLOCK FALSE
