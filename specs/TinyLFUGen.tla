---------------------------- MODULE TinyLFUGen ----------------------------
(***************************************************************************)
(* Behaviour generator for spec -> implementation replay of TinyLFU.tla.   *)
(* The operations of a behaviour are collected in `hist`; maintenance is   *)
(* requested by explicit Flush operations (the model's batch is set to the *)
(* real 32, so short histories never cross it by themselves; a Flush is    *)
(* realised on the real cache by dummy TinyLFU::unpin calls).  Every       *)
(* emitted line is {"conf":…, "ops":[…], "failed":…, "why":…}.             *)
(*                                                                         *)
(* EmitWhen = "len":    -simulate mode, a behaviour is printed when it has *)
(*                      MaxOps operations (random walks of the mechanism). *)
(* EmitWhen = "failed": breadth-first with VIEW GenView (hist is not part  *)
(*                      of the fingerprint): prints one shortest operation *)
(*                      sequence per distinct panic state.                 *)
(* EmitWhen = "strict": same for states violating BoundedStrict.           *)
(***************************************************************************)
EXTENDS TinyLFU, Json

CONSTANTS MaxOps, EmitWhen, FlushWeight

VARIABLES hist, done

gvars == <<vars, hist, done>>
GenView == <<conf, Resident, pins, wbuf, rbuf, pol, maint, force, failed, owed, quiet, done>>

GInit == Init /\ hist = <<>> /\ done = FALSE

Op(o, k, v, p) == [o |-> o, k |-> k, v |-> v, p |-> p]

Go == ~done /\ Len(hist) < MaxOps

GOps ==
    \/ \E k \in K, p \in 0..1 :
          Put(k, Len(hist) + 1, p) /\ hist' = Append(hist, Op("put", k, Len(hist) + 1, p))
    \/ \E k \in K : Get(k) /\ hist' = Append(hist, Op("get", k, 0, 0))
    \/ \E k \in K : Rem(k) /\ hist' = Append(hist, Op("rem", k, 0, 0))
    \/ \E k \in K : Notify(k) /\ hist' = Append(hist, Op("notify", k, 0, 0))
    \/ \E k \in K : pins[k] < MaxPin /\ Pin(k) /\ hist' = Append(hist, Op("pin", k, 0, 0))
    \/ \E k \in K : UnpinOwner(k, FALSE) /\ hist' = Append(hist, Op("unpin", k, 0, 0))
    \/ \E k \in K : UnpinOwner(k, TRUE) /\ hist' = Append(hist, Op("unpin_get", k, 0, 0))
    \* repeated disjunct: more weight for maintenance in -simulate mode
    \/ \E i \in 1..FlushWeight : Flush /\ hist' = Append(hist, Op("flush", 0, 0, 0))

GMaint ==
    /\ \/ MaintStart
       \/ \E cw \in DuelChoices : MaintWrite(cw)
       \/ MaintRead
       \/ MaintTrim
    /\ hist' = hist

Quiescent == maint = "idle" /\ ~NeedMaint

Why ==
    IF failed # "" THEN failed
    ELSE IF ~BoundedStrict THEN "strict"
    ELSE "len"

Terminal ==
    CASE EmitWhen = "failed" -> failed # ""
      [] EmitWhen = "strict" -> ~BoundedStrict
      [] OTHER -> failed # "" \/ (Len(hist) = MaxOps /\ Quiescent)

Emit ==
    /\ ~done /\ Terminal
    /\ done' = TRUE
    /\ PrintT(ToJson([conf |-> conf, ops |-> hist, failed |-> failed, why |-> Why]))
    /\ UNCHANGED <<vars, hist>>

GNext ==
    \/ (Go /\ ~Terminal /\ GOps /\ done' = done)
    \/ (~done /\ ~Terminal /\ GMaint /\ done' = done)
    \/ Emit

NotDone == ~done      \* as INVARIANT: stop at the first emitted witness
GConstraint == Len(wbuf) <= MaxW

GSpec == GInit /\ [][GNext]_gvars
=============================================================================
