SPECIFICATION GenSpec
CONSTANTS
  WCols = {"W1", "W2"}
  SCols = {"S1", "S2"}
  Keys <- GenKeys
  VTypes <- GenVTypes
  Elems <- GenElems
  Vals = {1, 2}
  MaxBatches = 3
  MaxBufs = 2
  MaxIters = 2
  MaxOps = 1000000
  AtomicCommit = TRUE
  SnapshotScan = TRUE
  Alias = {}
  TrackTouch = FALSE
  MisTag = {}
CHECK_DEADLOCK FALSE
