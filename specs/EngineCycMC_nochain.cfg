SPECIFICATION Spec
CONSTANTS
  SccFix = "forget"
  TfcChain = FALSE
  MaxEpochs = 2
  MaxSets = 1
  MaxQueries = 2
  Emitting = "no"
INVARIANT Correct
VIEW View
CHECK_DEADLOCK FALSE
