\* 3 threads, 2 types, 2 values, at most ONE handle per thread, vacuum at every step
SPECIFICATION Spec
CONSTANTS
  Threads = {t1, t2, t3}
  Types = {ty1, ty2}
  Values = {v1, v2}
  Allocs = {a1, a2, a3, a4}
  IntAllocs = FALSE
  MaxHandles = 1
  PerValueShard = FALSE
  Mutation = "none"
  VacuumOn = TRUE
  CodecSeqs <- NoCodec
  CodecThreads <- NoThreads
SYMMETRY SymA
INVARIANTS TypeOK Canonical OneLivePerValue SlotTracksLive SlotContent StrongConsistent NoLeak DecodeOK
CHECK_DEADLOCK FALSE
