------------------------------- MODULE Codec -------------------------------
(***************************************************************************)
(* C12 - the serialization contract as a FIFO of self-delimiting values,   *)
(* plus the interning session (crates/storage/src/intern.rs, Encode/Decode *)
(* of Interned<T>; crates/serialize/src/{encode,decode}.rs                  *)
(* Encoder::encode / Decoder::decode create one Session per top-level       *)
(* value).                                                                 *)
(*                                                                         *)
(* What the model decides: the ORDER and FRAMING of values in one stream   *)
(* (every Decode returns the head of the FIFO and consumes exactly what    *)
(* the matching Encode wrote), and which occurrences of interned handles   *)
(* are written inline (S) or as a back-reference (R), and whether a        *)
(* back-reference can be resolved when it is read.  The interner is        *)
(* modelled as the code has it: a table of WEAK pointers (tab), `intern`   *)
(* returns an existing live allocation and drops the freshly decoded one,  *)
(* a reference is resolved by upgrading the weak pointer.                  *)
(*                                                                         *)
(* What it does not decide: the bytes (LEB128 / zig-zag arithmetic).  The  *)
(* byte offsets are observed on the real code by codec_replay, which       *)
(* replays the behaviours printed by this module (CodecGenBeh.cfg /        *)
(* CodecShapes.cfg) and compares with the expectation recorded after each  *)
(* step (hist).                                                            *)
(*                                                                         *)
(* Types.  An interned handle has a Rust TYPE (TypeOf: Interned<str>,       *)
(* Interned<String>, Interned<W>, Interned<Dyn> ...) and a 128-bit content  *)
(* HASH (HashOf).  The hash does not cover the type: `str` and `String`     *)
(* hash identically, a new-type hashes like its field.  So two handles of   *)
(* DIFFERENT types may have the SAME hash.  The code keys everything by     *)
(* the pair: the session's `seen` set holds InternedID {stable_type_id,     *)
(* hash_128}, the interner has one shard per type (get_from_hash::<T>).     *)
(* A handle id of the model stands for one (type, hash) pair (ASSUME        *)
(* below), so `tab`, indexed by handle id, is the table keyed by            *)
(* (type, hash).  On the wire a reference is tag 1 + hash ONLY; the type of *)
(* a position is static knowledge shared by encoder and decoder (the Rust   *)
(* type of the field), carried in the model as the ghost field `ty` of a    *)
(* reference token.                                                         *)
(*                                                                         *)
(* Switches: AllowUnregistered = TRUE is the API as it is (handles made by *)
(* Interned::new_duplicating or by another interner are not in the table); *)
(* PinDecoded = FALSE is the code as it is, TRUE models the repair (the    *)
(* decode session keeps every decoded handle alive until the top-level     *)
(* value is complete).  SeenByHashOnly = FALSE is the code as it is; TRUE  *)
(* is a MUTATION (anti-vacuity of FIFO / SelfContained): the session's     *)
(* `seen` set is keyed by the bare content hash, so the second of two      *)
(* equal-hash handles of different types is written as a reference to a    *)
(* value of its type that was never written.                               *)
(***************************************************************************)
EXTENDS Naturals, Sequences, FiniteSets, TLC, Json

CONSTANTS Pool,              \* sequence of top-level values: each the sequence of its handle ids in encode order (<<>> = no handles)
          Kids,              \* handle id -> sequence of handle ids inside that handle's content
          TypeOf,            \* handle id -> Rust type of the handle ("S" = Interned<str>, "T" = Interned<String>, "W" = Interned<W(String)>, "D" = Interned<Dyn>)
          HashOf,            \* handle id -> content hash class (equal for equal content, whatever the type)
          MaxEnc,            \* encodes per behaviour
          Aux,               \* TRUE: one auxiliary step (restart / drop originals / drop decoded) may occur
          AllowUnregistered,
          PinDecoded,
          SeenByHashOnly,    \* MUTATION: `seen` keyed by the hash alone (the code keys it by (type, hash))
          Emitting              \* TRUE: behaviour generator (prints every complete behaviour as JSON)

VARIABLES stream,  \* FIFO of encoded top-level values [v, wire]
          pos,     \* number of values decoded so far
          out,     \* decoded results: sequence of handle ids, <<0>> = decode failed
          allocs,  \* allocation number -> [id, kids (allocation numbers)]
          tab,     \* the interner of the plugin: handle id -> allocation number (weak), 0 = none
          reg,     \* how the originals were made: "intern" (in tab) or "dup" (not)
          origAlive, kept, auxUsed, failed, hist, done

vars == <<stream, pos, out, allocs, tab, reg, origAlive, kept, auxUsed, failed, hist, done>>

H == DOMAIN Kids
Range(s) == {s[i] : i \in DOMAIN s}

(* a handle id IS a (type, hash) pair: InternedID / slot of the per-type shard *)
ASSUME /\ DOMAIN TypeOf = H /\ DOMAIN HashOf = H
       /\ \A g, h \in H : (TypeOf[g] = TypeOf[h] /\ HashOf[g] = HashOf[h]) => g = h
(* the slot of shard `ty` for hash `x` (0: that shard has never seen the hash) *)
Slot(ty, x) == IF \E h \in H : TypeOf[h] = ty /\ HashOf[h] = x
               THEN CHOOSE h \in H : TypeOf[h] = ty /\ HashOf[h] = x ELSE 0
(* key of the session's `seen` set *)
SeenKey(h) == IF SeenByHashOnly THEN <<HashOf[h]>> ELSE <<TypeOf[h], HashOf[h]>>

(* ------------------------------ encode ---------------------------------- *)
(* Encode for Interned<T>: `seen.insert(InternedID {T::STABLE_TYPE_ID,      *)
(* hash})`; first -> tag 0 + value (recursively, same session), later ->    *)
(* tag 1 + hash (x; ty = static type of the position, not on the wire).     *)
RECURSIVE EncSeq(_, _)
EncSeq(hs, acc) ==
    IF hs = <<>> THEN acc
    ELSE LET h == Head(hs) IN
         IF SeenKey(h) \in acc.seen
         THEN EncSeq(Tail(hs), [acc EXCEPT !.wire = Append(@, [t |-> "R", x |-> HashOf[h], ty |-> TypeOf[h]])])
         ELSE EncSeq(Tail(hs),
                     EncSeq(Kids[h], [wire |-> Append(acc.wire, [t |-> "S", h |-> h]),
                                      seen |-> acc.seen \cup {SeenKey(h)}]))
Wire(v) == EncSeq(Pool[v], [wire |-> <<>>, seen |-> {}]).wire     \* new Session per top-level encode

Pattern(w) == [i \in DOMAIN w |-> w[i].t]

(* ------------------------------ decode ---------------------------------- *)
RECURSIVE Reach(_, _)
Reach(S, A) == LET N == S \cup UNION {Range(A[a].kids) : a \in S}
               IN IF N = S THEN S ELSE Reach(N, A)
Alive(a, R, A) == a # 0 /\ a \in Reach(R, A)       \* Weak::upgrade succeeds

RECURSIVE DecOne(_, _, _), DecKids(_, _, _, _, _)
(* st = [allocs, tab, i (next token), fail, pins]; R = what the program    *)
(* holds strongly right now (roots + the partially built value)             *)
DecKids(w, st, R, hs, acc) ==
    IF hs = <<>> \/ st.fail THEN [st |-> st, as |-> acc]
    ELSE LET r == DecOne(w, st, R \cup Range(acc))
         IN DecKids(w, r.st, R, Tail(hs), Append(acc, r.a))
DecOne(w, st, R) ==
    IF st.fail \/ st.i > Len(w) THEN [st |-> [st EXCEPT !.fail = TRUE], a |-> 0]
    ELSE LET tok == w[st.i] IN
      IF tok.t = "R"
      THEN \* interner.get_from_hash::<T>(hash).expect("referenced interned value not found"):
           \* the lookup goes to the shard of the position's static type
           LET g == Slot(tok.ty, tok.x)
               a == IF g = 0 THEN 0 ELSE st.tab[g] IN
           IF Alive(a, R \cup st.pins, st.allocs)
           THEN [st |-> [st EXCEPT !.i = @ + 1], a |-> a]
           ELSE [st |-> [st EXCEPT !.fail = TRUE], a |-> 0]
      ELSE \* T::decode(..) then interner.intern(source)
           LET k  == DecKids(w, [st EXCEPT !.i = @ + 1], R, Kids[tok.h], <<>>)
               s2 == k.st
               ex == s2.tab[tok.h]
           IN IF s2.fail THEN [st |-> s2, a |-> 0]
              ELSE IF Alive(ex, R \cup Range(k.as) \cup s2.pins, s2.allocs)
                   THEN \* existing allocation returned; the decoded value (and what only it holds) is dropped
                        [st |-> [s2 EXCEPT !.pins = IF PinDecoded THEN @ \cup {ex} ELSE @], a |-> ex]
                   ELSE LET n == Len(s2.allocs) + 1 IN
                        [st |-> [s2 EXCEPT !.allocs = Append(@, [id |-> tok.h, kids |-> k.as]),
                                           !.tab[tok.h] = n,
                                           !.pins = IF PinDecoded THEN @ \cup {n} ELSE @],
                         a |-> n]

Roots == (IF origAlive THEN H ELSE {}) \cup kept     \* originals are allocations 1..|H|

DecTop(v, w) == DecKids(w, [allocs |-> allocs, tab |-> tab, i |-> 1, fail |-> FALSE, pins |-> {}],
                        Roots, Pool[v], <<>>)

(* Representation.  A pool value is an ABSTRACT value; the concrete Rust     *)
(* value handed to Encode may have been built by any history (a VecDeque    *)
(* whose ring buffer has wrapped, a hash table filled in another order into *)
(* a larger allocation, a Vec with spare capacity ...).  The wire and the   *)
(* decoded value do not depend on it - that is why the model has no such    *)
(* variable - but the code under test must be exercised with it: the k-th   *)
(* Encode of a behaviour is told to build its containers with layout        *)
(* Layout(k) (harness/src/codec.rs "Layouts": 0 = collected in order,       *)
(* 1 = grown from both ends / reverse insertion, 2 = head moved by queue    *)
(* traffic / shrunk table; the harness adds the seed).  FIFO then demands   *)
(* the same decoded value for every layout.                                 *)
NLayouts == 3
Layout(k) == (k - 1) % NLayouts

(* ------------------------------ actions --------------------------------- *)
Init ==
    /\ stream = <<>> /\ pos = 0 /\ out = <<>>
    /\ reg \in [H -> IF AllowUnregistered THEN {"intern", "dup"} ELSE {"intern"}]
    /\ allocs = [h \in H |-> [id |-> h, kids |-> Kids[h]]]
    /\ tab = [h \in H |-> IF reg[h] = "intern" THEN h ELSE 0]
    /\ origAlive = TRUE /\ kept = {} /\ auxUsed = FALSE /\ failed = FALSE
    /\ hist = <<>> /\ done = FALSE

Encode(v) ==
    /\ ~failed /\ ~done /\ Len(stream) < MaxEnc /\ origAlive
    /\ LET w == Wire(v) IN
       /\ stream' = Append(stream, [v |-> v, wire |-> w])
       /\ hist' = Append(hist, [op |-> "enc", v |-> v, lay |-> Layout(Len(stream) + 1),
                                x |-> [len |-> Len(stream) + 1, sr |-> Pattern(w)]])
    /\ UNCHANGED <<pos, out, allocs, tab, reg, origAlive, kept, auxUsed, failed, done>>

Decode ==
    /\ ~failed /\ ~done /\ pos < Len(stream)
    /\ LET e == stream[pos + 1]
           r == DecTop(e.v, e.wire)
           bad == r.st.fail \/ r.st.i # Len(e.wire) + 1
       IN /\ pos' = pos + 1
          /\ out' = Append(out, IF bad THEN <<0>> ELSE [k \in DOMAIN r.as |-> r.st.allocs[r.as[k]].id])
          /\ allocs' = r.st.allocs
          /\ tab' = r.st.tab
          /\ kept' = IF bad THEN kept ELSE kept \cup Range(r.as)
          /\ failed' = bad
          /\ hist' = Append(hist, [op |-> "dec",
                                   x |-> [v |-> e.v, pos |-> pos + 1, fail |-> bad, sr |-> Pattern(e.wire)]])
    /\ UNCHANGED <<stream, reg, origAlive, auxUsed, done>>

(* a fresh interner on the plugin (process restart, or simply another one)  *)
Restart ==
    /\ Aux /\ ~auxUsed /\ ~failed /\ ~done
    /\ tab' = [h \in H |-> 0]
    /\ auxUsed' = TRUE
    /\ hist' = Append(hist, [op |-> "restart"])
    /\ UNCHANGED <<stream, pos, out, allocs, reg, origAlive, kept, failed, done>>

DropOrig ==
    /\ Aux /\ ~auxUsed /\ ~failed /\ ~done /\ origAlive /\ Len(stream) > 0
    /\ origAlive' = FALSE
    /\ auxUsed' = TRUE
    /\ hist' = Append(hist, [op |-> "droporig"])
    /\ UNCHANGED <<stream, pos, out, allocs, tab, reg, kept, failed, done>>

DropDec ==
    /\ Aux /\ ~auxUsed /\ ~failed /\ ~done /\ kept # {}
    /\ kept' = {}
    /\ auxUsed' = TRUE
    /\ hist' = Append(hist, [op |-> "dropdec"])
    /\ UNCHANGED <<stream, pos, out, allocs, tab, reg, origAlive, failed, done>>

Terminal == failed \/ (Len(stream) > 0 /\ pos = Len(stream) /\ (Len(stream) = MaxEnc \/ ~origAlive))

Emit ==
    /\ Terminal /\ ~done
    /\ done' = TRUE
    /\ IF Emitting THEN PrintT(ToJson([pool |-> Pool, kids |-> Kids, ty |-> TypeOf, hash |-> HashOf, reg |-> reg, ops |-> hist])) ELSE TRUE
    /\ UNCHANGED <<stream, pos, out, allocs, tab, reg, origAlive, kept, auxUsed, failed, hist>>

Next == (\E v \in DOMAIN Pool : Encode(v)) \/ Decode \/ Restart \/ DropOrig \/ DropDec \/ Emit

Spec == Init /\ [][Next]_vars

(* ------------------------------ properties ------------------------------ *)
(* P: values come back in the order written, equal to what was written.     *)
FIFO == \A k \in DOMAIN out : out[k] = Pool[stream[k].v]
(* P: never more decoded than written; one result per decode.               *)
PosOk == pos <= Len(stream) /\ Len(out) = pos
(* M: every stored value is self-contained: a reference is preceded by the  *)
(* inline copy OF THE SAME TYPE AND HASH in the same top-level value (what  *)
(* C07 relies on; an inline copy of another type with that hash is no use:  *)
(* it lands in another shard).                                              *)
SelfContained ==
    \A k \in DOMAIN stream : \A i \in DOMAIN stream[k].wire :
        stream[k].wire[i].t = "R" =>
            \E j \in 1..(i - 1) : /\ stream[k].wire[j].t = "S"
                                  /\ TypeOf[stream[k].wire[j].h] = stream[k].wire[i].ty
                                  /\ HashOf[stream[k].wire[j].h] = stream[k].wire[i].x
(* M: the table only points at allocations of the right content.            *)
TabOk == \A h \in H : tab[h] # 0 => allocs[tab[h]].id = h
=============================================================================
