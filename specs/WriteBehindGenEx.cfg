SPECIFICATION GSpec
CONSTANTS
  Threads = {1,2}
  Sers = {1}
  MaxBatch = 2
  Keys = {1}
  MaxFill = 1
  MaxGroup = 2
  Gated = TRUE
  AllowGap = FALSE
  AllowPass = FALSE
  MaxPass = 0
  MinDrop = 0
  Eager = TRUE
  AbortOnGap = TRUE
  DefectTakeAny = FALSE
  DefectNoJoin = FALSE
INVARIANT GenInv
CHECK_DEADLOCK FALSE
