\* C13 generator, seeded random longer histories (tlc -simulate -seed VERIF_SEED).
SPECIFICATION Spec
CONSTANTS
  LengthPrefix = TRUE
  DiscPrefix = TRUE
  Commutative = TRUE
  LenW = 8
  DiscW = 8
  Bytes = {0, 1, 2}
  Chars = {97, 98}
  MaxLen = 3
  MaxOps = 7
  MaxFlav = 3
  WithLeaves = FALSE
  GenTypes = {"u8", "str", "pair_str_str", "vec_u8", "vec_vec_u8", "vec_unit", "vec_str", "opt_u8", "opt_opt_u8", "pair_opt_u8_vec_u8", "res_u8_str", "set_u8", "set_set_u8", "set_vec_u8", "vec_set_u8", "map_u8_u8", "map_u8_set_u8", "map_str_u8", "bmap_u8_vec_u8", "heap_u8", "pair_set_u8_set_u8", "enum_e", "pair_enum_e_u8"}
CHECK_DEADLOCK FALSE
